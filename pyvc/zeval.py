"""Numeric evaluation of z3 terms under a concrete assignment (floats).

Used by the differential test: the symbolic result of the interpreter, evaluated
at a concrete input, must agree with what CPython/NumPy compute on that input.
"""
import math

import z3

_FUN = {
    "exp": math.exp, "log": math.log, "sin": math.sin, "cos": math.cos, "tan": math.tan,
    "tanh": math.tanh, "sqrt": math.sqrt, "arcsin": math.asin, "arccos": math.acos,
    "arctan": math.atan, "arctan2": math.atan2, "pow": math.pow,
}


class Unevaluable(Exception):
    pass


def zeval(e, env, funcs=None, memo=None):
    """env: name -> python number/bool ; funcs: name -> python callable (for array functions / UFs)"""
    if memo is None:
        memo = {}
    key = e.get_id()
    if key in memo:
        return memo[key]
    r = _zeval(e, env, funcs or {}, memo)
    memo[key] = r
    return r


def _zeval(e, env, funcs, memo):
    if z3.is_int_value(e):
        return e.as_long()
    if z3.is_rational_value(e):
        return e.numerator_as_long() / e.denominator_as_long()
    if z3.is_true(e):
        return True
    if z3.is_false(e):
        return False
    if z3.is_quantifier(e):
        raise Unevaluable("quantifier")
    if not z3.is_app(e):
        raise Unevaluable(str(e))
    d = e.decl()
    k = d.kind()
    ch = e.children()
    if k == z3.Z3_OP_UNINTERPRETED:
        name = d.name()
        if not ch:
            if name == "pi":
                return math.pi
            if name in env:
                return env[name]
            raise Unevaluable("free constant %s" % name)
        args = [zeval(c, env, funcs, memo) for c in ch]
        if name in funcs:
            return funcs[name](*args)
        if name.startswith("uf_") and name[3:] in _FUN:
            name = name[3:]
        if name in _FUN:
            try:
                return _FUN[name](*args)
            except (ValueError, OverflowError):
                return float("nan")
        raise Unevaluable("function %s" % name)
    if k == z3.Z3_OP_ITE:
        c = zeval(ch[0], env, funcs, memo)
        return zeval(ch[1] if c else ch[2], env, funcs, memo)
    if k == z3.Z3_OP_AND:
        return all(zeval(c, env, funcs, memo) for c in ch)
    if k == z3.Z3_OP_OR:
        return any(zeval(c, env, funcs, memo) for c in ch)
    if k == z3.Z3_OP_IMPLIES:
        return (not zeval(ch[0], env, funcs, memo)) or zeval(ch[1], env, funcs, memo)
    if k == z3.Z3_OP_NOT:
        return not zeval(ch[0], env, funcs, memo)
    a = [zeval(c, env, funcs, memo) for c in ch]
    if k == z3.Z3_OP_ADD:
        return sum(a)
    if k == z3.Z3_OP_MUL:
        r = 1
        for x in a:
            r = r * x
        return r
    if k == z3.Z3_OP_SUB:
        r = a[0]
        for x in a[1:]:
            r = r - x
        return r
    if k == z3.Z3_OP_UMINUS:
        return -a[0]
    if k == z3.Z3_OP_DIV:
        return a[0] / a[1] if a[1] != 0 else float("nan")
    if k == z3.Z3_OP_IDIV:
        if a[1] == 0:
            raise Unevaluable("div by 0")
        q = abs(a[0]) // abs(a[1])
        # SMT-LIB: a = b*q + r with 0 <= r < |b|
        q = a[0] // a[1] if a[1] > 0 else -(a[0] // -a[1])
        return q
    if k == z3.Z3_OP_MOD:
        return a[0] % abs(a[1])
    if k == z3.Z3_OP_TO_REAL:
        return float(a[0]) if not isinstance(a[0], float) else a[0]
    if k == z3.Z3_OP_TO_INT:
        return math.floor(a[0])
    if k == z3.Z3_OP_POWER:
        return a[0] ** a[1]
    if k == z3.Z3_OP_EQ:
        return a[0] == a[1]
    if k == z3.Z3_OP_DISTINCT:
        return len(set(a)) == len(a)
    if k == z3.Z3_OP_LE:
        return a[0] <= a[1]
    if k == z3.Z3_OP_LT:
        return a[0] < a[1]
    if k == z3.Z3_OP_GE:
        return a[0] >= a[1]
    if k == z3.Z3_OP_GT:
        return a[0] > a[1]
    if k == z3.Z3_OP_XOR:
        return bool(a[0]) != bool(a[1])
    raise Unevaluable("op %s" % d.name())
