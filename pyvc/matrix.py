"""Matrices as an uninterpreted sort with ring, transpose and inverse axioms (used for C17).

The theory is untyped in the dimensions (one sort for all shapes); the axioms are
only ever instantiated on the well-shaped terms that occur.  It is an
*equational* theory: order / spectral statements are outside it.
"""
import z3

from . import sym
from .sym import Sym

MAT = z3.DeclareSort("Mat")
mmul = z3.Function("mmul", MAT, MAT, MAT)
madd = z3.Function("madd", MAT, MAT, MAT)
mneg = z3.Function("mneg", MAT, MAT)
mT = z3.Function("mT", MAT, MAT)
minv = z3.Function("minv", MAT, MAT)
invertible = z3.Function("invertible", MAT, z3.BoolSort())
ID = z3.Const("I_mat", MAT)
ZERO = z3.Const("Z_mat", MAT)


def axioms():
    A, B, C = z3.Consts("mA mB mC", MAT)
    ax = [
        ("mul_assoc", z3.ForAll([A, B, C], mmul(mmul(A, B), C) == mmul(A, mmul(B, C)))),
        ("add_assoc", z3.ForAll([A, B, C], madd(madd(A, B), C) == madd(A, madd(B, C)))),
        ("add_comm", z3.ForAll([A, B], madd(A, B) == madd(B, A))),
        ("distrib_l", z3.ForAll([A, B, C], mmul(A, madd(B, C)) == madd(mmul(A, B), mmul(A, C)))),
        ("distrib_r", z3.ForAll([A, B, C], mmul(madd(A, B), C) == madd(mmul(A, C), mmul(B, C)))),
        ("id_l", z3.ForAll([A], mmul(ID, A) == A)),
        ("id_r", z3.ForAll([A], mmul(A, ID) == A)),
        ("zero_add", z3.ForAll([A], madd(A, ZERO) == A)),
        ("neg_add", z3.ForAll([A], madd(A, mneg(A)) == ZERO)),
        ("neg_mul_l", z3.ForAll([A, B], mmul(mneg(A), B) == mneg(mmul(A, B)))),
        ("neg_mul_r", z3.ForAll([A, B], mmul(A, mneg(B)) == mneg(mmul(A, B)))),
        ("inv_l", z3.ForAll([A], z3.Implies(invertible(A), mmul(minv(A), A) == ID))),
        ("inv_r", z3.ForAll([A], z3.Implies(invertible(A), mmul(A, minv(A)) == ID))),
        ("T_mul", z3.ForAll([A, B], mT(mmul(A, B)) == mmul(mT(B), mT(A)))),
        ("T_add", z3.ForAll([A, B], mT(madd(A, B)) == madd(mT(A), mT(B)))),
        ("T_T", z3.ForAll([A], mT(mT(A)) == A)),
        ("T_inv", z3.ForAll([A], z3.Implies(invertible(A), mT(minv(A)) == minv(mT(A))))),
    ]
    return ax


class SMat:
    """symbolic matrix / vector"""
    __pyvc_symbolic__ = True
    __array_priority__ = 3000
    __hash__ = None

    def __init__(self, e):
        self.e = e

    def __matmul__(self, o):
        return SMat(mmul(self.e, o.e))

    def __add__(self, o):
        return SMat(madd(self.e, o.e))

    def __sub__(self, o):
        return SMat(madd(self.e, mneg(o.e)))

    def __neg__(self):
        return SMat(mneg(self.e))

    @property
    def T(self):
        return SMat(mT(self.e))

    def __eq__(self, o):
        if not isinstance(o, SMat):
            return NotImplemented
        return Sym(self.e == o.e)

    def __ne__(self, o):
        return Sym(self.e != o.e)

    def __repr__(self):
        return "SMat(%s)" % self.e


def make_mat(ctx, name):
    if not ctx.ghost.get("mat_axioms"):
        ctx.ghost["mat_axioms"] = True
        for _, a in axioms():
            ctx.assume(a)
    return SMat(z3.Const(ctx.fresh_name(name), MAT))


def inv_model(interp, a, *args, **kw):
    if isinstance(a, SMat):
        return SMat(minv(a.e))
    import scipy.linalg
    return scipy.linalg.inv(a, *args, **kw)


inv_model.__name__ = "scipy.linalg.inv"
