"""Finite sums over symbolic arrays.

SUM(a, k) = a[0] + ... + a[k-1] is a specification function over SMT arrays,
introduced by its two defining equations (a conservative definition, unfolded
explicitly at the points where a proof needs it -- never left as a quantified
axiom next to non-linear arithmetic).

Facts about SUM that need induction are *lemmas*: each has a statement builder
and a list of proof obligations (base, step) that are discharged in every run
in which the lemma is used.  Only `sum_perm` is a trusted axiom.

The link  np.sum(x) == SUM(x, len(x))  (np.mean, np.nanmean without NaNs
likewise) is the trusted library model of those NumPy functions.
"""
import z3

from . import sym
from .sym import Sym, SArr, lift

I = z3.IntSort()
Rl = z3.RealSort()
ARR = z3.ArraySort(I, Rl)
SUM = z3.Function("SUM", ARR, I, Rl)


def unfold(a, k):
    """defining equations of SUM instantiated at (a, k)"""
    return z3.And(SUM(a, 0) == 0, z3.Implies(k >= 0, SUM(a, k + 1) == SUM(a, k) + a[k]))


def allk(n, body):
    i = z3.Int("i!s")
    return z3.ForAll([i], z3.Implies(z3.And(i >= 0, i < n), body(i)))


# ----------------------------------------------------------------------------
# lemmas: name -> (statement(*args), [ (label, assumptions, goal) ])   over schematic constants
def _mk():
    a, b, s = z3.Const("la", ARR), z3.Const("lb", ARR), z3.Const("ls", ARR)
    c = z3.Real("lc")
    n, k = z3.Int("ln"), z3.Int("lk")
    L = {}

    def induction(name, stmt, hyp, concl, extra_step=()):
        """stmt(n): hyp(n) => concl(n).  Proof: base n=0, step k>=0: (hyp(k)=>concl(k)) and hyp(k+1) => concl(k+1)"""
        base = ("base", [hyp(z3.IntVal(0)), unfold(a, z3.IntVal(0)), unfold(b, z3.IntVal(0)), unfold(s, z3.IntVal(0))],
                concl(z3.IntVal(0)))
        step = ("step", [k >= 0, z3.Implies(hyp(k), concl(k)), hyp(k + 1), unfold(a, k), unfold(b, k), unfold(s, k)]
                + list(extra_step), concl(k + 1))
        # hyp(k+1) => hyp(k) is needed to use the induction hypothesis: its own obligation
        mono = ("hyp-monotone", [k >= 0, hyp(k + 1)], hyp(k))
        L[name] = (stmt, [base, step, mono])

    induction("sum_const",
              lambda A, C, N: z3.Implies(z3.And(N >= 0, allk(N, lambda i: A[i] == C)), SUM(A, N) == z3.ToReal(N) * C),
              lambda m: allk(m, lambda i: a[i] == c), lambda m: SUM(a, m) == z3.ToReal(m) * c)
    induction("sum_ext",
              lambda A, B, N: z3.Implies(z3.And(N >= 0, allk(N, lambda i: A[i] == B[i])), SUM(A, N) == SUM(B, N)),
              lambda m: allk(m, lambda i: a[i] == b[i]), lambda m: SUM(a, m) == SUM(b, m))
    induction("sum_scale",
              lambda A, B, C, N: z3.Implies(z3.And(N >= 0, allk(N, lambda i: B[i] == C * A[i])), SUM(B, N) == C * SUM(A, N)),
              lambda m: allk(m, lambda i: b[i] == c * a[i]), lambda m: SUM(b, m) == c * SUM(a, m))
    induction("sum_add",
              lambda A, B, S, N: z3.Implies(z3.And(N >= 0, allk(N, lambda i: S[i] == A[i] + B[i])),
                                            SUM(S, N) == SUM(A, N) + SUM(B, N)),
              lambda m: allk(m, lambda i: s[i] == a[i] + b[i]), lambda m: SUM(s, m) == SUM(a, m) + SUM(b, m))
    induction("sum_nonneg",
              lambda A, N: z3.Implies(z3.And(N >= 0, allk(N, lambda i: A[i] >= 0)), SUM(A, N) >= 0),
              lambda m: allk(m, lambda i: a[i] >= 0), lambda m: SUM(a, m) >= 0)
    induction("sum_le",
              lambda A, B, N: z3.Implies(z3.And(N >= 0, allk(N, lambda i: A[i] <= B[i])), SUM(A, N) <= SUM(B, N)),
              lambda m: allk(m, lambda i: a[i] <= b[i]), lambda m: SUM(a, m) <= SUM(b, m))
    # all terms >= 0 and sum == 0  =>  all terms == 0   (uses sum_nonneg at k in the step)
    induction("sum_zero_iff",
              lambda A, N: z3.Implies(z3.And(N >= 0, allk(N, lambda i: A[i] >= 0), SUM(A, N) == 0), allk(N, lambda i: A[i] == 0)),
              lambda m: z3.And(allk(m, lambda i: a[i] >= 0)),
              lambda m: z3.Implies(SUM(a, m) == 0, allk(m, lambda i: a[i] == 0)),
              extra_step=[z3.Implies(z3.And(k >= 0, allk(k, lambda i: a[i] >= 0)), SUM(a, k) >= 0)])
    return L


LEMMAS = _mk()
LEMMA_DEPENDS = {"sum_zero_iff": ["sum_nonneg"]}
TRUSTED = {
    # mean/sum of a finite sample does not depend on the order of the sample (symmetric function);
    # stated for two arrays related by a bijection pi of [0, n): trusted (A4), not proved here.
    "sum_perm": "SUM(a o pi, n) == SUM(a, n) for every bijection pi of [0, n)",
}


def lemma_obligations(name):
    """[(oid, smt2 text)] proving lemma `name` (schematically, for all arrays)"""
    from . import solve
    out = []
    stmt, proofs = LEMMAS[name]
    for label, assumptions, goal in proofs:
        out.append(("lemma/%s/%s" % (name, label), solve.to_smt2(assumptions, goal)))
    return out


# ----------------------------------------------------------------------------
def materialize(ctx, arr):
    """SMT array constant A with  forall i in [0,n). A[i] == arr[i]  (cached by pointwise expression)"""
    if not isinstance(arr, SArr) or arr.ndim != 1:
        raise sym.OutsideSubset("sum over a non 1-d symbolic array")
    n = arr.shape[0]
    probe = z3.Int("i!m")
    ctx.bound_depth = getattr(ctx, "bound_depth", 0) + 1
    try:
        body = sym.to_real(lift(arr.fn(Sym(probe))))
    finally:
        ctx.bound_depth -= 1
    key = (str(body.sexpr()), str(lift(n)))
    cache = ctx.ghost.setdefault("materialized", {})
    if key in cache:
        return cache[key]
    if z3.is_app(body) and body.decl().kind() == z3.Z3_OP_SELECT and body.arg(1).eq(probe) and z3.is_const(body.arg(0)):
        A = body.arg(0)     # already an SMT array read at the index: use it directly
    else:
        # lambda array: A[i] beta-reduces to the pointwise expression, so lemma hypotheses about A[i]
        # become statements about the expressions themselves
        A = z3.Lambda([probe], body)
    # sums over pointwise-equal arrays are equal: instance of lemma sum_ext against every array of this length
    stmt_ext = LEMMAS["sum_ext"][0]
    lens = ctx.ghost.setdefault("materialized_len", {})
    for k2, B in list(cache.items()):
        nB = lens[k2]
        same = z3.simplify(lift(n) - nB == 0) if not isinstance(n, int) or not z3.is_int_value(nB) else z3.BoolVal(n == nB.as_long())
        if z3.is_false(same):
            continue
        ctx.assume(z3.Implies(lift(n) == nB, stmt_ext(A, B, lift(n))))
        ctx.ghost.setdefault("auto_lemmas", set()).add("sum_ext")
    cache[key] = A
    lens[key] = lift(n)
    return A


def ssum(ctx, arr):
    A = materialize(ctx, arr)
    n = lift(arr.shape[0])
    ctx.ghost.setdefault("sum_terms", []).append((A, n))
    return Sym(SUM(A, n))


def use_lemma(interp, name, args):
    """assume an instance of a proved lemma (its proof obligations are added to the run)"""
    ctx = interp.ctx
    if name in TRUSTED:
        raise sym.OutsideSubset("trusted sum axiom %s must be used through use_axiom" % name)
    stmt, _ = LEMMAS[name]
    zargs = []
    for a in args:
        if isinstance(a, SArr) and name.startswith("count_"):
            zargs.append(materialize_int(ctx, a))
        elif isinstance(a, SArr):
            zargs.append(materialize(ctx, a))
        else:
            e = lift(a)
            zargs.append(e)
    # coerce Int->Real where the schematic constant is real
    fixed = []
    for a in zargs:
        fixed.append(a)
    inst = stmt(*[(z3.ToReal(x) if (i_is_real and z3.is_int(x)) else x) for x, i_is_real in zip(fixed, _real_positions(name, len(fixed)))])
    used = interp.lemmas_used if hasattr(interp, "lemmas_used") else set()
    used.add(name)
    for d in LEMMA_DEPENDS.get(name, []):
        used.add(d)
    interp.lemmas_used = used
    ctx.assume(inst)


def _real_positions(name, n):
    pos = {"sum_const": [False, True, False], "sum_scale": [False, False, True, False]}
    return pos.get(name, [False] * n)


# =============================================================================
# counting occurrences in integer arrays:  CNT(a, k, v) = #{ j < k | a[j] == v }
# =============================================================================
IARR = z3.ArraySort(I, I)
CNT = z3.Function("CNT", IARR, I, I, I)


def count_def(a, k):
    """defining equations of CNT instantiated at position k (for every value v)"""
    v = z3.Int("v!c")
    return z3.ForAll([v], z3.And(CNT(a, 0, v) == 0,
                                 z3.Implies(k >= 0, CNT(a, k + 1, v) == CNT(a, k, v) + z3.If(a[k] == v, 1, 0))))


def _mk_count():
    a = z3.Const("ca", IARR)
    j, k, v = z3.Ints("cj ck cv")
    L = {}
    # count_nondec: 0 <= j <= k  =>  CNT(a,j,v) <= CNT(a,k,v)      (induction on k >= j)
    L["count_nondec"] = (
        lambda A: _all3(lambda J, K, V: z3.Implies(z3.And(0 <= J, J <= K), CNT(A, J, V) <= CNT(A, K, V))),
        [("base", [j >= 0], CNT(a, j, v) <= CNT(a, j, v)),
         ("step", [0 <= j, j <= k, CNT(a, j, v) <= CNT(a, k, v), count_def(a, k)], CNT(a, j, v) <= CNT(a, k + 1, v))])
    # count_mono: 0 <= j < k and a[j] == v  =>  CNT(a,j,v) < CNT(a,k,v)   (induction on k > j)
    L["count_mono"] = (
        lambda A: _all3(lambda J, K, V: z3.Implies(z3.And(0 <= J, J < K, A[J] == V), CNT(A, J, V) < CNT(A, K, V))),
        [("base", [j >= 0, a[j] == v, count_def(a, j)], CNT(a, j, v) < CNT(a, j + 1, v)),
         ("step", [0 <= j, j < k, a[j] == v, CNT(a, j, v) < CNT(a, k, v), count_def(a, k)], CNT(a, j, v) < CNT(a, k + 1, v))])
    # count_bound: 0 <= k  =>  0 <= CNT(a,k,v) <= k
    L["count_bound"] = (
        lambda A: _all3(lambda J, K, V: z3.Implies(0 <= K, z3.And(0 <= CNT(A, K, V), CNT(A, K, V) <= K))),
        [("base", [count_def(a, z3.IntVal(0))], z3.And(0 <= CNT(a, 0, v), CNT(a, 0, v) <= 0)),
         ("step", [0 <= k, 0 <= CNT(a, k, v), CNT(a, k, v) <= k, count_def(a, k)],
          z3.And(0 <= CNT(a, k + 1, v), CNT(a, k + 1, v) <= k + 1))])
    return L


def _all3(body):
    J, K, V = z3.Ints("J!c K!c V!c")
    return z3.ForAll([J, K, V], body(J, K, V))


LEMMAS.update(_mk_count())


def materialize_int(ctx, arr):
    """integer SMT array constant A with forall i in [0,n). A[i] == arr[i]"""
    n = arr.shape[0]
    probe = z3.Int("i!m")
    ctx.bound_depth = getattr(ctx, "bound_depth", 0) + 1
    try:
        body = lift(arr.fn(Sym(probe)))
    finally:
        ctx.bound_depth -= 1
    key = ("int", str(body.sexpr()), str(lift(n)))
    cache = ctx.ghost.setdefault("materialized_int", {})
    if key in cache:
        return cache[key]
    A = z3.Const(ctx.fresh_name("iarr"), IARR)
    ctx.assume(z3.ForAll([probe], z3.Implies(z3.And(probe >= 0, probe < lift(n)), A[probe] == body)))
    cache[key] = A
    return A


def cnt(ctx, arr, k, v):
    A = materialize_int(ctx, arr)
    return Sym(CNT(A, lift(k), lift(v)))


# =============================================================================
# more sum lemmas: shifting and reversing the summation range
# =============================================================================
def _mk_shift_reverse():
    a, b = z3.Const("la", ARR), z3.Const("lb", ARR)
    m, n, k = z3.Ints("lm ln lk")
    L = {}
    # sum_shift: b[i] == a[m+i] for i < n, m >= 0   =>   SUM(b, n) == SUM(a, m+n) - SUM(a, m)
    hyp = lambda t: z3.And(m >= 0, allk(t, lambda i: b[i] == a[m + i]))
    concl = lambda t: SUM(b, t) == SUM(a, m + t) - SUM(a, m)
    L["sum_shift"] = (
        lambda A, B, Mm, N: z3.Implies(z3.And(N >= 0, Mm >= 0, allk(N, lambda i: B[i] == A[Mm + i])),
                                       SUM(B, N) == SUM(A, Mm + N) - SUM(A, Mm)),
        [("base", [hyp(z3.IntVal(0)), unfold(b, z3.IntVal(0))], concl(z3.IntVal(0))),
         ("step", [k >= 0, z3.Implies(hyp(k), concl(k)), hyp(k + 1), unfold(b, k), unfold(a, m + k)], concl(k + 1)),
         ("hyp-monotone", [k >= 0, hyp(k + 1)], hyp(k))])
    # sum_reverse: b[i] == a[n-1-i] for i < n   =>   SUM(b, n) == SUM(a, n)
    # generalised for the induction: for k <= n:  SUM(b, k) == SUM(a, n) - SUM(a, n-k)
    hyp_r = lambda t: z3.And(t <= n, allk(t, lambda i: b[i] == a[n - 1 - i]))
    concl_r = lambda t: SUM(b, t) == SUM(a, n) - SUM(a, n - t)
    L["sum_reverse"] = (
        lambda A, B, N: z3.Implies(z3.And(N >= 0, allk(N, lambda i: B[i] == A[N - 1 - i])), SUM(B, N) == SUM(A, N)),
        [("base", [hyp_r(z3.IntVal(0)), unfold(b, z3.IntVal(0))], concl_r(z3.IntVal(0))),
         ("step", [k >= 0, z3.Implies(hyp_r(k), concl_r(k)), hyp_r(k + 1), unfold(b, k), unfold(a, n - k - 1)], concl_r(k + 1)),
         ("hyp-monotone", [k >= 0, hyp_r(k + 1)], hyp_r(k)),
         ("conclude", [n >= 0, concl_r(n), unfold(a, z3.IntVal(0))], SUM(b, n) == SUM(a, n))])
    return L


LEMMAS.update(_mk_shift_reverse())


def algebraic_lemma(name, nargs, builder):
    """register a quantifier-free algebraic fact over reals: builder(*z3 reals) -> z3 Bool.  It is proved in
    isolation (one obligation, pure QF_NRA) in every run that uses it and may then be instantiated."""
    consts = [z3.Real("al_%s_%d" % (name, i)) for i in range(nargs)]
    LEMMAS[name] = (lambda *a: builder(*[sym.to_real(x) for x in a]), [("direct", [], builder(*consts))])
