"""Symbolic value domain of pyvc.

Sym   -- a symbolic scalar (SMT Int / Real / Bool term) with Python operator
         overloading, so that the interpreter (and native helper code) can use
         ordinary Python operators on it.
SArr  -- a symbolic n-d array given by a shape and an index -> value closure
         ("lambda array").  Elementwise NumPy expressions compose closures.

Floats are modelled as reals (assumption A2 of DESIGN.md); Python ints as SMT
integers (exact).
"""
import fractions
import math
import numbers

import z3

# ----------------------------------------------------------------------------
# path context (set by pyvc.paths); Sym.__bool__ forks through it
_CTX = [None]


def ctx():
    c = _CTX[0]
    if c is None:
        raise RuntimeError("no active path context")
    return c


def set_ctx(c):
    _CTX[0] = c


# ----------------------------------------------------------------------------
def is_sym(v):
    return isinstance(v, (Sym, SArr))


def deep_sym(v, _depth=0):
    """True if v contains a symbolic value (shallow containers only)."""
    if isinstance(v, (Sym, SArr, SMasked)) or getattr(v, "__pyvc_symbolic__", False):
        return True
    if _depth < 3 and isinstance(v, (tuple, list)):
        return any(deep_sym(x, _depth + 1) for x in v)
    if _depth < 3 and isinstance(v, dict):
        return any(deep_sym(x, _depth + 1) for x in v.values())
    return False


def real_val(x):
    """Exact rational of a Python number.  A float stands for its shortest
    decimal representation (= the source literal for literals)."""
    if isinstance(x, bool):
        return z3.RealVal(int(x))
    if isinstance(x, int):
        return z3.RealVal(x)
    if isinstance(x, fractions.Fraction):
        return z3.RealVal(str(x))
    if isinstance(x, float):
        if math.isnan(x) or math.isinf(x):
            raise OutsideSubset("non-finite float constant %r" % (x,))
        return z3.RealVal(str(fractions.Fraction(repr(float(x)))))
    try:
        import numpy as np
        if isinstance(x, np.floating):
            return real_val(float(x))
        if isinstance(x, np.integer):
            return z3.RealVal(int(x))
        if isinstance(x, np.bool_):
            return z3.RealVal(int(x))
    except ImportError:
        pass
    raise OutsideSubset("cannot convert %r to a real" % (x,))


class OutsideSubset(Exception):
    """A construct the engine does not model.  Never silently skipped."""


def lift(v):
    """Python scalar or Sym -> z3 expr."""
    if isinstance(v, Sym):
        return v.e
    if isinstance(v, z3.ExprRef):
        return v
    if isinstance(v, bool):
        return z3.BoolVal(v)
    if isinstance(v, int):
        return z3.IntVal(v)
    if isinstance(v, float) and v != v:
        return z3.Real("NaN")        # the distinguished NaN constant (pyvc.npmodels.NAN)
    if isinstance(v, (float, fractions.Fraction)):
        return real_val(v)
    try:
        import numpy as np
        if isinstance(v, np.floating) and v != v:
            return z3.Real("NaN")
        if isinstance(v, np.bool_):
            return z3.BoolVal(bool(v))
        if isinstance(v, np.integer):
            return z3.IntVal(int(v))
        if isinstance(v, np.floating):
            return real_val(float(v))
        if isinstance(v, np.ndarray) and v.ndim == 0:
            return lift(v.item())
    except ImportError:
        pass
    raise OutsideSubset("cannot lift %r (%s) to an SMT term" % (v, type(v).__name__))


def _num2(a, b):
    """coerce two z3 numeric/bool exprs to a common arithmetic sort"""
    if z3.is_bool(a):
        a = z3.If(a, z3.IntVal(1), z3.IntVal(0))
    if z3.is_bool(b):
        b = z3.If(b, z3.IntVal(1), z3.IntVal(0))
    if a.sort() == b.sort():
        return a, b
    if z3.is_int(a) and z3.is_real(b):
        return z3.ToReal(a), b
    if z3.is_real(a) and z3.is_int(b):
        return a, z3.ToReal(b)
    raise OutsideSubset("sort mismatch %s / %s" % (a.sort(), b.sort()))


def to_real(e):
    if z3.is_bool(e):
        e = z3.If(e, z3.IntVal(1), z3.IntVal(0))
    return z3.ToReal(e) if z3.is_int(e) else e


def simp(e):
    return z3.simplify(e)


def concrete_of(e):
    """If z3 expr e simplifies to a literal return the Python value else None."""
    e = z3.simplify(e)
    if z3.is_true(e):
        return True
    if z3.is_false(e):
        return False
    if z3.is_int_value(e):
        return e.as_long()
    if z3.is_rational_value(e):
        return fractions.Fraction(e.numerator_as_long(), e.denominator_as_long())
    return None


# uninterpreted transcendental functions (A6: analytic axioms, see solve.py)
R = z3.RealSort()
UF = {name: z3.Function("uf_" + name, R, R) for name in
      ("exp", "log", "sin", "cos", "tan", "tanh", "sqrt", "arcsin", "arccos", "arctan")}
UF["arctan2"] = z3.Function("uf_arctan2", R, R, R)
UF["pow"] = z3.Function("uf_pow", R, R, R)
PI = z3.Real("pi")  # constrained in solve.py: 3.14159 < pi < 3.1416


class Sym:
    """Symbolic scalar."""
    __slots__ = ("e",)
    __array_priority__ = 1000  # numpy scalars defer to us
    __hash__ = None

    def __init__(self, e):
        if isinstance(e, Sym):
            e = e.e
        self.e = e

    # -- kinds
    @property
    def is_bool(self):
        return z3.is_bool(self.e)

    @property
    def is_int(self):
        return z3.is_int(self.e)

    @property
    def is_real(self):
        return z3.is_real(self.e)

    def __repr__(self):
        return "Sym(%s)" % (self.e,)

    # -- truthiness forks the path
    def __bool__(self):
        return ctx().branch(truth(self))

    # -- arithmetic
    def _bin(self, other, f, rev=False):
        try:
            o = lift(other)
        except OutsideSubset:
            return NotImplemented
        a, b = _num2(self.e, o)
        if rev:
            a, b = b, a
        return mk(f(a, b))

    def __add__(self, o):
        if self.is_bool and isinstance(o, Sym) and o.is_bool:
            return mk(z3.Or(self.e, o.e))          # NumPy: bool + bool is the logical or
        return self._bin(o, lambda a, b: a + b)

    def __radd__(self, o):
        return self._bin(o, lambda a, b: a + b, True)

    def __sub__(self, o):
        return self._bin(o, lambda a, b: a - b)

    def __rsub__(self, o):
        return self._bin(o, lambda a, b: a - b, True)

    def __mul__(self, o):
        if self.is_bool and isinstance(o, Sym) and o.is_bool:
            # NumPy: bool * bool is the logical and (kept propositional instead of a product of 0/1 integers)
            return mk(z3.And(self.e, o.e))
        return self._bin(o, lambda a, b: a * b)

    def __rmul__(self, o):
        if self.is_bool and isinstance(o, Sym) and o.is_bool:
            return mk(z3.And(o.e, self.e))
        return self._bin(o, lambda a, b: a * b, True)

    def __truediv__(self, o):
        return self._bin(o, _truediv)

    def __rtruediv__(self, o):
        return self._bin(o, _truediv, True)

    def __floordiv__(self, o):
        return self._bin(o, _floordiv)

    def __rfloordiv__(self, o):
        return self._bin(o, _floordiv, True)

    def __mod__(self, o):
        return self._bin(o, _mod)

    def __rmod__(self, o):
        return self._bin(o, _mod, True)

    def __pow__(self, o):
        return sym_pow(self, o)

    def __rpow__(self, o):
        return sym_pow(o, self)

    def __neg__(self):
        e = self.e
        if z3.is_bool(e):
            e = z3.If(e, z3.IntVal(1), z3.IntVal(0))
        return mk(-e)

    def __pos__(self):
        return self

    def __abs__(self):
        e = self.e
        return mk(z3.If(e >= 0, e, -e))

    # -- comparisons
    def _cmp(self, other, f):
        try:
            o = lift(other)
        except OutsideSubset:
            return NotImplemented
        if z3.is_bool(self.e) and z3.is_bool(o):
            return mk(f(self.e, o))
        a, b = _num2(self.e, o)
        return mk(f(a, b))

    def __eq__(self, o):
        if o is None:
            return False
        r = self._cmp(o, lambda a, b: a == b)
        return False if r is NotImplemented else r

    def __ne__(self, o):
        if o is None:
            return True
        r = self._cmp(o, lambda a, b: a != b)
        return True if r is NotImplemented else r

    def __lt__(self, o):
        return self._cmp(o, lambda a, b: a < b)

    def __le__(self, o):
        return self._cmp(o, lambda a, b: a <= b)

    def __gt__(self, o):
        return self._cmp(o, lambda a, b: a > b)

    def __ge__(self, o):
        return self._cmp(o, lambda a, b: a >= b)

    # -- logical (numpy style on bools)
    def __and__(self, o):
        return mk(z3.And(truth(self), truth(o)))

    __rand__ = __and__

    def __or__(self, o):
        return mk(z3.Or(truth(self), truth(o)))

    __ror__ = __or__

    def __invert__(self):
        if self.is_bool:
            return mk(z3.Not(self.e))
        raise OutsideSubset("~ on non-bool symbolic")

    def __xor__(self, o):
        return mk(z3.Xor(truth(self), truth(o)))

    __rxor__ = __xor__

    # -- conversions
    def __int__(self):
        raise OutsideSubset("int() of symbolic must go through the interpreter model")

    def __float__(self):
        raise OutsideSubset("float() of a symbolic value reached native code")

    def __index__(self):
        raise OutsideSubset("symbolic value used as a native index")

    # numpy-ish attributes on scalars
    @property
    def shape(self):
        return ()

    @property
    def ndim(self):
        return 0

    @property
    def size(self):
        return 1

    @property
    def real(self):
        return self

    @property
    def T(self):
        return self

    def ravel(self):
        return self

    def any(self):
        return mk(truth(self))

    def all(self):
        return mk(truth(self))

    def item(self, *index):
        # (a scalar: item() and item(0) are the value itself)
        return self

    def astype(self, t):
        from . import models
        return models.astype(self, t)


def mk(e):
    """wrap, folding literals back to Python values"""
    c = concrete_of(e) if (z3.is_bool(e) or z3.is_arith(e)) else None
    if c is not None and (z3.is_true(e) or z3.is_false(e) or z3.is_int_value(e) or z3.is_rational_value(e)):
        # keep exact: ints stay ints, reals become Fractions
        return c
    return Sym(e)


def truth(v):
    """z3 Bool for the truth value of v (no forking)."""
    if isinstance(v, Sym):
        if v.is_bool:
            return v.e
        return v.e != 0
    if isinstance(v, SArr):
        raise OutsideSubset("truth value of a symbolic array")
    if isinstance(v, z3.ExprRef):
        return v
    return z3.BoolVal(bool(v))


def _truediv(a, b):
    return to_real(a) / to_real(b)


def _floordiv(a, b):
    if z3.is_int(a) and z3.is_int(b):
        # Python floor division.  SMT-LIB div is floor for a positive divisor;
        # floor(a/b) = floor((-a)/(-b)) reduces the negative case to it.
        return z3.If(b > 0, a / b, (-a) / (-b))
    return z3.ToReal(z3.ToInt(to_real(a) / to_real(b)))


def _mod(a, b):
    if z3.is_int(a) and z3.is_int(b):
        return a - b * _floordiv(a, b)
    ra, rb = to_real(a), to_real(b)
    return ra - rb * z3.ToReal(z3.ToInt(ra / rb))


def sym_pow(base, ex):
    """Python ** with symbolic operand(s)."""
    if isinstance(ex, Sym):
        c = concrete_of(ex.e)
        if c is None:
            return mk(UF["pow"](to_real(lift(base)), to_real(ex.e)))
        ex = c
    if isinstance(ex, float) and ex.is_integer():
        ex = int(ex)
    if isinstance(ex, fractions.Fraction) and ex.denominator == 1:
        ex = int(ex)
    b = lift(base)
    if isinstance(ex, int) and not isinstance(ex, bool):
        if ex == 0:
            return 1
        n = abs(ex)
        if n > 16:
            raise OutsideSubset("power %d too large" % ex)
        if z3.is_bool(b):
            b = z3.If(b, z3.IntVal(1), z3.IntVal(0))
        r = b
        for _ in range(n - 1):
            r = r * b
        if ex < 0:
            return mk(z3.RealVal(1) / to_real(r))
        return mk(r)
    if ex == 0.5 or ex == fractions.Fraction(1, 2):
        return mk(UF["sqrt"](to_real(b)))
    if ex == -0.5:
        return mk(1 / UF["sqrt"](to_real(b)))
    return mk(UF["pow"](to_real(b), real_val(ex)))


def ite(c, a, b):
    """symbolic if-then-else on scalars (Python values or Sym)"""
    if isinstance(c, (bool,)) or (not isinstance(c, Sym) and not isinstance(c, z3.ExprRef)):
        return a if c else b
    ce = truth(c)
    cc = concrete_of(ce)
    if cc is not None:
        return a if cc else b
    if a is b:
        return a
    ea, eb = lift(a), lift(b)
    if z3.is_bool(ea) and z3.is_bool(eb):
        return mk(z3.If(ce, ea, eb))
    ea, eb = _num2(ea, eb)
    return mk(z3.If(ce, ea, eb))


# ----------------------------------------------------------------------------
TIME_UNIT_US = {"ns": fractions.Fraction(1, 1000), "us": 1, "ms": 10**3, "s": 10**6, "m": 60 * 10**6, "h": 3600 * 10**6, "D": 86400 * 10**6}


def _time_operand(arr, other):
    """a (symbolic) timedelta compared / combined with an array of counts of a time unit: the timedelta in that unit
    (exact: NumPy compares in the finer common unit)"""
    unit = getattr(arr, "time_unit", None)
    if unit is None or isinstance(other, (Sym, SArr, int, float, fractions.Fraction)):
        return other
    import datetime as _dtm
    if isinstance(other, _dtm.timedelta):
        us = (other.days * 86400 + other.seconds) * 10**6 + other.microseconds
        return fractions.Fraction(us) / TIME_UNIT_US[unit]
    if hasattr(other, "total_us"):
        return Sym(z3.ToReal(lift(other.total_us))) / TIME_UNIT_US[unit]
    return other


class SArr:
    """Symbolic n-d array: shape (tuple of int | Sym-int) and fn(*idx) -> scalar.

    Mutable like an ndarray: stores replace self.fn; Python identity is array
    identity, so aliasing is modelled by Python itself.
    """
    __array_priority__ = 2000
    __hash__ = None

    def __setattr__(self, k, v):
        if k == "shape":
            v = tuple(v)         # `a.shape = [n]` (in-place reshape to the same dims)
            old = self.__dict__.get("shape")
            if old is not None and len(old) != len(v):
                raise OutsideSubset("in-place reshape to another rank")
        object.__setattr__(self, k, v)

    def __init__(self, shape, fn, dtype="real", name=None):
        self.shape = tuple(shape)
        self.fn = fn
        self.dtype = dtype  # 'real' | 'int' | 'bool'
        self.name = name

    def __repr__(self):
        return "SArr(%s, shape=%s, %s)" % (self.name or "?", self.shape, self.dtype)

    @property
    def ndim(self):
        return len(self.shape)

    @property
    def size(self):
        s = None
        for d in self.shape:
            s = d if s is None else s * d
        return 1 if s is None else s

    def __len__(self):
        n = self.shape[0]
        if isinstance(n, Sym):
            raise OutsideSubset("native len() of a symbolic-length array")
        return n

    def length(self):
        return self.shape[0]

    def at(self, *idx):
        return self.fn(*idx)

    # elementwise machinery -------------------------------------------------
    def _ew(self, other, op, dtype=None):
        return elementwise(op, [self, _time_operand(self, other)], dtype)

    def _rew(self, other, op, dtype=None):
        return elementwise(op, [other, self], dtype)

    def __add__(self, o):
        return self._ew(o, lambda a, b: a + b)

    def __radd__(self, o):
        return self._rew(o, lambda a, b: a + b)

    def __sub__(self, o):
        return self._ew(o, lambda a, b: a - b)

    def __rsub__(self, o):
        return self._rew(o, lambda a, b: a - b)

    def __mul__(self, o):
        return self._ew(o, lambda a, b: a * b)

    def __rmul__(self, o):
        return self._rew(o, lambda a, b: a * b)

    def __truediv__(self, o):
        return self._ew(o, lambda a, b: _div_any(a, b), "real")

    def __rtruediv__(self, o):
        return self._rew(o, lambda a, b: _div_any(a, b), "real")

    def __pow__(self, o):
        return self._ew(o, lambda a, b: sym_pow(a, b) if is_sym(a) or is_sym(b) else a ** b)

    def __rpow__(self, o):
        return self._rew(o, lambda a, b: sym_pow(a, b) if is_sym(a) or is_sym(b) else a ** b)

    def __neg__(self):
        return elementwise(lambda a: -a, [self])

    def __abs__(self):
        return elementwise(lambda a: abs(a), [self])

    def __lt__(self, o):
        return self._ew(o, lambda a, b: a < b, "bool")

    def __le__(self, o):
        return self._ew(o, lambda a, b: a <= b, "bool")

    def __gt__(self, o):
        return self._ew(o, lambda a, b: a > b, "bool")

    def __ge__(self, o):
        return self._ew(o, lambda a, b: a >= b, "bool")

    def __eq__(self, o):
        return self._ew(o, lambda a, b: a == b, "bool")

    def __ne__(self, o):
        return self._ew(o, lambda a, b: a != b, "bool")

    def __and__(self, o):
        return self._ew(o, lambda a, b: mk(z3.And(truth(a), truth(b))), "bool")

    __rand__ = __and__

    def __or__(self, o):
        return self._ew(o, lambda a, b: mk(z3.Or(truth(a), truth(b))), "bool")

    __ror__ = __or__

    def __invert__(self):
        return elementwise(lambda a: mk(z3.Not(truth(a))), [self], "bool")

    def __bool__(self):
        raise OutsideSubset("truth value of a symbolic array is ambiguous")

    # numpy-like methods ----------------------------------------------------
    def ravel(self):
        if self.ndim == 1:
            return self
        if self.ndim == 2 and self.shape[1] == 1:
            f = self.fn
            return SArr((self.shape[0],), lambda i: f(i, 0), self.dtype)
        if self.ndim == 2 and self.shape[0] == 1:
            f = self.fn
            return SArr((self.shape[1],), lambda i: f(0, i), self.dtype)
        raise OutsideSubset("ravel of a general 2-d symbolic array")

    flatten = ravel

    def copy(self):
        f = self.fn
        return SArr(self.shape, f, self.dtype)

    def swapaxes(self, a, b):
        if a == b or self.ndim == 1:
            return self          # a view of the same data
        if self.ndim == 2 and {a % 2, b % 2} == {0, 1}:
            return self.T
        raise OutsideSubset("swapaxes on rank > 2")

    def reshape(self, *shape):
        from . import models
        return models.reshape(self, *shape)

    def astype(self, t):
        from . import models
        return models.astype(self, t)

    @property
    def T(self):
        if self.ndim == 1:
            return self
        if self.ndim == 2:
            f = self.fn
            return SArr((self.shape[1], self.shape[0]), lambda i, j: f(j, i), self.dtype)
        raise OutsideSubset("transpose rank>2")

    def any(self, axis=None):
        from . import models
        return models.np_any(self, axis=axis)

    def all(self, axis=None):
        from . import models
        return models.np_all(self, axis=axis)

    def sum(self, axis=None, keepdims=False):
        from . import models
        return models.np_sum(self, axis=axis, keepdims=keepdims)

    def tolist(self):
        from . import models
        return models.sarr_tolist(self)

    def cumsum(self, axis=None):
        from . import models
        if self.ndim == 2 and axis is None:
            return models.np_cumsum(None, self.ravel())      # ndarray.cumsum() flattens
        return models.np_cumsum(None, self)

    def mean(self, axis=None):
        from . import models
        return models.np_mean(self, axis=axis)

    def min(self, axis=None):
        from . import models
        return models.np_min(self, axis=axis)

    def max(self, axis=None):
        from . import models
        return models.np_max(self, axis=axis)

    def __getitem__(self, key):
        from . import models
        return models.getitem(self, key)

    def __setitem__(self, key, val):
        from . import models
        return models.setitem(self, key, val)

    def __iter__(self):
        n = self.shape[0]
        if isinstance(n, Sym):
            raise OutsideSubset("native iteration over a symbolic-length array")
        for i in range(n):
            yield self[i]


class SMasked:
    """a[m] for a boolean mask m of a's shape: the selected elements, kept as
    (base, mask) so that  b[m] = a[m]  becomes a pointwise if-then-else."""

    def __init__(self, base, mask):
        self.base = base
        self.mask = mask


def _div_any(a, b):
    if is_sym(a) or is_sym(b):
        return mk(_truediv(*(lift(a), lift(b))))
    return a / b


def shape_of(v):
    if isinstance(v, SArr):
        return v.shape
    if isinstance(v, Sym):
        return ()
    try:
        import numpy as np
        if isinstance(v, np.ndarray):
            return v.shape
    except ImportError:
        pass
    if isinstance(v, (list, tuple)):
        import numpy as np
        return np.shape(v)
    return ()


def same_dim(a, b):
    """are two dimension values (int|Sym) known equal syntactically"""
    if isinstance(a, Sym) and isinstance(b, Sym):
        return a.e.eq(b.e) or z3.simplify(a.e - b.e).eq(z3.IntVal(0))
    if isinstance(a, Sym) or isinstance(b, Sym):
        return False
    return a == b


def broadcast_shapes(shapes):
    nd = max(len(s) for s in shapes)
    out = []
    for k in range(nd):
        dims = []
        for s in shapes:
            j = k - (nd - len(s))
            if j >= 0:
                dims.append(s[j])
        d = 1
        for x in dims:
            if not isinstance(x, Sym) and x == 1:
                continue
            if not isinstance(d, Sym) and d == 1:
                d = x
            elif not same_dim(d, x):
                # two different symbolic/concrete dims: must be equal for numpy
                ctx().oblige_safe("broadcast", lift(d) == lift(x))
        out.append(d)
    return tuple(out)


def index_into(v, idx, out_nd):
    """value of operand v (scalar / SArr / ndarray) at broadcast index idx"""
    if isinstance(v, SArr):
        nd = v.ndim
        sub = idx[out_nd - nd:]
        sub = tuple(0 if (not isinstance(d, Sym) and d == 1) else i for i, d in zip(sub, v.shape))
        return v.fn(*sub)
    import numpy as np
    if isinstance(v, np.ndarray) and v.ndim > 0:
        nd = v.ndim
        sub = idx[out_nd - nd:]
        sub = tuple(0 if d == 1 else i for i, d in zip(sub, v.shape))
        return concrete_select(v, sub)
    if isinstance(v, (list, tuple)):
        return index_into(np.asarray(v), idx, out_nd)
    return v


def concrete_select(arr, idx):
    """arr[idx] for a concrete ndarray and possibly-symbolic index tuple"""
    if all(not isinstance(i, Sym) for i in idx):
        x = arr[tuple(idx)]
        return x.item() if hasattr(x, "item") else x
    # build an ite chain over the (small) concrete array along symbolic axes
    import itertools
    import numpy as np
    ranges = [range(arr.shape[k]) if isinstance(i, Sym) else [i] for k, i in enumerate(idx)]
    total = 1
    for r in ranges:
        total *= len(r)
    if total > 4096:
        raise OutsideSubset("symbolic index into a large concrete array")
    res = None
    for combo in itertools.product(*ranges):
        val = arr[combo]
        val = val.item() if hasattr(val, "item") else val
        cond = z3.And([lift(i) == c for i, c in zip(idx, combo) if isinstance(i, Sym)])
        res = val if res is None else ite(mk(cond), val, res)
    return res


def elementwise(op, operands, dtype=None):
    shapes = [shape_of(o) for o in operands]
    if all(s == () for s in shapes):
        return op(*operands)
    shape = broadcast_shapes(shapes)
    nd = len(shape)
    # NumPy computes eagerly: freeze the operands' current contents (later in-place updates must not leak in)
    ops = [o.copy() if isinstance(o, SArr) else o for o in operands]
    if dtype is None:
        dts = [o.dtype for o in ops if isinstance(o, SArr)]
        dtype = "real" if ("real" in dts or not dts) else dts[0]
        for o in ops:
            if isinstance(o, float) or (isinstance(o, Sym) and o.is_real):
                dtype = "real"

    def fn(*idx):
        return op(*[index_into(o, idx, nd) for o in ops])
    res = SArr(shape, fn, dtype)
    for o in operands:
        if getattr(o, "time_unit", None):
            res.time_unit = o.time_unit       # integer counts of a time unit (datetime64 / timedelta64 arrays)
    return res
