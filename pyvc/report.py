"""Verdicts, replay files, evidence and exit codes for one property run."""
import fnmatch
import fractions
import importlib
import inspect
import json
import os
import random
import sys
import time
import traceback

from . import solve
from .run import (Run, REG, model_value, contract_check_concrete, theorem_check_concrete,
                  default_sampler, HERE, _short)
from .interp import FuncSrc, DROPPED_CALLS
from .cli import load_known

LEDGER = os.path.join(HERE, "baseline", "ledger.json")

GLOBAL_ASSUMPTIONS = [
    "A1 Python int is the mathematical integers (exact).",
    "A2 float64 is treated as the real numbers: no rounding, overflow, NaN or signed zero unless a contract names NaN; "
    "float constants stand for the rational their shortest repr denotes.",
    "A3 NumPy elementwise/broadcast semantics as modelled in pyvc/models.py; integer arrays do not overflow int64.",
    "A7 the pyvc interpreter implements Python's semantics for the supported subset (differential-tested each run).",
    "A8 z3 / cvc5 are sound.",
    "A9 single-threaded reading of each function.",
]


def jsonable(v):
    import datetime as _dtm
    if isinstance(v, _dtm.datetime):
        return {"datetime": v.isoformat()}
    if isinstance(v, _dtm.timedelta):
        return {"timedelta_us": (v.days * 86400 + v.seconds) * 10**6 + v.microseconds}
    if isinstance(v, fractions.Fraction):
        return {"fraction": "%d/%d" % (v.numerator, v.denominator), "float": float(v)}
    if isinstance(v, (bool, int, float, str)) or v is None:
        return v
    if isinstance(v, (list, tuple)):
        return [jsonable(x) for x in v]
    if isinstance(v, dict):
        return {str(k): jsonable(x) for k, x in v.items()}
    try:
        import numpy as np
        if isinstance(v, np.ndarray):
            return {"ndarray": v.tolist()}
        if isinstance(v, (np.floating, np.integer, np.bool_)):
            return v.item()
    except ImportError:
        pass
    return {"repr": _short(v)}


def unjson(v):
    if isinstance(v, dict):
        if "datetime" in v and len(v) == 1:
            import datetime as _dtm
            return _dtm.datetime.fromisoformat(v["datetime"])
        if "timedelta_us" in v and len(v) == 1:
            import datetime as _dtm
            return _dtm.timedelta(microseconds=v["timedelta_us"])
        if "fraction" in v:
            return v["float"]
        if "ndarray" in v:
            import numpy as np
            return np.asarray(v["ndarray"])
        if "repr" in v and len(v) == 1:
            return v["repr"]
        return {k: unjson(x) for k, x in v.items()}
    if isinstance(v, list):
        return [unjson(x) for x in v]
    return v


def _float_args(args):
    out = {}
    for k, v in args.items():
        out[k] = float(v) if isinstance(v, fractions.Fraction) else v
    return out


def _json_default(o):
    import datetime as _dtm
    if isinstance(o, (_dtm.datetime, _dtm.timedelta)):
        return str(o)
    return repr(o)


def find_owner(run, vc):
    for c in run.contracts:
        if c.label == vc.owner:
            return c
    for t in run.theorems:
        if t.label == vc.owner:
            return t
    return None


def args_from_model(owner, model, vc):
    """concrete inputs (dict) from a solver model, or None"""
    if model is None:
        return None
    hook = getattr(owner, "concretize", None)
    if hook is not None:
        try:
            return hook(model, vc)
        except Exception:
            return None
    from .contracts import Contract
    if isinstance(owner, Contract):
        if owner.params is None:
            return None
        names = list(owner.params)
        sig = inspect.signature(owner.fn_inner)
    else:
        sig = inspect.signature(owner.fn)
        names = []
        for n, prm in sig.parameters.items():
            if prm.kind is inspect.Parameter.VAR_KEYWORD:
                names += [k for k in owner.params if k != "canary" and k not in sig.parameters]      # `**values` theorems
            else:
                names.append(n)
        consts = {k: v.kw["value"] for k, v in owner.params.items() if hasattr(v, "tag") and v.tag == "const"}
        names = [n for n in names if n not in consts]
    out = {}
    for n in names:
        if (n + "_year") in model or (n + "_month") in model:
            # a symbolic datetime parameter (fields <n>_year, ...): rebuild the datetime
            import datetime as _dtm
            flds = []
            for fld, dflt in (("year", 2000), ("month", 1), ("day", 1), ("hour", 0), ("minute", 0), ("second", 0), ("microsecond", 0)):
                fv = model_value(model, "%s_%s" % (n, fld))
                if fld == "microsecond" and fv is None and model_value(model, n + "_ms") is not None:
                    fv = model_value(model, n + "_ms") * 1000
                flds.append(dflt if fv is None else int(fv))
            try:
                out[n] = _dtm.datetime(*flds)
            except ValueError:
                return None
            continue
        v = model_value(model, n)
        if v is None:
            tab = model.get("__table__" + n)
            if tab and "[array]" in vc.oid:
                k0 = model_value(model, "k0") or 0
                vals = tab[1]
                if k0 < len(vals) and vals[k0] is not None:
                    v = fractions.Fraction(vals[k0])
        if v is None:
            p = sig.parameters.get(n)
            if p is not None and p.default is not inspect.Parameter.empty:
                continue
            v = 0  # unconstrained by the model
        out[n] = v
    if not isinstance(owner, Contract):
        out.update({k: v.kw["value"] for k, v in owner.params.items() if hasattr(v, "tag") and v.tag == "const"})
    return out


def try_replay(run, vc, rng, budget):
    """try to obtain a concrete failing input for a failed VC on the REAL code.
    returns dict(witness_kind, inputs, detail) or None"""
    from .contracts import Contract
    owner = find_owner(run, vc)
    if owner is None:
        return None
    model = (vc.result or {}).get("model")
    cands = []
    a = args_from_model(owner, model, vc)
    if a is not None:
        cands.append(("smt-model", a))
    sampler = getattr(owner, "sampler", None)
    for _ in range(budget):
        if isinstance(owner, Contract):
            s = sampler(rng) if sampler else default_sampler(owner, rng)
        else:
            s = sampler(rng) if sampler else _thm_sampler(owner, rng)
        if s is None:
            break
        cands.append(("contract-search", s))
    want = vc.oid.split("/")[-1]
    for kind, args in cands:
        fargs = _float_args(args)
        try:
            if isinstance(owner, Contract):
                verdict, detail = contract_check_concrete(owner, fargs)
                if verdict == "fail":
                    return {"witness_kind": kind, "inputs": args, "detail": detail}
            else:
                res = theorem_check_concrete(owner, fargs)
                bad = [r for r in res if not r[1]]
                if bad:
                    return {"witness_kind": kind, "inputs": args,
                            "detail": {"failed_ensures": [b[0] for b in bad], "info": [b[2] for b in bad]}}
        except Exception as exc:
            continue
    return None


def _thm_sampler(t, rng):
    sig = inspect.signature(t.fn)
    dom = getattr(t.fn, "domain", {})
    out = {}
    names = [(n, p.annotation if p.annotation is not inspect.Parameter.empty else "real") for n, p in sig.parameters.items()
             if p.kind not in (inspect.Parameter.VAR_KEYWORD, inspect.Parameter.VAR_POSITIONAL)]
    names += [(n, None) for n in t.params if n not in sig.parameters]           # the entries of a **kwargs theorem
    for name, ann in names:
        kind = t.params.get(name, ann)
        if getattr(kind, "tag", None) == "const":
            out[name] = kind.kw["value"] if hasattr(kind, "kw") else getattr(kind, "value", None)
            continue
        if callable(kind) and hasattr(kind, "sample"):
            out[name] = kind.sample(rng)              # a kind that knows how to draw a concrete value (e.g. datetimes)
            continue
        lo, hi = dom.get(name, (-5.0, 5.0))
        if kind in ("real", "posreal"):
            special = [x for x in (0.0, 0.5, 1.0, 0.25) if lo <= x <= hi]        # (special values only inside the stated domain)
            v = rng.choice(special) if special and rng.random() < 0.15 else rng.uniform(lo, hi)
            out[name] = abs(v) + 1e-3 if kind == "posreal" else v
        elif kind in ("int", "nat"):
            v = rng.randint(int(lo), int(hi))
            out[name] = abs(v) if kind == "nat" else v
        elif kind == "bool":
            out[name] = rng.random() < 0.5
        else:
            return None
    return out


# ----------------------------------------------------------------------------
def difftest(run, rng, n):
    """interpreter-vs-CPython differential test on the contracted functions (A7)"""
    from .interp import Interp, PyRaise
    from .run import DummyCtx, call_real
    from .models import tolerant_compare
    import operator
    total, mism, skipped = 0, [], 0
    for c in run.contracts:
        if (c.params is None and not getattr(c, "sampler", None)) or not c.verify_body:
            continue
        done = 0
        tries = 0
        while done < n and tries < 20 * n:
            tries += 1
            s = (getattr(c, "sampler", None) or (lambda r: default_sampler(c, r)))(rng)
            if s is None:
                skipped += 1
                break
            fa = _float_args(s)
            ok = True
            from .run import eval_clause_concrete
            for r in c.requires:
                if eval_clause_concrete(c, r, fa) is not True:
                    ok = False
                    break
            if not ok:
                continue
            done += 1
            total += 1
            sig = inspect.signature(c.fn_inner)
            b = sig.bind(**fa)
            kind, real = call_real(c.fn_inner, b.args, b.kwargs)
            interp = Interp(REG, concrete=True)

            def fn(ctx):
                return interp.run_function(c.fn_inner, b.args, b.kwargs, label=c.label)
            try:
                mine = ("ok", DummyCtx().run(fn))
            except PyRaise as pr:
                mine = ("raise", pr.exc)
            same = kind == mine[0]
            if same and kind == "ok":
                try:
                    same = bool(tolerant_compare(operator.eq, real, mine[1], rel=1e-12))
                except Exception:
                    same = repr(real) == repr(mine[1])
            elif same:
                same = type(real) is type(mine[1])
            if not same:
                mism.append({"function": c.label, "inputs": jsonable(s), "cpython": _short(real), "pyvc": _short(mine[1])})
    # second pass: the *symbolic* result (models, encodings) evaluated at the concrete input
    from .zeval import zeval, Unevaluable
    from .sym import Sym
    from .run import eval_clause_concrete
    import math
    sym_total = 0
    for c in run.contracts:
        paths = run.sym_paths.get(c.label)
        if not paths or c.params is None:
            continue
        done = 0
        tries = 0
        while done < n and tries < 10 * n:
            tries += 1
            s = default_sampler(c, rng) if not getattr(c, "sampler", None) else c.sampler(rng)
            if s is None:
                break
            fa = _float_args(s)
            if not all(isinstance(v, (int, float)) for v in fa.values()):
                break
            if any(eval_clause_concrete(c, r, fa) is not True for r in c.requires):
                continue
            sig = inspect.signature(c.fn_inner)
            b = sig.bind(**fa)
            kind, real = call_real(c.fn_inner, b.args, b.kwargs)
            if kind != "ok" or not isinstance(real, (int, float)) and not hasattr(real, "dtype"):
                continue
            try:
                real = float(real)
            except (TypeError, ValueError):
                continue
            if real != real or math.isinf(real):
                continue
            for p in paths:
                res = p.ghost.get("sym_result")
                if res is None:
                    continue
                try:
                    if not all(zeval(a, fa) for a in p.ghost.get("sym_pc", [])):
                        continue
                    val = zeval(res.e, fa) if isinstance(res, Sym) else float(res)
                except (Unevaluable, ZeroDivisionError, OverflowError, TypeError):
                    continue
                if float(val) != float(val) or math.isinf(float(val)):
                    continue
                done += 1
                sym_total += 1
                if not math.isclose(float(val), real, rel_tol=1e-9, abs_tol=1e-12):
                    mism.append({"function": c.label, "inputs": jsonable(s), "cpython": real, "pyvc_symbolic": float(val)})
                break
    return {"evaluations": total, "symbolic_evaluations": sym_total, "mismatches": mism, "functions_skipped": skipped}


# ----------------------------------------------------------------------------
def load_ledger():
    if os.path.exists(LEDGER):
        return json.load(open(LEDGER))
    return {}


def write_ledger(prop):
    run = Run(prop, "quick", 0)
    run.load()
    for c in run.contracts:
        if c.verify_body:
            run.gen_contract(c)
    for t in run.theorems:
        run.gen_theorem(t)
    run.discharge()
    led = load_ledger()
    obs = {}
    for v in run.vcs:
        if v.kind in ("canary", "canary-aux") or v.oid.startswith("safe/"):
            continue                         # (side obligations of deliberately false theorems are not part of any verdict)
        if v.result["status"] == "unsat":
            obs[v.oid] = obs.get(v.oid, 0) + 1
    led[prop] = {"obligations": obs, "functions": {f["function"]: f["sha256"] for f in run.functions}}
    os.makedirs(os.path.dirname(LEDGER), exist_ok=True)
    json.dump(led, open(LEDGER, "w"), indent=1, sort_keys=True)
    print("ledger for %s: %d obligation ids, %d functions" % (prop, len(obs), len(run.functions)))
    return 0


def _rehash_ledger_functions(functions):
    """labels 'module:Qual.name' of the ledger whose current source hashes differently.  Only labels that can be resolved
    unambiguously count (properties: any of getter / setter / deleter may be the one recorded; private names are mangled;
    decorated functions are unwrapped); what cannot be resolved is left to the hashes taken when the run reaches it."""
    import importlib
    import inspect as _inspect
    from .interp import FuncSrc as _FS
    out = set()
    for label, sha in functions.items():
        try:
            modname, qual = label.split(":")
            obj = importlib.import_module(modname)
            parts = qual.split(".")
            if "<locals>" in parts:
                continue
            owner = None
            for part in parts:
                if isinstance(obj, type) and part.startswith("__") and not part.endswith("__"):
                    part = "_%s%s" % (obj.__name__.lstrip("_"), part)
                owner = obj
                obj = _inspect.getattr_static(obj, part) if isinstance(obj, type) else getattr(obj, part)
            cands = []
            if isinstance(obj, property):
                cands = [f for f in (obj.fget, obj.fset, obj.fdel) if f is not None]
            else:
                f = obj
                if isinstance(f, (staticmethod, classmethod)):
                    f = f.__func__
                seen = 0
                while f is not None and seen < 5:
                    cands.append(f)
                    f = getattr(f, "__wrapped__", None)
                    seen += 1
            hashes = set()
            for f in cands:
                try:
                    hashes.add(_FS.get(f).sha256)
                except Exception:
                    pass
            if hashes and sha not in hashes:
                out.add(label)
        except Exception:
            continue
    return out


# ----------------------------------------------------------------------------
def run_property(prop, tier, seed, verbose=False, write_evidence=True):
    t0 = time.time()
    rng = random.Random(seed)
    os.environ["VERIF_TIER_EFFECTIVE"] = tier
    run = Run(prop, tier, seed)
    mod = run.load()
    findings, fixed = load_known(prop)
    ledger = load_ledger().get(prop, {})
    for c in run.contracts:
        if c.verify_body:
            run.gen_contract(c)
        else:
            run.functions.append(dict(FuncSrc.get(c.fn_inner).provenance(), trusted=True)) if not c.trusted else None
    run.gen_theorems_parallel()
    tgen = time.time() - t0
    run.discharge()
    tsolve = time.time() - t0 - tgen

    changed = {f["function"] for f in run.functions
               if ledger.get("functions", {}).get(f["function"]) not in (None, f["sha256"])}
    # every function of the ledger is also re-hashed directly from the working tree: an edit that makes the engine stop
    # BEFORE it has recorded the function it was reading must still count as 'the code changed'
    changed |= _rehash_ledger_functions(ledger.get("functions", {}))
    code_changed = bool(changed)

    status = 0
    lines = []
    violations = []
    undecided = []
    known_hit = []
    canary_ok, canary_bad = 0, []
    canary_paths = {}
    discharged = 0
    backends = {}
    solver_time = 0.0
    samples = []
    run.vcs = [v for v in run.vcs if v.kind != "canary-aux"]
    normal = [v for v in run.vcs if v.kind != "canary"]
    replay_dir = os.path.join(HERE, "replays", prop)
    for v in run.vcs:
        r = v.result or {"status": "unknown", "reason": "not run"}
        solver_time += r.get("time_s", 0)
        if v.kind == "canary":
            # a canary is a deliberately false clause: it must fail on at least one path of its function
            canary_paths.setdefault(v.oid, []).append(r["status"])
            continue
        if r["status"] == "unsat":
            discharged += 1
            backends[r.get("backend", "?")] = backends.get(r.get("backend", "?"), 0) + 1
            if len(samples) < 6:
                samples.append({"obligation": v.oid, "clause": v.meta.get("clause", ""), "status": "discharged",
                                "backend": r.get("backend"), "time_s": r.get("time_s")})
            continue
        # ---- failed or open obligation
        budget = 200 if tier == "quick" else 2000
        wit = try_replay(run, v, rng, budget)
        kf = [f for f in findings if fnmatch.fnmatch(v.oid, f.get("obligation", "\0"))]
        rec = {"property": prop, "obligation": v.oid, "clause": v.meta.get("clause", ""), "owner": v.owner, "exception": v.meta.get("exc"),
               "path": v.meta.get("path"), "solver": {k: r.get(k) for k in ("status", "backend", "time_s", "attempts", "reason")},
               "model": r.get("model"), "witness_kind": wit["witness_kind"] if wit else "none",
               "inputs": jsonable(wit["inputs"]) if wit else None, "detail": jsonable(wit["detail"]) if wit else None,
               "tier": tier, "seed": seed}
        if kf:
            known_hit.append((kf[0], v.oid))
            continue
        in_ledger = v.oid in ledger.get("obligations", {})
        # an open (unknown) obligation counts as violated only if it was discharged for the reference code AND a
        # function this obligation depends on (its own, an inlined callee, a contract it uses) has been edited
        relevant_change = bool(set(v.meta.get("deps", ())) & changed)
        if r["status"] == "sat" or wit is not None or (in_ledger and relevant_change):
            os.makedirs(replay_dir, exist_ok=True)
            path = os.path.join(replay_dir, v.oid.replace("/", "__").replace(":", "_")[:150] + ".json")
            smt_path = path[:-5] + ".smt2"
            open(smt_path, "w").write(v.smt2)
            rec["smt2"] = smt_path
            json.dump(rec, open(path, "w"), indent=1)
            violations.append((v.oid, path, wit is not None))
        else:
            undecided.append((v.oid, r))

    for oid, sts in canary_paths.items():
        if all(s == "unsat" for s in sts):
            canary_bad.append(oid)
        else:
            canary_ok += 1
    # de-duplicate violation lines per obligation id (several paths of one clause)
    seen = set()
    for oid, path, confirmed in violations:
        if oid in seen:
            continue
        seen.add(oid)
        lines.append("VIOLATION property=%s replay=%s obligation=%s%s"
                     % (prop, path, oid, "" if confirmed else " no-failing-input-found"))
    for f, oid in {(json.dumps(f, sort_keys=True), None): (f, oid) for f, oid in known_hit}.values():
        lines.append("KNOWN-FINDING: property=%s %s" % (prop, f.get("text", oid)))

    # ---- vacuity / soundness guards
    errors = list(run.engine_errors)
    if errors and code_changed:
        # the engine cannot apply to the EDITED code (construct outside the subset): the proof is lost for these
        # functions; fall back to the bounded tier = concrete search with the same executable contract
        from .contracts import Contract
        class _FakeVC:
            pass
        for owner, msg in zip(run.engine_error_owners, run.engine_errors):
            fv = _FakeVC()
            fv.oid = "proof-lost/%s" % (owner.label if hasattr(owner, "label") else owner)
            fv.owner = owner.label
            fv.result = {}
            fv.meta = {}
            fn_ = getattr(owner, "fn", None)
            if getattr(fn_, "no_concrete_replay", False) or getattr(owner, "no_concrete_replay", False):
                # a client program that only makes sense on its ghost models (executors, queues): there is no concrete
                # run to fall back to, so the edited code is simply not decided
                undecided.append((fv.oid, {"attempts": ["engine-not-applicable"], "reason": msg[:200]}))
                run.proof_lost.append("%s (%s)" % (owner.label, msg))
                continue
            wit = try_replay(run, fv, rng, 400 if tier == "quick" else 4000)
            if wit is not None:
                os.makedirs(replay_dir, exist_ok=True)
                path = os.path.join(replay_dir, fv.oid.replace("/", "__").replace(":", "_")[:150] + ".json")
                json.dump({"property": prop, "obligation": fv.oid, "owner": owner.label, "clause": "contract of %s (proof lost: %s)" % (owner.label, msg),
                           "solver": {"status": "engine-not-applicable", "reason": msg}, "witness_kind": wit["witness_kind"],
                           "inputs": jsonable(wit["inputs"]), "detail": jsonable(wit["detail"]), "tier": tier, "seed": seed},
                          open(path, "w"), indent=1)
                violations.append((fv.oid, path, True))
                lines.append("VIOLATION property=%s replay=%s obligation=%s" % (prop, path, fv.oid))
            else:
                run.proof_lost.append("%s (%s)" % (owner.label, msg))
                lines.append("NOTE proof-lost property=%s function=%s reason=%s (bounded contract search found no violation)"
                             % (prop, owner.label, msg[:160]))
        errors = []
    if not normal:
        errors.append("zero obligations generated")
    if canary_bad and not violations:
        errors.append("canary proved (engine unsound or contract vacuous): %s" % canary_bad)
    vac = [k for k, s in run.requires_sat.items() if s == "unsat"]
    if vac:
        errors.append("contradictory requires: %s" % vac)
    have = {}
    for v in normal:
        have[v.oid] = have.get(v.oid, 0) + 1
    # ('no-exception:' obligations say that a raising path is infeasible; whether such a path is pruned by the feasibility
    #  check or kept and then discharged depends on solver timing, so their presence is not required)
    missing = [o for o in ledger.get("obligations", {}) if o not in have and "/no-exception:" not in o]
    if missing and not code_changed:
        errors.append("obligations of the ledger no longer generated: %s" % missing[:5])
    prov_bad = [f for f in run.functions if not (f["file_matches"] and f["source_matches"])]
    if prov_bad:
        errors.append("provenance check failed for %s" % [f["function"] for f in prov_bad])

    # ---- differential test and bounded tier
    dt = difftest(run, rng, 25 if tier == "quick" else 400)
    if dt["mismatches"]:
        errors.append("interpreter differs from CPython: %s" % dt["mismatches"][:2])
    # ---- the executable contracts on the REAL functions with the samplers' own NumPy types (integer dtypes, scalars,
    # ranks): a bounded stand-in for what the real-arithmetic proof abstracts away (A2/A3); never counted as proved
    cs_total, cs_fail = 0, 0
    for c in run.contracts:
        smp = getattr(c, "sampler", None)
        if smp is None or not c.verify_body:
            continue
        done = tries = 0
        n_s = 25 if tier == "quick" else 300
        while done < n_s and tries < 10 * n_s:
            tries += 1
            try:
                s_args = smp(rng)
            except Exception:
                break
            if s_args is None:
                break
            try:
                verdict, detail = contract_check_concrete(c, s_args)
            except Exception as exc:
                verdict, detail = "skip", None
            if verdict == "skip":
                continue
            done += 1
            cs_total += 1
            if verdict == "fail":
                cs_fail += 1
                oid_ = "bounded/contract-on-samples/%s" % c.label
                os.makedirs(replay_dir, exist_ok=True)
                path = os.path.join(replay_dir, oid_.replace("/", "__").replace(":", "_")[:150] + ".json")
                json.dump({"property": prop, "obligation": oid_, "owner": c.label, "clause": (detail or {}).get("clause"),
                           "witness_kind": "contract-on-samples", "inputs": jsonable(s_args), "detail": jsonable(detail), "tier": tier, "seed": seed},
                          open(path, "w"), indent=1)
                violations.append((oid_, path, True))
                lines.append("VIOLATION property=%s replay=%s obligation=%s" % (prop, path, oid_))
                break
    dt["contract_on_samples"] = {"evaluations": cs_total, "failures": cs_fail}
    bounded_out = []
    for b in run.bounded:
        try:
            res = b.fn(rng, tier)
        except Exception as exc:
            res = {"error": "%s: %s" % (type(exc).__name__, exc), "trace": traceback.format_exc()[-800:]}
        res = dict(res)
        res["id"] = b.bid
        res["bound"] = b.bound
        for fail in res.get("failures", [])[:3]:
            kf = [f for f in findings if fnmatch.fnmatch("bounded/" + b.bid, f.get("obligation", "\0"))]
            if kf:
                lines.append("KNOWN-FINDING: property=%s %s" % (prop, kf[0].get("text")))
                known_hit.append((kf[0], "bounded/" + b.bid))
                continue
            os.makedirs(replay_dir, exist_ok=True)
            path = os.path.join(replay_dir, "bounded__%s.json" % b.bid)
            json.dump({"property": prop, "obligation": "bounded/" + b.bid, "witness_kind": "bounded-search",
                       "inputs": jsonable(fail), "bound": b.bound}, open(path, "w"), indent=1)
            lines.append("VIOLATION property=%s replay=%s obligation=bounded/%s" % (prop, path, b.bid))
            violations.append(("bounded/" + b.bid, path, True))
            break
        if "error" in res:
            errors.append("bounded check %s crashed: %s" % (b.bid, res["error"]))
        res.pop("failures", None) if not res.get("failures") else None
        bounded_out.append(res)

    if missing and code_changed:
        # an obligation that existed for the reference code is gone after an edit: proof lost for it
        for o in missing:
            run.proof_lost.append(o)

    seen_lines = set()
    for l in lines:
        if l in seen_lines:
            continue
        seen_lines.add(l)
        print(l)
    if errors:
        for e in errors:
            print("CHECKER-ERROR property=%s %s" % (prop, e))
    if undecided:
        for oid, r in undecided:
            print("UNDECIDED property=%s obligation=%s solver=%s reason=%s" % (prop, oid, r.get("attempts"), r.get("reason")))
    nviol = len({o for o, _, _ in violations})
    if nviol:
        status = 1
    elif errors:
        status = 3
    elif undecided:
        status = 2

    wall = time.time() - t0
    n_ob = len(normal)
    level = "proof" if (not errors and not run.proof_lost) else "other"
    ev = {
        "property_id": prop, "tier": tier if tier in ("quick", "thorough") else "quick", "seed": seed, "level": level,
        "wall_s": round(wall, 2), "violations": nviol,
        "coverage": {
            "obligations": n_ob, "discharged": discharged,
            "obligation_ids": len(have),
            "checker_cmd": "./vcheck run %s --tier %s" % (prop, tier),
            "trusted_base": sorted(run.trusted | {"axiom-schema:" + a for a in solve.USED_AXIOMS}),
            "explanation": "pyvc re-reads the functions from /repo, interprets their AST symbolically and discharges one VC per "
                           "obligation and path with z3 (cvc5 for what z3 leaves open); callers are checked against callee contracts.",
            "functions_under_contract": run.functions,
            "contracts_assumed_at_call_sites": sorted(run.contracts_used),
            "backends": backends, "solver_time_s": round(solver_time, 2), "generation_time_s": round(tgen, 2),
            "paths_explored": run.paths, "paths_covered": sorted(run.covered)[:60],
            "requires_satisfiable": run.requires_sat,
            "canaries_failed_as_expected": canary_ok, "canaries_wrongly_proved": canary_bad,
            "differential_tests": {k: v for k, v in dt.items() if k != "mismatches"} | {"mismatches": len(dt["mismatches"])},
            "bounded_checks": bounded_out,
            "samples": samples,
            "undecided": [o for o, _ in undecided],
            "known_findings_reported": sorted({f.get("text", "") for f, _ in known_hit}),
            "proof_lost": run.proof_lost,
            "dropped_statements": sorted({"%s:%s %s" % d for d in run.dropped})[:40],
            "extraction_drops": "docstrings; calls to " + ", ".join(DROPPED_CALLS),
            "not_decided": getattr(mod, "NOT_DECIDED", []),
            "engine_errors": errors,
        },
        "assumptions": GLOBAL_ASSUMPTIONS + list(getattr(mod, "ASSUMPTIONS", [])),
    }
    if level != "proof":
        ev["coverage"]["evaluations"] = max(1, n_ob)
        ev["coverage"]["distinct_nontrivial"] = max(2, len(have))
    if write_evidence:
        os.makedirs(os.path.join(HERE, "evidence"), exist_ok=True)
        json.dump(ev, open(os.path.join(HERE, "evidence", "%s.json" % prop), "w"), indent=1)
    print("SUMMARY property=%s tier=%s obligations=%d discharged=%d violations=%d undecided=%d canaries=%d/%d "
          "paths=%d difftests=%d bounded=%d wall=%.1fs exit=%d"
          % (prop, tier, n_ob, discharged, nviol, len(undecided), canary_ok, canary_ok + len(canary_bad), run.paths,
             dt["evaluations"], len(bounded_out), wall, status))
    if verbose:
        for v in run.vcs:
            print("  %-8s %-7s %6.2fs %s" % (v.kind, v.result["status"], v.result.get("time_s", 0), v.oid))
    return status


def replay_file(path):
    rec = json.load(open(path))
    prop = rec["property"]
    run = Run(prop, "quick", 0)
    run.load()
    print("obligation:", rec["obligation"])
    print("clause    :", rec.get("clause"))
    print("solver    :", rec.get("solver"))
    if rec.get("witness_kind") in (None, "none") or rec.get("inputs") is None:
        print("no concrete failing input was found; solver output and model are in the file")
        return 0
    if rec["obligation"].startswith("bounded/"):
        bid = rec["obligation"].split("/", 1)[1]
        for b in run.bounded:
            if b.bid == bid and hasattr(b.fn, "replay"):
                ok = b.fn.replay(unjson(rec["inputs"]))
                print("replay:", "REPRODUCED" if not ok else "not reproduced")
                return 1 if not ok else 0
        print("inputs:", rec["inputs"])
        return 0
    args = unjson(rec["inputs"])
    owner = None
    for c in run.contracts:
        if c.label == rec["owner"]:
            owner = c
    for t in run.theorems:
        if t.label == rec["owner"]:
            owner = t
    from .contracts import Contract
    if isinstance(owner, Contract):
        verdict, detail = contract_check_concrete(owner, args)
        print("inputs:", args)
        print("real code verdict:", verdict, detail)
        return 1 if verdict == "fail" else 0
    res = theorem_check_concrete(owner, args)
    print("inputs:", args)
    print("ensures results on the real code:", res)
    return 1 if any(not r[1] for r in res) else 0
