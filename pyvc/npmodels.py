"""Further NumPy models: sorting permutations, searchsorted, index compaction (np.where with one argument),
np.dot with a concrete inner dimension, np.linalg.inv / eig as ASSUMED contracts, np.interp as an assumed contract,
NaN as a distinguished value.

All of them are trusted library contracts (reported under `trusted` in the evidence); what each assumes is stated
in its docstring.  They are used by C18 (BMCI) and C13.
"""
import itertools

import numpy as np
import z3

from . import sym
from .sym import Sym, SArr, lift, mk, OutsideSubset
from .models import model, to_sarr, deep_sym

I = z3.IntSort()
R = z3.RealSort()

# NaN: one distinguished real constant.  Only `x is NaN` questions about values that were STORED as NaN are meaningful
# (is_nan(x) := x == NaN); arithmetic and comparisons on NaN are outside the subset and not detected after a store.
NAN = z3.Real("NaN")


def is_nan(x):
    if isinstance(x, (SArr, np.ndarray, list, tuple)):
        return False                      # an array is not the NaN scalar
    return mk(lift(x) == NAN)


def is_array(x):
    return isinstance(x, (SArr, np.ndarray))


is_array.__pyvc_native__ = True
is_nan.__pyvc_native__ = True


def _qrange(q, n):
    return z3.And(q >= 0, q < lift(n))


class Perm:
    """ghost record of a sorting permutation: result[i] == perm(i), inv its inverse on [0, n)"""

    def __init__(self, perm, inv, n, of):
        self.perm, self.inv, self.n, self.of = perm, inv, n, of


@model(np.argsort)
def np_argsort(interp, a, axis=-1, kind=None, **kw):
    """ASSUMED: the result is a permutation pi of [0, n) with a[pi(i)] <= a[pi(j)] for i <= j.
    Nothing is assumed about the order of ties unless kind is 'stable'/'mergesort'."""
    if not deep_sym(a):
        return np.argsort(a, axis=axis, kind=kind, **kw)
    a = to_sarr(a)
    if a.ndim != 1:
        raise OutsideSubset("argsort of a %d-d symbolic array" % a.ndim)
    c = interp.ctx
    stable = kind in ("stable", "mergesort")
    n = a.shape[0]
    interp.trusted_used.add("model:np.argsort returns a sorting permutation (ties in any order unless kind='stable')")
    f = a.copy().fn
    if not isinstance(n, Sym):
        if n > 4:
            raise OutsideSubset("argsort of a symbolic array of concrete length > 4")
        perms = list(itertools.permutations(range(n)))
        p = perms[c.choose(len(perms), "argsort")] if perms else ()
        for k in range(n - 1):
            le = f(p[k]) <= f(p[k + 1])
            if stable and p[k] > p[k + 1]:
                le = f(p[k]) < f(p[k + 1])
            c.assume(le)
        if not c.feasible():
            from .paths import PathEnd
            raise PathEnd()
        return np.array(p, dtype=int)
    nm = c.fresh_name("perm")
    pf, qf = z3.Function(nm, I, I), z3.Function(nm + "_inv", I, I)
    i, j = z3.Int("i!p"), z3.Int("j!p")
    c.assume(z3.ForAll([i], z3.Implies(_qrange(i, n), z3.And(pf(i) >= 0, pf(i) < lift(n), qf(pf(i)) == i))))
    c.assume(z3.ForAll([j], z3.Implies(_qrange(j, n), z3.And(qf(j) >= 0, qf(j) < lift(n), pf(qf(j)) == j))))
    c.bound_depth = getattr(c, "bound_depth", 0) + 1
    try:
        ai, aj = lift(f(Sym(pf(i)))), lift(f(Sym(pf(j))))
    finally:
        c.bound_depth -= 1
    order = ai <= aj
    if stable:
        order = z3.And(order, z3.Implies(ai == aj, pf(i) < pf(j)))
    c.assume(z3.ForAll([i, j], z3.Implies(z3.And(i >= 0, i < j, j < lift(n)), order)))
    out = SArr((n,), lambda k: Sym(pf(lift(k))), "int")
    out.ghost_perm = Perm(pf, qf, n, a)
    out.ghost_inverse = SArr((n,), lambda k: Sym(qf(lift(k))), "int")
    c.ghost.setdefault("perms", []).append(out.ghost_perm)
    return out


def _sorted_obligation(interp, f, n, what):
    c = interp.ctx
    i, j = z3.Int("i!s"), z3.Int("j!s")
    c.bound_depth = getattr(c, "bound_depth", 0) + 1
    try:
        body = lift(f(Sym(i))) <= lift(f(Sym(j)))
    finally:
        c.bound_depth -= 1
    c.oblige("pre/%s/%s@%s" % (c.ghost.get("fn_label", "?"), what, c.ghost.get("line", 0)),
             z3.ForAll([i, j], z3.Implies(z3.And(i >= 0, i < j, j < lift(n)), body)),
             clause="np.searchsorted requires a sorted (non-decreasing) first argument")


@model(np.searchsorted)
def np_searchsorted(interp, a, v, side="left", sorter=None):
    """ASSUMED (for sorted a): r = searchsorted(a, v, 'left') is the index with a[j] < v for j < r and a[j] >= v for j >= r;
    'right': a[j] <= v for j < r and a[j] > v for j >= r.  That `a` is sorted is a precondition OBLIGATION."""
    if not deep_sym(a) and not deep_sym(v):
        return np.searchsorted(a, v, side=side, sorter=sorter)
    if sorter is not None:
        raise OutsideSubset("searchsorted(sorter=...)")
    a = to_sarr(a)
    if a.ndim != 1:
        raise OutsideSubset("searchsorted in a %d-d array" % a.ndim)
    c = interp.ctx
    n = a.shape[0]
    f = a.copy().fn
    interp.trusted_used.add("model:np.searchsorted on a sorted array returns the partition index (left/right)")
    _sorted_obligation(interp, f, n, "searchsorted-sorted")

    def one(val):
        r = c.fresh("ss", "int")
        j = z3.Int("j!ss")
        c.bound_depth = getattr(c, "bound_depth", 0) + 1
        try:
            aj = lift(f(Sym(j)))
        finally:
            c.bound_depth -= 1
        vv = sym.to_real(lift(val))
        aj = sym.to_real(aj)
        below, above = (aj < vv, aj >= vv) if side == "left" else (aj <= vv, aj > vv)
        c.assume(z3.And(r.e >= 0, r.e <= lift(n)))
        c.assume(z3.ForAll([j], z3.Implies(z3.And(j >= 0, j < r.e), below)))
        c.assume(z3.ForAll([j], z3.Implies(z3.And(j >= r.e, j < lift(n)), above)))
        return r
    if isinstance(v, (SArr, np.ndarray, list, tuple)):
        vs = to_sarr(v)
        if vs.ndim != 1 or isinstance(vs.shape[0], Sym):
            raise OutsideSubset("searchsorted of a symbolic-length value array")
        rs = [one(vs.fn(k)) for k in range(vs.shape[0])]
        return SArr((len(rs),), lambda k: rs[k] if not isinstance(k, Sym) else _select(rs, k), "int")
    return one(v)


def _select(vals, k):
    r = vals[-1]
    for t in range(len(vals) - 2, -1, -1):
        r = sym.ite(k == t, vals[t], r)
    return r


class Compaction:
    def __init__(self, pos, rank, cnt, n, mask):
        self.pos, self.rank, self.cnt, self.n, self.mask = pos, rank, cnt, n, mask


def np_where1(interp, mask):
    """np.where(mask) / np.nonzero(mask) for a 1-d mask: ASSUMED to return the increasing list of ALL positions where the
    mask holds (ghost: rank(p) = index of position p in that list)."""
    mask = to_sarr(mask)
    if mask.ndim != 1:
        raise OutsideSubset("np.where(mask) for a %d-d symbolic mask" % mask.ndim)
    c = interp.ctx
    n = mask.shape[0]
    f = mask.copy().fn
    nm = c.fresh_name("where")
    pos, rank = z3.Function(nm, I, I), z3.Function(nm + "_rank", I, I)
    cnt = c.fresh(nm + "_n", "int")
    k, l, p = z3.Int("k!w"), z3.Int("l!w"), z3.Int("p!w")
    c.bound_depth = getattr(c, "bound_depth", 0) + 1
    try:
        m_at_pos = sym.truth(f(Sym(pos(k))))
        m_at_p = sym.truth(f(Sym(p)))
    finally:
        c.bound_depth -= 1
    c.assume(z3.And(cnt.e >= 0, cnt.e <= lift(n)))
    c.assume(z3.ForAll([k], z3.Implies(z3.And(k >= 0, k < cnt.e), z3.And(pos(k) >= 0, pos(k) < lift(n), m_at_pos, rank(pos(k)) == k))))
    c.assume(z3.ForAll([k, l], z3.Implies(z3.And(k >= 0, k < l, l < cnt.e), pos(k) < pos(l))))
    c.assume(z3.ForAll([p], z3.Implies(z3.And(p >= 0, p < lift(n), m_at_p), z3.And(rank(p) >= 0, rank(p) < cnt.e, pos(rank(p)) == p))))
    interp.trusted_used.add("model:np.where(mask) returns the increasing list of all positions where mask holds")
    out = SArr((cnt,), lambda t: Sym(pos(lift(t))), "int")
    out.ghost_compaction = Compaction(pos, rank, cnt, n, mask)
    return (out,)


@model(np.nonzero, np.flatnonzero)
def np_nonzero(interp, a):
    if not deep_sym(a):
        return np.nonzero(a)
    return np_where1(interp, a)


@model(np.dot)
def np_dot(interp, a, b):
    """exact definition of the matrix / inner product for a CONCRETE inner dimension (explicit finite sum)"""
    if not deep_sym(a) and not deep_sym(b) and not _has_frac(a) and not _has_frac(b):
        return np.dot(a, b)
    a, b = to_sarr(a), to_sarr(b)
    inner = a.shape[-1]
    if isinstance(inner, Sym) or isinstance(b.shape[0], Sym):
        raise OutsideSubset("np.dot with a symbolic inner dimension")
    if inner != b.shape[0]:
        from .interp import PyRaise
        raise PyRaise(ValueError("shapes %s and %s not aligned" % (a.shape, b.shape)))
    fa, fb = a.copy().fn, b.copy().fn

    def total(terms):
        t = 0
        for x in terms:
            t = t + x
        return t
    if a.ndim == 1 and b.ndim == 1:
        return total(fa(k) * fb(k) for k in range(inner))
    if a.ndim == 2 and b.ndim == 1:
        return SArr((a.shape[0],), lambda i: total(fa(i, k) * fb(k) for k in range(inner)), "real")
    if a.ndim == 1 and b.ndim == 2:
        return SArr((b.shape[1],), lambda j: total(fa(k) * fb(k, j) for k in range(inner)), "real")
    if a.ndim == 2 and b.ndim == 2:
        return SArr((a.shape[0], b.shape[1]), lambda i, j: total(fa(i, k) * fb(k, j) for k in range(inner)), "real")
    raise OutsideSubset("np.dot of rank %d and %d" % (a.ndim, b.ndim))


def _has_frac(v):
    import fractions
    if isinstance(v, fractions.Fraction):
        return True
    if isinstance(v, np.ndarray) and v.dtype == object:
        return True
    return False


def _square(interp, s, what):
    s = to_sarr(s)
    if s.ndim != 2 or isinstance(s.shape[0], Sym) or isinstance(s.shape[1], Sym) or s.shape[0] != s.shape[1]:
        raise OutsideSubset("%s of a matrix of symbolic or non-square shape" % what)
    return s, s.shape[0]


@model(np.linalg.inv)
def np_linalg_inv(interp, s):
    """ASSUMED contract of LAPACK's inverse in exact arithmetic: for a non-singular input (precondition: the caller's
    contract must make S positive definite or otherwise invertible -- singular input is NOT detected) the result X satisfies
    S X = X S = I; X is symmetric when S is."""
    if not deep_sym(s):
        return np.linalg.inv(s)
    s, m = _square(interp, s, "inv")
    c = interp.ctx
    f = s.copy().fn
    nm = c.fresh_name("inv")
    xs = [[Sym(z3.Real("%s_%d_%d" % (nm, i, j))) for j in range(m)] for i in range(m)]
    for i in range(m):
        for j in range(m):
            e1, e2 = 0, 0
            for k in range(m):
                e1 = e1 + f(i, k) * xs[k][j]
                e2 = e2 + xs[i][k] * f(k, j)
            c.assume(lift(e1) == (1 if i == j else 0))
            c.assume(lift(e2) == (1 if i == j else 0))
    symm = z3.And([lift(f(i, j)) == lift(f(j, i)) for i in range(m) for j in range(i)] or [z3.BoolVal(True)])
    c.assume(z3.Implies(symm, z3.And([xs[i][j].e == xs[j][i].e for i in range(m) for j in range(i)] or [z3.BoolVal(True)])))
    interp.trusted_used.add("model:np.linalg.inv(S) X with S X = X S = I, symmetric if S is (singular input not detected)")
    out = SArr((m, m), lambda i, j: _select2(xs, i, j), "real")
    out.ghost_entries = xs
    return out


def _select2(rows, i, j):
    if not isinstance(i, Sym) and not isinstance(j, Sym):
        return rows[i][j]
    if isinstance(i, Sym):
        return _select([_select2(rows, t, j) for t in range(len(rows))], i)
    return _select(rows[i], j)


@model(np.linalg.eig)
def np_linalg_eig(interp, s):
    """ASSUMED contract for a REAL SYMMETRIC input (obligation): returns (w, v) with S v[:, k] = w[k] v[:, k] and
    |v[:, k]| = 1 for every k, all real.  (Orthogonality of the eigenvectors is not assumed.)"""
    if not deep_sym(s):
        return np.linalg.eig(s)
    s, m = _square(interp, s, "eig")
    c = interp.ctx
    f = s.copy().fn
    c.oblige("pre/%s/eig-symmetric@%s" % (c.ghost.get("fn_label", "?"), c.ghost.get("line", 0)),
             z3.And([lift(f(i, j)) == lift(f(j, i)) for i in range(m) for j in range(i)] or [z3.BoolVal(True)]),
             clause="np.linalg.eig is modelled for real symmetric matrices only")
    nm = c.fresh_name("eig")
    w = [Sym(z3.Real("%s_w%d" % (nm, k))) for k in range(m)]
    v = [[Sym(z3.Real("%s_v%d_%d" % (nm, i, k))) for k in range(m)] for i in range(m)]
    for k in range(m):
        norm = 0
        for i in range(m):
            sv = 0
            for j in range(m):
                sv = sv + f(i, j) * v[j][k]
            c.assume(lift(sv) == lift(w[k] * v[i][k]))
            norm = norm + v[i][k] * v[i][k]
        c.assume(lift(norm) == 1)
    interp.trusted_used.add("model:np.linalg.eig(S) for symmetric S: S v_k = w_k v_k, |v_k| = 1, real")
    W = SArr((m,), lambda k: _select(w, k) if isinstance(k, Sym) else w[k], "real")
    V = SArr((m, m), lambda i, j: _select2(v, i, j), "real")
    return W, V


@model(np.interp)
def np_interp(interp, x, xp, fp, *a, **kw):
    """ASSUMED contract of np.interp(x, xp, fp) for len(xp) == len(fp) >= 1, xp non-decreasing and fp non-decreasing
    (all three are precondition OBLIGATIONS of this model: it is the model of inverting a cumulative distribution):
    every result lies in [fp[0], fp[-1]] and the result is non-decreasing in x."""
    if not deep_sym(x) and not deep_sym(xp) and not deep_sym(fp):
        return np.interp(x, xp, fp, *a, **kw)
    if a or kw:
        raise OutsideSubset("np.interp with left/right/period")
    c = interp.ctx
    xs, xps, fps = to_sarr(x), to_sarr(xp), to_sarr(fp)
    n = xps.shape[0]
    fx, fxp, ffp = xs.copy().fn, xps.copy().fn, fps.copy().fn
    where = "%s/%%s@%s" % (c.ghost.get("fn_label", "?"), c.ghost.get("line", 0))
    c.oblige("pre/" + where % "interp-nonempty", z3.And(lift(n) >= 1, lift(fps.shape[0]) == lift(n)),
             clause="np.interp needs at least one node and len(xp) == len(fp)")
    # xp non-decreasing, stated for an ARBITRARY adjacent pair (a fresh position: universally quantified)
    k = c.fresh("interp_k", "int")
    c.oblige("pre/" + where % "interp-xp-nondecreasing",
             z3.Implies(z3.And(k.e >= 0, k.e < lift(n) - 1), lift(fxp(k)) <= lift(fxp(k + 1))),
             clause="np.interp: xp[k] <= xp[k+1] for every k")
    _sorted_obligation(interp, ffp, n, "interp-fp-nondecreasing")
    nm = c.fresh_name("interp")
    rf = z3.Function(nm, I, R)
    t, u = z3.Int("t!i"), z3.Int("u!i")
    c.bound_depth = getattr(c, "bound_depth", 0) + 1
    try:
        first, last = lift(ffp(0)), lift(ffp(Sym(lift(n) - 1)))
        kx = xs.shape[0]
        within = z3.ForAll([t], z3.Implies(_qrange(t, kx), z3.And(first <= rf(t), rf(t) <= last)))
        mono = z3.ForAll([t, u], z3.Implies(z3.And(_qrange(t, kx), _qrange(u, kx), lift(fx(Sym(t))) <= lift(fx(Sym(u)))), rf(t) <= rf(u)))
    finally:
        c.bound_depth -= 1
    c.assume(z3.And(within, mono))
    interp.trusted_used.add("model:np.interp(x, xp, fp) with xp, fp non-decreasing: within [fp[0], fp[-1]] and non-decreasing in x")
    return SArr((xs.shape[0],), lambda q: Sym(rf(lift(q))), "real")


# ----------------------------------------------------------------------------
# positive (semi-)definiteness of a concrete-shape symbolic matrix, as ONE canonical quantified formula, so that the
# hypothesis of the assumed linalg facts below and a caller's `requires` are the same term
def _entries(S):
    S = to_sarr(S)
    m = S.shape[0]
    if getattr(S, "ghost_entries", None) is not None:
        return [[lift(e) for e in row] for row in S.ghost_entries]
    return [[lift(S.fn(i, j)) for j in range(m)] for i in range(m)]


def quad_form(E, r):
    t = z3.RealVal(0)
    for i in range(len(E)):
        for j in range(len(E)):
            t = t + r[i] * E[i][j] * r[j]
    return t


def pd_formula(E):
    r = [z3.Real("r!pd%d" % i) for i in range(len(E))]
    return z3.ForAll(r, z3.Implies(z3.Or([x != 0 for x in r]), quad_form(E, r) > 0))


def psd_formula(E):
    r = [z3.Real("r!pd%d" % i) for i in range(len(E))]
    return z3.ForAll(r, quad_form(E, r) >= 0)


def is_pd(S):
    return Sym(pd_formula(_entries(S)))


def is_psd(S):
    return Sym(psd_formula(_entries(S)))


def psd_instance(S, r):
    """the instance of positive semi-definiteness at the vector r (a list of scalars): r^T S r >= 0"""
    return mk(quad_form(_entries(S), [sym.to_real(lift(x)) for x in r]) >= 0)


is_pd.__pyvc_native__ = True
is_psd.__pyvc_native__ = True
psd_instance.__pyvc_native__ = True
_inv0 = np_linalg_inv
_eig0 = np_linalg_eig


@model(np.linalg.inv)
def np_linalg_inv_pd(interp, s):
    """... and additionally ASSUMED: the inverse of a positive definite matrix is positive semi-definite (indeed definite)"""
    out = _inv0(interp, s)
    if isinstance(out, SArr) and getattr(out, "ghost_entries", None) is not None:
        interp.ctx.assume(z3.Implies(pd_formula(_entries(s)), psd_formula(_entries(out))))
        interp.trusted_used.add("model:np.linalg.inv of a positive definite matrix is positive semi-definite")
    return out


@model(np.linalg.eig)
def np_linalg_eig_pd(interp, s):
    """... and additionally ASSUMED: the eigenvalues of a positive definite matrix are positive"""
    out = _eig0(interp, s)
    if isinstance(out, tuple) and isinstance(out[0], SArr):
        m = out[0].shape[0]
        interp.ctx.assume(z3.Implies(pd_formula(_entries(s)), z3.And([lift(out[0].fn(k)) > 0 for k in range(m)])))
        interp.trusted_used.add("model:np.linalg.eig of a positive definite matrix has positive eigenvalues")
    return out


@model(np.linalg.eigh)
def np_linalg_eigh(interp, s, *a, **kw):
    """ASSUMED contract of eigh for a real symmetric input (obligation): as eig, and the eigenvalues are in ascending order"""
    if not deep_sym(s):
        return np.linalg.eigh(s, *a, **kw)
    W, V = np_linalg_eig_pd(interp, s)
    m = W.shape[0]
    for k in range(m - 1):
        interp.ctx.assume(lift(W.fn(k)) <= lift(W.fn(k + 1)))
    interp.trusted_used.add("model:np.linalg.eigh returns the eigenvalues in ascending order")
    return W, V


@model(np.isclose)
def np_isclose(interp, a, b, rtol=1e-5, atol=1e-8, equal_nan=False):
    """np.isclose(a, b) <=> |a - b| <= atol + rtol |b|  element-wise (no NaN / inf under A2)"""
    if not deep_sym(a) and not deep_sym(b):
        return np.isclose(a, b, rtol=rtol, atol=atol, equal_nan=equal_nan)
    import fractions
    rt, at = fractions.Fraction(repr(float(rtol))), fractions.Fraction(repr(float(atol)))
    interp.trusted_used.add("model:np.isclose(a, b) <=> |a-b| <= atol + rtol |b|")
    return sym.elementwise(lambda x, y: abs(x - y) <= at + rt * abs(y), [a, b], "bool")
