"""Chunked symbolic strings: a sequence of literal pieces and fixed-width zero-padded numeric fields.

This is the string fragment the FileSet name machinery needs: str.format of integers with a width,
str(int) of an integer with a known digit count, slicing at chunk borders / inside numeric fields,
int() of a numeric piece, and matching against the *real* compiled regular expression of a template.

Regex matching: the numeric fields are replaced by placeholder digits and the real `re` engine matches
the resulting concrete string; the group spans are mapped back to chunks.  This is exact provided the
pattern never distinguishes one digit from another (no digit literals, no partial digit ranges) -- checked
syntactically on the parsed pattern (otherwise OutsideSubset: bounded tier only).
"""
import re
import string

import z3

from . import sym
from .sym import Sym, lift, mk, OutsideSubset


class Num:
    """decimal field: exactly `width` digits showing `value` (0 <= value < 10**width, zero padded)"""

    def __init__(self, value, width):
        self.value, self.width = value, width

    def __repr__(self):
        return "<%s:%dd>" % (self.value, self.width)


class SStr:
    __pyvc_symbolic__ = True

    def __init__(self, chunks):
        out = []
        for c in chunks:
            if isinstance(c, SStr):
                out.extend(c.chunks)
            elif isinstance(c, str):
                if c:
                    if out and isinstance(out[-1], str):
                        out[-1] += c
                    else:
                        out.append(c)
            else:
                out.append(c)
        self.chunks = out

    def __repr__(self):
        return "SStr(%r)" % (self.chunks,)

    def __getattr__(self, name):
        # a str method this model does not offer: not an AttributeError of the code under analysis but a limit of the engine
        if hasattr(str, name):
            from .sym import OutsideSubset
            raise OutsideSubset("str.%s on a symbolic string" % name)
        raise AttributeError(name)

    def __hash__(self):
        return id(self)

    def __eq__(self, o):
        if isinstance(o, SStr):
            if o is self:
                return True
            return eq_sstr(self, o)
        if isinstance(o, str):
            return eq_sstr(self, SStr([o]))
        return False

    def __ne__(self, o):
        r = self.__eq__(o)
        return mk(z3.Not(sym.truth(r))) if isinstance(r, Sym) else (not r)

    def __len__(self):
        return sum(len(c) if isinstance(c, str) else c.width for c in self.chunks)

    def __add__(self, o):
        return SStr([self, o])

    def __radd__(self, o):
        return SStr([o, self])

    def concrete_shape(self, digit="0"):
        return "".join(c if isinstance(c, str) else digit * c.width for c in self.chunks)

    def __pyvc_iter__(self, interp):
        # characters: digits of numeric fields are represented by a digit (they are never special characters)
        return list(self.concrete_shape())

    def positions(self):
        """[(start, end, chunk)]"""
        out, p = [], 0
        for c in self.chunks:
            n = len(c) if isinstance(c, str) else c.width
            out.append((p, p + n, c))
            p += n
        return out

    def slice(self, a, b):
        n = len(self)
        a = 0 if a is None else (a + n if a < 0 else a)
        b = n if b is None else (b + n if b < 0 else b)
        a, b = max(0, min(a, n)), max(0, min(b, n))
        out = []
        for s, e, c in self.positions():
            lo, hi = max(a, s), min(b, e)
            if lo >= hi:
                continue
            if isinstance(c, str):
                out.append(c[lo - s:hi - s])
            elif lo == s and hi == e:
                out.append(c)
            else:
                # digits [lo-s, hi-s) of the field: (value // 10**(e-hi)) % 10**(hi-lo)
                v = lift(c.value)
                out.append(Num(mk((v / (10 ** (e - hi))) % (10 ** (hi - lo))), hi - lo))
        return SStr(out)

    def __getitem__(self, key):
        if isinstance(key, slice):
            if key.step not in (None, 1):
                raise OutsideSubset("string slice with a step")
            return self.slice(key.start, key.stop)
        if isinstance(key, int):
            return self.slice(key, key + 1 if key != -1 else None)
        raise OutsideSubset("string index %r" % (key,))

    # a few str methods on the concrete shape ---------------------------------
    def startswith(self, prefix):
        return self.concrete_prefix_check(prefix, True)

    def endswith(self, suffix):
        return self.concrete_prefix_check(suffix, False)

    def concrete_prefix_check(self, s, front):
        if not isinstance(s, str):
            raise OutsideSubset("startswith/endswith with a symbolic argument")
        n = len(s)
        part = self.slice(0, n) if front else self.slice(len(self) - n, None)
        if all(isinstance(c, str) for c in part.chunks):
            return "".join(part.chunks) == s
        if any(ch.isdigit() for ch in s):
            raise OutsideSubset("prefix/suffix test across a numeric field")
        return False

    def rstrip(self, chars=None):
        if chars is None or any(ch.isdigit() for ch in chars):
            raise OutsideSubset("rstrip of digits / whitespace on a chunked string")
        shape = self.concrete_shape("0")
        n = len(shape.rstrip(chars))
        return self.slice(0, n)

    def lstrip(self, chars=None):
        if chars is None or any(ch.isdigit() for ch in chars):
            raise OutsideSubset("lstrip of digits / whitespace on a chunked string")
        shape = self.concrete_shape("0")
        n = len(shape) - len(shape.lstrip(chars))
        return self.slice(n, None)

    def upper(self):
        return SStr([c.upper() if isinstance(c, str) else c for c in self.chunks])

    def lower(self):
        return SStr([c.lower() if isinstance(c, str) else c for c in self.chunks])

    def __pyvc_contains__(self, interp, item):
        if isinstance(item, str):
            if any(ch.isdigit() for ch in item):
                raise OutsideSubset("substring test with digits on a chunked string")
            return item in self.concrete_shape("\x00")
        raise OutsideSubset("symbolic substring test")


def eq_sstr(a, b):
    """equality of two chunked strings with identical literal skeletons"""
    if len(a) != len(b):
        return False
    # align at chunk borders of both
    cuts = sorted({p for s, e, _ in a.positions() for p in (s, e)} | {p for s, e, _ in b.positions() for p in (s, e)})
    conds = []
    for lo, hi in zip(cuts, cuts[1:]):
        x, y = a.slice(lo, hi).chunks, b.slice(lo, hi).chunks
        if not x and not y:
            continue
        x, y = x[0], y[0]
        if isinstance(x, str) and isinstance(y, str):
            if x != y:
                return False
        elif isinstance(x, Num) and isinstance(y, Num):
            conds.append(lift(x.value) == lift(y.value))
        else:
            s, nmb = (x, y) if isinstance(x, str) else (y, x)
            if not s.isdigit():
                return False
            conds.append(lift(nmb.value) == int(s))
    return mk(z3.And(conds)) if conds else True


# ----------------------------------------------------------------------------
def digits_of(interp, v, what="str()"):
    """number of decimal digits of the non-negative symbolic integer v, if the path condition fixes it"""
    from .solve import quick_check
    ctx = interp.ctx
    e = lift(v)
    for w in range(1, 8):
        lo, hi = (0 if w == 1 else 10 ** (w - 1)), 10 ** w
        if quick_check(ctx.pc + [z3.Not(z3.And(e >= lo, e < hi))], 2000) == "unsat":
            return w
    raise OutsideSubset("%s of an integer whose number of digits is not fixed by the path condition" % what)


def str_of_int(interp, v):
    if isinstance(v, Sym) and v.is_int:
        return SStr([Num(v, digits_of(interp, v))])
    raise OutsideSubset("str() of %r" % (v,))


def format_field(interp, value, spec):
    """format(value, spec) for the specs the templates use"""
    if isinstance(value, SStr):
        if spec in ("", "s"):
            return value
        raise OutsideSubset("format spec %r on a chunked string" % spec)
    if isinstance(value, Sym):
        if not value.is_int:
            raise OutsideSubset("formatting a symbolic non-integer")
        m = re.fullmatch(r"0(\d+)d", spec or "")
        if m:
            w = int(m.group(1))
            # exactly w digits iff 0 <= value < 10**w (otherwise Python emits more digits / a sign): safety obligation
            interp.ctx.oblige_safe("format-width", z3.And(value.e >= 0, value.e < 10 ** w))
            return SStr([Num(value, w)])
        if spec in ("", "d"):
            return str_of_int(interp, value)
        raise OutsideSubset("format spec %r on a symbolic integer" % spec)
    return format(value, spec)


def str_format(interp, template, args, kwargs):
    """str.format with symbolic arguments"""
    out = []
    auto = 0
    for lit, field, spec, conv in string.Formatter().parse(template):
        if lit:
            out.append(lit)
        if field is None:
            continue
        if conv not in (None, "s"):
            raise OutsideSubset("conversion !%s in format" % conv)
        if field == "":
            val = args[auto]
            auto += 1
        elif field.isdigit():
            val = args[int(field)]
        else:
            if not re.fullmatch(r"\w+", field):
                raise OutsideSubset("format field %r" % field)
            if field not in kwargs:
                from .interp import PyRaise
                raise PyRaise(KeyError(field))
            val = kwargs[field]
        r = format_field(interp, val, spec or "")
        out.append(r if isinstance(r, (SStr, str)) else str(r))
    return SStr(out) if any(isinstance(c, SStr) for c in out) else "".join(out)


def int_of(interp, s):
    """int(chunked string of digits)"""
    total = 0
    for c in s.chunks:
        if isinstance(c, str):
            if not c.isdigit():
                from .interp import PyRaise
                raise PyRaise(ValueError("invalid literal for int()"))
            total = total * (10 ** len(c)) + int(c)
        else:
            total = total * (10 ** c.width) + c.value
    return total


# ----------------------------------------------------------------------------
def _distinguishes_digits(pattern):
    """does the regex treat some digits differently from others?"""
    try:
        import re._parser as sre_parse
        import re._constants as C
    except ImportError:      # pragma: no cover
        import sre_parse
        import sre_constants as C
    digits = set(range(ord("0"), ord("9") + 1))

    def walk(items):
        for op, arg in items:
            name = str(op)
            if name == "LITERAL" or name == "NOT_LITERAL":
                if arg in digits:
                    return True
            elif name == "IN":
                inside = set()
                for o2, a2 in arg:
                    n2 = str(o2)
                    if n2 == "LITERAL":
                        inside.add(a2)
                    elif n2 == "RANGE":
                        inside |= set(range(a2[0], a2[1] + 1))
                    elif n2 in ("CATEGORY", "NEGATE"):
                        pass
                got = inside & digits
                if got and got != digits:
                    return True
            elif name in ("MAX_REPEAT", "MIN_REPEAT", "POSSESSIVE_REPEAT"):
                if walk(arg[2]):
                    return True
            elif name == "SUBPATTERN":
                if walk(arg[3]):
                    return True
            elif name == "BRANCH":
                for alt in arg[1]:
                    if walk(alt):
                        return True
            elif name in ("ASSERT", "ASSERT_NOT", "ATOMIC_GROUP"):
                sub = arg[1] if isinstance(arg, tuple) else arg
                if walk(sub):
                    return True
            elif name == "GROUPREF":
                pass
        return False
    return walk(sre_parse.parse(pattern))


class SMatch:
    def __init__(self, s, m):
        self.s, self.m = s, m

    def groupdict(self):
        return {k: self.s.slice(*self.m.span(k)) if self.m.span(k) != (-1, -1) else None for k in self.m.re.groupindex}

    def group(self, *names):
        if not names:
            names = (0,)
        vals = [self.s.slice(*self.m.span(n)) if self.m.span(n) != (-1, -1) else None for n in names]
        return vals[0] if len(vals) == 1 else tuple(vals)

    def groups(self):
        return tuple(self.group(i) for i in range(1, self.m.re.groups + 1))

    def __bool__(self):
        return True


def regex_call(interp, pattern, method, s, *args):
    """pattern.match / fullmatch / search applied to a chunked string"""
    if not isinstance(s, SStr):
        raise OutsideSubset("regex method on %r" % (s,))
    fixed = _fixed_width(pattern.pattern)
    if _distinguishes_digits(pattern.pattern) and not fixed:
        raise OutsideSubset("regular expression with wildcards distinguishes individual digits: %r" % pattern.pattern)
    interp.trusted_used.add("model:re matching of a chunked string via placeholder digits (exact: the pattern is fixed-width and "
                            "accepts each of the ten digits at every numeric position, or it never distinguishes digits)")
    # fixed-width patterns align every atom with one position: if the ten uniform digit strings all match with the same
    # spans, every aligned atom accepts every digit, hence any mixture of digits matches in the same way
    runs = [getattr(pattern, method)(s.concrete_shape(str(d)), *args) for d in range(10)]
    m0 = runs[0]
    for m in runs[1:]:
        if (m0 is None) != (m is None) or (m0 is not None and m0.regs != m.regs):
            raise OutsideSubset("regex match depends on digit values")
    if m0 is None:
        return None
    return SMatch(s, m0)


def _fixed_width(pattern):
    try:
        import re._parser as sre_parse
    except ImportError:      # pragma: no cover
        import sre_parse
    try:
        lo, hi = sre_parse.parse(pattern).getwidth()
    except Exception:
        return False
    return lo == hi
