"""Path exploration by re-execution with a decision prefix.

A symbolic branch asks the context which way to go.  The first time a branch is
met on a path both sides are tested for feasibility; one is taken and the other
is queued as a new prefix.  Because forking re-executes the program from the
start, mutable Python containers need no copying and aliasing is Python's own.
Fresh names are numbered per path, hence deterministic across re-executions.
"""
import z3

from . import sym
from .solve import quick_check


class PathEnd(Exception):
    """the current path stops here (infeasible, or ended on purpose)"""


class Obligation:
    __slots__ = ("oid", "assumptions", "goal", "meta", "path")

    def __init__(self, oid, assumptions, goal, meta, path):
        self.oid = oid
        self.assumptions = assumptions
        self.goal = goal
        self.meta = meta
        self.path = path


class PathCtx:
    def __init__(self, prefix, explorer):
        self.prefix = prefix
        self.explorer = explorer
        self.decisions = []
        self.pc = []            # list of z3 Bool
        self.obligations = []
        self.new_prefixes = []
        self.counter = {}
        self.spec_mode = 0      # >0: building a formula, forking forbidden
        self.ghost = {}         # free-form per-path ghost state (warned, fs, ...)
        self.trace = []
        self.covered = set()
        self._solver = None
        self._solver_n = 0

    # -- naming
    def fresh_name(self, base):
        n = self.counter.get(base, 0)
        self.counter[base] = n + 1
        return base if n == 0 else "%s!%d" % (base, n)

    def fresh(self, base, sort="real"):
        name = self.fresh_name(base)
        if sort == "real":
            return sym.Sym(z3.Real(name))
        if sort == "int":
            return sym.Sym(z3.Int(name))
        if sort == "bool":
            return sym.Sym(z3.Bool(name))
        raise ValueError(sort)

    # -- assumptions
    def assume(self, cond):
        c = sym.truth(cond)
        cc = sym.concrete_of(c)
        if cc is True:
            return
        if cc is False:
            raise PathEnd()
        self.pc.append(c)

    def feasible(self, extra=None):
        """is pc (and extra) satisfiable?  `unknown` counts as feasible.  One incremental solver per path."""
        if self._solver is None or self._solver_n > len(self.pc):
            self._solver = z3.Solver()
            self._solver.set("timeout", self.explorer.feas_timeout_ms)
            self._solver_n = 0
        for f in self.pc[self._solver_n:]:
            self._solver.add(f)
        self._solver_n = len(self.pc)
        if extra is None:
            return self._solver.check() != z3.unsat
        self._solver.push()
        try:
            self._solver.add(extra)
            return self._solver.check() != z3.unsat
        finally:
            self._solver.pop()

    # -- branching
    def branch(self, cond):
        """decide a symbolic condition (z3 Bool), forking the exploration"""
        if self.spec_mode:
            raise sym.OutsideSubset("symbolic branch while building a specification formula "
                                    "(use and/or/implies/ite inside the clause)")
        c = sym.truth(cond)
        cc = sym.concrete_of(c)
        if cc is not None:
            return cc
        k = len(self.decisions)
        if k < len(self.prefix):
            d = self.prefix[k]
        else:
            f = self.feasible(z3.Not(c))
            # the path condition itself is feasible, so if the negation is impossible the condition holds
            t = True if not f else self.feasible(c)
            if t and f:
                d = True
                self.new_prefixes.append(self.decisions + [False])
            elif t:
                d = True
            elif f:
                d = False
            else:
                raise PathEnd()
        self.decisions.append(d)
        self.pc.append(c if d else z3.Not(c))
        return d

    def choose(self, n, label=""):
        """non-deterministic choice among range(n) (all explored)"""
        k = len(self.decisions)
        if k < len(self.prefix):
            d = self.prefix[k]
        else:
            d = 0
            for alt in range(1, n):
                self.new_prefixes.append(self.decisions + [alt])
        self.decisions.append(d)
        return d

    # -- obligations
    def replaying_prefix(self):
        return len(self.decisions) < len(self.prefix)

    def oblige(self, oid, goal, **meta):
        """record `goal` as an obligation under the current path condition, then assume it"""
        g = sym.truth(goal)
        if not self.replaying_prefix():
            self.obligations.append(Obligation(oid, list(self.pc), g, meta, list(self.decisions)))
        cc = sym.concrete_of(g)
        if cc is False:
            raise PathEnd()
        if cc is None:
            self.pc.append(g)

    def oblige_safe(self, what, goal, **meta):
        fn = self.ghost.get("fn_label", "?")
        line = self.ghost.get("line", 0)
        self.oblige("safe/%s/%s@%s" % (fn, what, line), goal, **meta)

    def cover(self, label):
        self.covered.add(label)


class Explorer:
    def __init__(self, feas_timeout_ms=3000, max_paths=400):
        self.feas_timeout_ms = feas_timeout_ms
        self.max_paths = max_paths

    def run(self, program):
        """program(ctx) is run once per path.  Returns list of finished PathCtx."""
        work = [[]]
        done = []
        while work:
            if len(done) >= self.max_paths:
                raise sym.OutsideSubset("more than %d paths" % self.max_paths)
            prefix = work.pop()
            c = PathCtx(prefix, self)
            sym.set_ctx(c)
            try:
                program(c)
                c.ghost["ended"] = "normal"
            except PathEnd:
                c.ghost["ended"] = "pathend"
            finally:
                for cm in c.ghost.get("gen_cms", []):
                    try:
                        cm.kill()
                    except Exception:
                        pass
                sym.set_ctx(None)
            done.append(c)
            work.extend(c.new_prefixes)
        return done
