"""Library models (trusted, A4) and the interpreter's helper operations.

Every model is a small function registered for a real library callable; the
names of the models actually used in a run are reported in the evidence
(`trusted_base`).  With concrete arguments the real library function runs.
"""
import builtins
import datetime as _dtm
import fractions
import math
import numbers
import operator

import numpy as np
import z3

from . import sym
from .sym import Sym, SArr, SMasked, OutsideSubset, is_sym, deep_sym, mk, lift, UF
from .paths import PathEnd

NOHOOK = object()
_MODELS = {}


_ALWAYS = set()


def model(*targets, always=False):
    """register fn as the model of the given library callables.  always=True: the model also replaces
    calls with all-concrete arguments (I/O, explicit overrides of typhon helpers)"""
    def deco(fn):
        for t in targets:
            _MODELS[_key(t)] = fn
            if always:
                _ALWAYS.add(_key(t))
        return fn
    return deco


def model_is_always(f):
    try:
        return f in _ALWAYS
    except TypeError:
        return False


def _key(f):
    try:
        hash(f)
        return f
    except TypeError:
        return id(f)


def lookup_model(f):
    try:
        m = _MODELS.get(f)
    except TypeError:
        return None
    return m


_TRANSPARENT = {tuple, list, dict, set, len, zip, enumerate, reversed, iter, next, id, type,
                operator.getitem, hasattr, getattr, repr, range, slice, frozenset, callable,
                sorted, map, filter}


def transparent(f):
    """native callables that only shuffle references (or compare through Sym operators)"""
    try:
        if f in _TRANSPARENT:
            return True
    except TypeError:
        pass
    # bound methods of builtin containers
    s = getattr(f, "__self__", None)
    if isinstance(s, (list, dict, set, tuple, str)) and not isinstance(s, type):
        return True
    if isinstance(s, SArr) or isinstance(s, Sym) or getattr(s, "__pyvc_symbolic__", False):
        return True
    if isinstance(f, type) and issubclass(f, BaseException):
        return True
    # helpers defined by the verifier itself / by contract files run natively on symbolic values
    mod = getattr(f, "__module__", None) or getattr(type(s), "__module__", "") if s is not None else getattr(f, "__module__", None)
    if isinstance(mod, str) and (mod.startswith("contracts") or mod.startswith("pyvc")):
        return True
    return False


# ----------------------------------------------------------------------------
# scalar helpers

def _uf1(name):
    f = UF[name]

    def g(interp, x, *a, **k):
        if isinstance(x, SArr):
            return sym.elementwise(lambda v: g(interp, v), [x], "real")
        if isinstance(x, Sym):
            return Sym(f(sym.to_real(x.e)))
        if interp is not None and interp.concrete or not isinstance(x, fractions.Fraction):
            return getattr(np, name)(x)
        return Sym(f(lift(x)))
    g.__name__ = "np_" + name
    return g


for _n in ("exp", "log", "sin", "cos", "tan", "tanh", "sqrt", "arcsin", "arccos", "arctan"):
    _m = _uf1(_n)
    _MODELS[getattr(np, _n)] = _m
    if hasattr(math, _n if not _n.startswith("arc") else "a" + _n[3:]):
        _MODELS[getattr(math, _n if not _n.startswith("arc") else "a" + _n[3:])] = _m


@model(np.arctan2, math.atan2)
def np_arctan2(interp, y, x):
    if isinstance(y, SArr) or isinstance(x, SArr):
        return sym.elementwise(lambda a, b: np_arctan2(interp, a, b), [y, x], "real")
    if is_sym(y) or is_sym(x):
        return Sym(UF["arctan2"](sym.to_real(lift(y)), sym.to_real(lift(x))))
    return np.arctan2(y, x)


@model(np.abs, np.absolute, builtins.abs)
def np_abs(interp, x):
    return abs(x)


@model(np.deg2rad, np.radians, math.radians)
def np_deg2rad(interp, x):
    if is_sym(x):
        return x * Sym(sym.PI) / 180
    return np.deg2rad(x)


@model(np.rad2deg, np.degrees, math.degrees)
def np_rad2deg(interp, x):
    if is_sym(x):
        return x * 180 / Sym(sym.PI)
    return np.rad2deg(x)


@model(builtins.min)
def py_min(interp, *args, **kw):
    if len(args) == 1:
        args = list(concrete_iter(interp, args[0]))
    if not deep_sym(args):
        return min(*args, **kw) if len(args) > 1 else min(args[0], **kw)
    r = args[0]
    for a in args[1:]:
        r = _pick(a < r, a, r)
    return r


@model(builtins.max)
def py_max(interp, *args, **kw):
    if len(args) == 1:
        args = list(concrete_iter(interp, args[0]))
    if not deep_sym(args):
        return max(*args, **kw) if len(args) > 1 else max(args[0], **kw)
    r = args[0]
    for a in args[1:]:
        r = _pick(a > r, a, r)
    return r


def _pick(cond, a, b):
    """a if cond else b; symbolic timedeltas are merged on their microsecond count, other non-scalar values by forking"""
    from . import timesym
    if isinstance(a, (timesym.STimedelta, _dtm.timedelta)) and isinstance(b, (timesym.STimedelta, _dtm.timedelta)):
        if isinstance(cond, bool):
            return a if cond else b
        return timesym.STimedelta(sym.ite(cond, Sym(lift(timesym.td_us(a))), Sym(lift(timesym.td_us(b)))))
    if isinstance(a, (Sym, int, float, fractions.Fraction)) and isinstance(b, (Sym, int, float, fractions.Fraction)):
        return sym.ite(cond, a, b)
    if isinstance(cond, bool):
        return a if cond else b
    return a if sym.ctx().branch(sym.truth(cond)) else b


@model(np.minimum)
def np_minimum(interp, a, b):
    return sym.elementwise(lambda x, y: sym.ite(x < y, x, y) if is_sym(x) or is_sym(y) else min(x, y), [a, b])


@model(np.maximum)
def np_maximum(interp, a, b):
    return sym.elementwise(lambda x, y: sym.ite(x > y, x, y) if is_sym(x) or is_sym(y) else max(x, y), [a, b])


@model(builtins.isinstance)
def py_isinstance(interp, obj, cls):
    if isinstance(obj, Sym):
        proto = True if obj.is_bool else (1 if obj.is_int else 1.0)
        return isinstance(proto, cls)
    if isinstance(obj, SArr):
        return isinstance(np.zeros(0), cls)
    if isinstance(obj, fractions.Fraction) and not interp.concrete:
        return isinstance(1.0, cls)      # Fractions stand for floats (A2)
    return isinstance(obj, cls)


@model(builtins.float)
def py_float(interp, x=0.0):
    if isinstance(x, Sym):
        return Sym(sym.to_real(x.e))
    return float(x)


@model(builtins.bool)
def py_bool(interp, x=False):
    return interp.truth_value(x)


@model(builtins.int)
def py_int(interp, x=0, *a):
    if isinstance(x, Sym):
        if x.is_int:
            return x
        if x.is_bool:
            return mk(z3.If(x.e, z3.IntVal(1), z3.IntVal(0)))
        return trunc_int(interp, x)
    return int(x, *a)


def trunc_int(interp, x):
    """int(x): truncation toward zero, as a fresh integer with its defining bounds"""
    ctx = interp.ctx
    i = ctx.fresh("trunc", "int")
    xe = x.e
    ctx.assume(z3.If(xe >= 0, z3.And(z3.ToReal(i.e) <= xe, xe < z3.ToReal(i.e) + 1),
                     z3.And(z3.ToReal(i.e) >= xe, xe > z3.ToReal(i.e) - 1)))
    interp.trusted_used.add("encoding:int()/trunc as fresh integer with I<=x<I+1 (toward zero)")
    return i


@model(np.trunc)
def np_trunc(interp, x):
    if isinstance(x, Sym):
        return Sym(z3.ToReal(trunc_int(interp, x).e))
    if isinstance(x, SArr):
        raise OutsideSubset("np.trunc of symbolic array")
    return np.trunc(x)


@model(np.floor, math.floor)
def np_floor(interp, x):
    if isinstance(x, Sym):
        if x.is_int:
            return x
        ctx = interp.ctx
        i = ctx.fresh("floor", "int")
        ctx.assume(z3.And(z3.ToReal(i.e) <= x.e, x.e < z3.ToReal(i.e) + 1))
        return i
    return np.floor(x)


@model(np.ceil, math.ceil)
def np_ceil(interp, x):
    if isinstance(x, Sym):
        if x.is_int:
            return x
        ctx = interp.ctx
        i = ctx.fresh("ceil", "int")
        ctx.assume(z3.And(z3.ToReal(i.e) >= x.e, x.e > z3.ToReal(i.e) - 1))
        return i
    return np.ceil(x)


@model(np.isnan)
def np_isnan(interp, x):
    # A2: symbolic reals are never NaN unless a NaN tag is modelled explicitly
    if isinstance(x, SArr):
        return sym.elementwise(lambda v: False, [x], "bool")
    if isinstance(x, Sym):
        return False
    return np.isnan(x)


def astype(x, t):
    name = getattr(t, "__name__", str(t))
    if "int" in name:
        if isinstance(x, Sym) and x.is_int:
            return x
        if isinstance(x, SArr) and x.dtype == "int":
            return x
        raise OutsideSubset("astype(int) of non-int symbolic")
    if "float" in name:
        if isinstance(x, Sym):
            return Sym(sym.to_real(x.e))
        f = x.fn
        return SArr(x.shape, lambda *i: py_float(None, f(*i)), "real")
    if name.startswith("timedelta64[") and isinstance(x, SArr) and getattr(x, "time_unit", None):
        # counts of one time unit converted to a coarser / finer one: NumPy floors
        new = name[len("timedelta64["):-1]
        ratio = fractions.Fraction(sym.TIME_UNIT_US[new]) / sym.TIME_UNIT_US[x.time_unit]
        f = x.copy().fn
        if ratio >= 1 and ratio.denominator == 1:
            k = int(ratio)
            out = SArr(x.shape, lambda *i: mk(lift(f(*i)) / k), "int")          # z3 integer division floors for k > 0
        elif ratio.numerator == 1:
            k = ratio.denominator
            out = SArr(x.shape, lambda *i: f(*i) * k, "int")
        else:
            raise OutsideSubset("astype(%s) from %s" % (name, x.time_unit))
        out.time_unit = new
        return out
    raise OutsideSubset("astype(%s)" % name)


# ----------------------------------------------------------------------------
# arrays

def generic_index_shape(interp, shape):
    ctx = interp.ctx
    idx = []
    for d, n in enumerate(shape):
        if not isinstance(n, Sym) and n == 1:
            idx.append(0)
            continue
        k = ctx.fresh("k%d" % d, "int")
        ctx.assume(z3.And(k.e >= 0, k.e < lift(n)))
        idx.append(k)
    return tuple(idx)


def generic_index(interp, arr):
    return generic_index_shape(interp, arr.shape)


def to_sarr(v):
    """view a Python list / ndarray containing symbolic scalars as an SArr"""
    if isinstance(v, SArr):
        return v
    if isinstance(v, Sym):
        return v
    if isinstance(v, (list, tuple)):
        items = [to_sarr(x) for x in v]
        if all(not isinstance(x, SArr) for x in items):
            n = len(items)

            def fn(i, items=items):
                if isinstance(i, Sym):
                    r = items[-1]
                    for j in range(n - 2, -1, -1):
                        r = sym.ite(i == j, items[j], r)
                    return r
                return items[i]
            dt = "real"
            if all(isinstance(x, (int, np.integer)) and not isinstance(x, bool) or (isinstance(x, Sym) and x.is_int)
                   for x in items):
                dt = "int"
            return SArr((n,), fn, dt)
        if items and all(isinstance(x, SArr) and x.ndim == 1 for x in items) \
                and all(sym.same_dim(x.shape[0], items[0].shape[0]) for x in items):
            # a list of k rows of equal (possibly symbolic) length: the (k, n) array of them
            rows = [x.copy().fn for x in items]
            n = items[0].shape[0]

            def fn2(i, j, rows=rows):
                if isinstance(i, Sym):
                    r = rows[-1](j)
                    for t_ in range(len(rows) - 2, -1, -1):
                        r = sym.ite(i == t_, rows[t_](j), r)
                    return r
                return rows[i](j)
            dts = {x.dtype for x in items}
            return SArr((len(items), n), fn2, "int" if dts == {"int"} else ("bool" if dts == {"bool"} else "real"))
        raise OutsideSubset("nested symbolic list -> array")
    return v


@model(np.asarray, np.array, np.atleast_1d, np.asanyarray)
def np_asarray(interp, v, *a, **k):
    if hasattr(v, "__pyvc_array__"):
        return v.__pyvc_array__(interp)
    if isinstance(v, Sym):
        return v
    if isinstance(v, SArr):
        return v
    if deep_sym(v):
        return to_sarr(v)
    return np.asarray(v, *a, **k)


def getitem(arr, key):
    """SArr.__getitem__"""
    if isinstance(key, SArr) and key.dtype == "bool":
        return SMasked(arr, key)
    if isinstance(key, np.ndarray) and key.dtype == bool:
        raise OutsideSubset("concrete mask on symbolic array")
    if not isinstance(key, tuple):
        key = (key,)
    if any(k is Ellipsis for k in key):
        i = [j for j, k in enumerate(key) if k is Ellipsis][0]
        fill = arr.ndim - (len(key) - 1)
        key = key[:i] + (slice(None),) * fill + key[i + 1:]
    if len(key) > arr.ndim:
        raise IndexError("too many indices for array")
    # integer / slice / fancy per axis
    shape = []
    maps = []   # per source axis: function from out index list -> source index, consuming out axes
    out_axis = 0
    plan = []
    for ax in range(arr.ndim):
        k = key[ax] if ax < len(key) else slice(None)
        n = arr.shape[ax]
        if isinstance(k, slice):
            start, stop, step = k.start, k.stop, k.step
            if step not in (None, 1, -1):
                raise OutsideSubset("slice step %r" % (step,))
            if step == -1:
                if start is not None or stop is not None:
                    raise OutsideSubset("bounded reversed slice")
                plan.append(("rev", n))
                shape.append(n)
                continue
            lo = 0 if start is None else (start if _nonneg(start) else n + start)
            hi = n if stop is None else (stop if _nonneg(stop) else n + stop)
            # clamp (Python slice semantics) for concrete-decidable cases only
            if isinstance(start, Sym) or isinstance(stop, Sym):
                # symbolic bounds: no clamping is modelled, so 0 <= lo <= hi <= n is an obligation
                cc = sym.ctx()
                if not cc.spec_mode:
                    cc.oblige_safe("slice-bounds", z3.And(lift(lo) >= 0, lift(lo) <= lift(hi), lift(hi) <= lift(n)))
            ln = hi - lo
            plan.append(("off", lo))
            shape.append(ln)
        elif isinstance(k, SArr) and k.dtype == "int" and k.ndim == 1:
            kc = k.copy()
            cc = sym.ctx()
            if not cc.spec_mode and getattr(cc, "bound_depth", 0) == 0:
                # every index of a fancy index array must be in bounds (IndexError otherwise); negative indices are
                # not modelled, so 0 <= k[q] < n is the obligation
                q = z3.Int(cc.fresh_name("qf"))
                cc.bound_depth = 1
                try:
                    kq = lift(kc.fn(Sym(q)))
                finally:
                    cc.bound_depth = 0
                cc.oblige_safe("fancy-index-in-bounds", z3.ForAll([q], z3.Implies(z3.And(q >= 0, q < lift(kc.shape[0])),
                                                                                  z3.And(kq >= 0, kq < lift(n)))))
            plan.append(("fancy", kc))
            shape.append(k.shape[0])
        elif isinstance(k, (np.ndarray, list)) and not deep_sym(k):
            kk = np.asarray(k)
            plan.append(("fancyc", kk))
            shape.append(kk.shape[0])
        else:
            if isinstance(k, Sym) and not k.is_int:
                raise OutsideSubset("non-integer symbolic index")
            if not isinstance(k, Sym) and isinstance(k, (int, np.integer)) and k < 0:
                k = n + int(k)
            _bounds_obligation(k, n)
            plan.append(("fix", k))
    f = arr.fn

    def fn(*idx):
        src = []
        j = 0
        for kind, val in plan:
            if kind == "fix":
                src.append(val)
            elif kind == "off":
                src.append(idx[j] + val)
                j += 1
            elif kind == "rev":
                src.append(val - 1 - idx[j])
                j += 1
            elif kind == "fancy":
                src.append(val.fn(idx[j]))
                j += 1
            elif kind == "fancyc":
                src.append(sym.concrete_select(val, (idx[j],)))
                j += 1
        return f(*src)
    if not shape:
        return fn()
    return SArr(tuple(shape), fn, arr.dtype)


def _nonneg(v):
    if isinstance(v, Sym):
        return True   # symbolic slice bounds are taken as non-negative (safe obligation below)
    return v >= 0


def _bounds_obligation(k, n):
    c = sym.ctx()
    if c.spec_mode:
        return
    if isinstance(k, Sym) or isinstance(n, Sym):
        c.oblige_safe("index-in-bounds", z3.And(lift(k) >= 0, lift(k) < lift(n)))
    elif not (0 <= k < n):
        raise IndexError("index %s out of bounds for axis with size %s" % (k, n))


def setitem(arr, key, val):
    """SArr.__setitem__: replaces arr.fn (in place, aliases see it)"""
    old = arr.fn
    same_mask = isinstance(val, SMasked) and val.mask is key
    if isinstance(val, SArr):
        val = val.copy()          # the right-hand side is evaluated before the store
    elif isinstance(val, SMasked):
        val = SMasked(val.base.copy() if isinstance(val.base, SArr) else val.base, val.mask)
    if isinstance(key, SArr):
        key = key.copy()
    if isinstance(key, SArr) and key.dtype == "bool":
        mask = key
        if isinstance(val, SMasked):
            if not same_mask:
                raise OutsideSubset("a[m] = b[m2] with different masks")
            src = val.base
            nd = arr.ndim
            arr.fn = lambda *i: sym.ite(mask.fn(*i), sym.index_into(src, i, nd), old(*i))
        elif isinstance(val, SArr):
            raise OutsideSubset("a[mask] = array (compressed assignment)")
        else:
            arr.fn = lambda *i: sym.ite(mask.fn(*i), val, old(*i))
        return
    if not isinstance(key, tuple):
        key = (key,)
    if len(key) == arr.ndim and all(isinstance(k, (int, np.integer, Sym)) for k in key):
        for k, n in zip(key, arr.shape):
            _bounds_obligation(k, n)
        kk = tuple(key)

        def fn(*i):
            cond = z3.And([lift(a) == lift(b) for a, b in zip(i, kk)])
            return sym.ite(mk(cond), val, old(*i))
        arr.fn = fn
        if isinstance(val, float) or (isinstance(val, Sym) and val.is_real):
            if arr.dtype == "int":
                raise OutsideSubset("real stored into int array")
        return
    if len(key) == 1 and isinstance(key[0], slice) and key[0] == slice(None):
        nd = arr.ndim
        arr.fn = lambda *i: sym.index_into(val, i, nd)
        return
    if arr.ndim == 2 and len(key) == 2 and isinstance(key[1], slice) and key[1] == slice(None) \
            and isinstance(key[0], (int, Sym)):
        row = key[0]
        _bounds_obligation(row, arr.shape[0])

        def fn(i, j):
            return sym.ite(mk(lift(i) == lift(row)), sym.index_into(val, (j,), 1), old(i, j))
        arr.fn = fn
        return
    if arr.ndim == 2 and len(key) == 2 and isinstance(key[0], slice) and key[0] == slice(None) \
            and isinstance(key[1], (int, np.integer)) and not isinstance(key[1], bool):
        col = int(key[1]) if key[1] >= 0 else arr.shape[1] + int(key[1])
        _bounds_obligation(col, arr.shape[1])

        def fn(i, j):
            return sym.ite(mk(lift(j) == col), sym.index_into(val, (i,), 1), old(i, j))
        arr.fn = fn
        return
    if len(key) == 1 and isinstance(key[0], (list, np.ndarray)) and not deep_sym(key[0]) and isinstance(val, SArr) \
            and val.ndim == arr.ndim:
        # a[[i0, i1, ...]] = v : row v[t] goes to row i_t (later entries win, as in NumPy)
        rows = [int(x) for x in np.asarray(key[0]).ravel()]
        for r_ in rows:
            _bounds_obligation(r_ if r_ >= 0 else arr.shape[0] + r_, arr.shape[0])
        vf = val.fn

        def fn(i, *rest):
            out = old(i, *rest)
            for t_, r_ in enumerate(rows):
                out = sym.ite(mk(lift(i) == lift(r_ if r_ >= 0 else arr.shape[0] + r_)), vf(t_, *rest), out)
            return out
        arr.fn = fn
        return
    if arr.ndim == 1 and len(key) == 1 and isinstance(key[0], slice) and key[0].step in (None, 1) \
            and (key[0].start is None or (isinstance(key[0].start, (int, np.integer)) and key[0].start >= 0)) \
            and (key[0].stop is None or (isinstance(key[0].stop, (int, np.integer)) and key[0].stop >= 0)):
        # a[lo:hi] = v  (non-negative concrete bounds; the length may be symbolic): a scalar is broadcast, an array must have
        # exactly the length of the slice (NumPy raises otherwise, hence a safety obligation)
        n = arr.shape[0]
        lo = 0 if key[0].start is None else int(key[0].start)
        hi = n if key[0].stop is None else sym.ite(mk(lift(int(key[0].stop)) < lift(n)), int(key[0].stop), n) if isinstance(n, Sym) else min(int(key[0].stop), n)
        if isinstance(val, SArr):
            if val.ndim != 1:
                raise OutsideSubset("slice store of a rank-%d array into a vector" % val.ndim)
            c = sym.ctx()
            want = sym.ite(mk(lift(hi) > lift(lo)), lift(hi) - lift(lo), 0) if (isinstance(hi, Sym) or isinstance(lo, Sym)) else max(0, hi - lo)
            if not c.spec_mode:
                if isinstance(want, Sym) or isinstance(val.shape[0], Sym):
                    c.oblige_safe("slice-store-length", lift(val.shape[0]) == lift(want))
                elif val.shape[0] != want and val.shape[0] != 1:
                    raise ValueError("could not broadcast input array from shape (%d,) into shape (%d,)" % (val.shape[0], want))
            vf = val.fn

            def fn(i):
                return sym.ite(mk(z3.And(lift(i) >= lift(lo), lift(i) < lift(hi))), vf(i - lo), old(i))
        else:
            def fn(i):
                return sym.ite(mk(z3.And(lift(i) >= lift(lo), lift(i) < lift(hi))), val, old(i))
        arr.fn = fn
        return
    raise OutsideSubset("array store with key %r" % (key,))


def _same_mask(a, b):
    return a is b


def reshape(arr, *shape):
    if len(shape) == 1 and isinstance(shape[0], tuple):
        shape = shape[0]
    f = arr.fn
    if len(shape) == arr.ndim and all(sym.same_dim(a, b) for a, b in zip(shape, arr.shape)):
        return arr
    if arr.ndim == 1 and len(shape) == 2:
        n = arr.shape[0]
        r, c = shape
        if not isinstance(c, Sym) and c == 1:
            if not isinstance(r, Sym) and r == -1:
                r = n
            elif not sym.same_dim(r, n):
                from .interp import PyRaise
                if sym.ctx().branch(lift(r) != lift(n)):
                    raise PyRaise(ValueError("cannot reshape array"))
            return SArr((n, 1), lambda i, j: f(i), arr.dtype)
        if not isinstance(r, Sym) and r == -1 and not isinstance(c, Sym) and not isinstance(n, Sym):
            if n % c:
                raise ValueError("cannot reshape")
            return SArr((n // c, c), lambda i, j: f(i * c + j), arr.dtype)
        if not isinstance(r, Sym) and r == 1:
            return SArr((1, n), lambda i, j: f(j), arr.dtype)
        if not isinstance(r, Sym) and not isinstance(c, Sym) and not isinstance(n, Sym):
            if r * c != n:
                from .interp import PyRaise
                raise PyRaise(ValueError("cannot reshape array of size %d into shape %r" % (n, shape)))
            return SArr((r, c), lambda i, j: f(i * c + j), arr.dtype)       # C (row-major) order
    if arr.ndim == 2 and len(shape) == 2:
        r, c = shape
        n, m = arr.shape
        if (sym.same_dim(c, m) or (not isinstance(c, Sym) and c == -1)) and \
                (sym.same_dim(r, n) or (not isinstance(r, Sym) and r == -1)):
            return arr
        if not isinstance(r, Sym) and r == -1 and sym.same_dim(c, m):
            return arr
        # (n, m) -> (r, 1) requires m == 1 ...
        if not isinstance(c, Sym) and c == 1 and not isinstance(m, Sym) and m == 1:
            if not sym.same_dim(r, n):
                from .interp import PyRaise
                if sym.ctx().branch(lift(r) != lift(n)):
                    raise PyRaise(ValueError("cannot reshape array"))
            return arr
    if len(shape) == 1 and not isinstance(shape[0], Sym) and shape[0] == -1:
        return arr.ravel()
    raise OutsideSubset("reshape %s -> %s" % (arr.shape, shape))


def np_any(a, axis=None):
    if isinstance(a, Sym):
        return mk(sym.truth(a))
    if isinstance(a, SArr):
        if axis is not None:
            raise OutsideSubset("any(axis)")
        c = sym.ctx()
        ks = [z3.Int(c.fresh_name("q%d" % d)) for d in range(a.ndim)]
        body = sym.truth(a.fn(*[Sym(k) for k in ks]))
        rng = z3.And([z3.And(k >= 0, k < lift(n)) for k, n in zip(ks, a.shape)])
        return mk(z3.Exists(ks, z3.And(rng, body)))
    return np.any(a, axis=axis)


def np_all(a, axis=None):
    if isinstance(a, Sym):
        return mk(sym.truth(a))
    if isinstance(a, SArr):
        if axis is not None:
            raise OutsideSubset("all(axis)")
        c = sym.ctx()
        ks = [z3.Int(c.fresh_name("q%d" % d)) for d in range(a.ndim)]
        body = sym.truth(a.fn(*[Sym(k) for k in ks]))
        rng = z3.And([z3.And(k >= 0, k < lift(n)) for k, n in zip(ks, a.shape)])
        return mk(z3.ForAll(ks, z3.Implies(rng, body)))
    return np.all(a, axis=axis)


@model(np.any)
def _np_any(interp, a, axis=None):
    return np_any(a, axis)


@model(np.all)
def _np_all(interp, a, axis=None):
    return np_all(a, axis)


# sums: SUM(f, n) as an uninterpreted recursive spec function over z3 functions is not
# expressible directly; a reduction therefore returns an opaque "Reduction" term whose
# properties come from named lemmas.  (Filled in by contract files that need it.)

def _columns(a, axis):
    """reduction of a 2-d array along axis -> 1-d SArr of the per-row/column reduction inputs"""
    if a.ndim == 2 and axis in (0, -2):
        n, m_ = a.shape
        f = a.fn
        return m_, n, (lambda j: SArr((n,), lambda i: f(i, j), a.dtype))
    if a.ndim == 2 and axis in (1, -1):
        n, m_ = a.shape
        f = a.fn
        return n, m_, (lambda i: SArr((m_,), lambda j: f(i, j), a.dtype))
    raise OutsideSubset("reduction axis %r of %d-d array" % (axis, a.ndim))


def np_sum(a, axis=None, keepdims=False):
    """np.sum == SUM(a, n) (trusted link to the specification function of pyvc.sumtheory)"""
    from . import sumtheory
    c = sym.ctx()
    if isinstance(a, Sym):
        return a
    if keepdims:
        if a.ndim != 2 or axis not in (0, 1, -1, -2):
            raise OutsideSubset("sum(keepdims=True) of this shape / axis")
        r = np_sum(a, axis)
        g = r.fn
        if axis in (1, -1):
            return SArr((a.shape[0], 1), lambda i, j: g(i), "real")
        return SArr((1, a.shape[1]), lambda i, j: g(j), "real")
    if a.ndim == 2 and axis is None and not isinstance(a.shape[1], Sym) and a.shape[1] == 1:
        return np_sum(a.ravel())
    if a.ndim == 2 and axis is None and not isinstance(a.shape[0], Sym) and a.shape[0] == 1:
        return np_sum(a.ravel())
    if a.ndim == 1 and axis in (None, 0, -1):
        if not isinstance(a.shape[0], Sym) and a.shape[0] <= 8:
            tot = 0
            for k in range(a.shape[0]):
                tot = tot + a.fn(k)
            return tot
        return sumtheory.ssum(c, a)
    if a.ndim == 2 and axis is None:
        raise OutsideSubset("full reduction of a 2-d symbolic array")
    count, length, col = _columns(a, axis)
    return SArr((count,), lambda j: np_sum(col(j)), "real")


def np_mean(a, axis=None):
    if isinstance(a, Sym):
        return a
    if a.ndim == 1 and axis in (None, 0, -1):
        return np_sum(a) / a.shape[0]
    count, length, col = _columns(a, axis)
    s = np_sum(a, axis)
    f = s.fn
    return SArr(s.shape, lambda j: f(j) / length, "real")


def _np_extreme(a, axis, least):
    """min / max of a vector: a fresh value m that bounds every element and is attained (m == a[k] for a fresh index k);
    an empty vector raises ValueError as in NumPy.  Short concrete lengths are folded directly."""
    if a.ndim != 1 or axis not in (None, 0, -1):
        raise OutsideSubset("min/max reduction of a rank-%d symbolic array along axis %r" % (a.ndim, axis))
    c = sym.ctx()
    n = a.shape[0]
    from .interp import PyRaise
    if not isinstance(n, Sym):
        if n == 0:
            raise PyRaise(ValueError("zero-size array to reduction operation which has no identity"))
        if n <= 4:
            r = a.fn(0)
            for i in range(1, n):
                x = a.fn(i)
                r = sym.ite((x < r) if least else (x > r), x, r)
            return r
    elif c.branch(lift(n) < 1):
        raise PyRaise(ValueError("zero-size array to reduction operation which has no identity"))
    sort = "int" if a.dtype == "int" else "real"
    m = c.fresh("amin" if least else "amax", sort)
    k = c.fresh("argext", "int")
    j = z3.Int(c.fresh_name("j"))
    el = lift(a.fn(mk(j)))
    c.assume(z3.ForAll([j], z3.Implies(z3.And(j >= 0, j < lift(n)), (el >= m.e) if least else (el <= m.e))))
    c.assume(z3.And(k.e >= 0, k.e < lift(n)))
    c.assume(lift(a.fn(k)) == m.e)
    return m


def np_min(a, axis=None):
    return _np_extreme(a, axis, True)


def np_max(a, axis=None):
    return _np_extreme(a, axis, False)


@model(np.sum)
def _np_sum(interp, a, axis=None, keepdims=False, **kw):
    if not deep_sym(a):
        return np.sum(a, axis=axis, keepdims=keepdims, **kw)
    interp.trusted_used.add("model:np.sum == SUM spec function")
    return np_sum(to_sarr(a), axis, keepdims)


@model(np.mean, np.nanmean)
def _np_mean(interp, a, axis=None, **kw):
    if not deep_sym(a):
        return np.mean(a, axis=axis, **kw)
    interp.trusted_used.add("model:np.mean/np.nanmean == SUM/n (no NaN under A2)")
    return np_mean(to_sarr(a), axis)


@model(np.where)
def np_where(interp, c, a=None, b=None):
    if a is None:
        if not deep_sym(c):
            return np.where(c)
        from . import npmodels
        return npmodels.np_where1(interp, c)
    return sym.elementwise(lambda cc, x, y: sym.ite(cc, x, y) if isinstance(cc, Sym) else (x if cc else y),
                           [c, a, b])


@model(np.logical_and)
def np_logical_and(interp, a, b):
    return sym.elementwise(lambda x, y: mk(z3.And(sym.truth(x), sym.truth(y))), [a, b], "bool")


@model(np.logical_or)
def np_logical_or(interp, a, b):
    return sym.elementwise(lambda x, y: mk(z3.Or(sym.truth(x), sym.truth(y))), [a, b], "bool")


@model(np.logical_not)
def np_logical_not(interp, a):
    return sym.elementwise(lambda x: mk(z3.Not(sym.truth(x))), [a], "bool")


@model(np.shape)
def np_shape(interp, a):
    return sym.shape_of(a)


@model(np.ndim)
def np_ndim(interp, a):
    return len(sym.shape_of(a))


@model(builtins.len, always=True)
def py_len(interp, a):
    if isinstance(a, SArr):
        return a.shape[0]
    if hasattr(a, "__pyvc_len__"):
        return a.__pyvc_len__()
    meth = getattr(type(a), "__len__", None)
    if meth is not None and str(getattr(meth, "__module__", "") or "").startswith("typhon") and not interp.concrete:
        return interp.call_value(meth, [a], {}, None)
    return len(a)


@model(np.isscalar)
def np_isscalar(interp, a):
    if isinstance(a, Sym):
        return True
    if isinstance(a, SArr):
        return False
    return np.isscalar(a)


# ----------------------------------------------------------------------------
# interpreter helpers

def sym_binop(interp, op, l, r):
    if isinstance(l, SMasked) or isinstance(r, SMasked):
        raise OutsideSubset("arithmetic on a masked selection")
    if isinstance(l, np.ndarray) and isinstance(r, Sym):
        return sym.elementwise(lambda a, b: op(a, b), [l, r])
    if isinstance(r, np.ndarray) and isinstance(l, Sym):
        return sym.elementwise(lambda a, b: op(a, b), [l, r])
    if isinstance(l, np.ndarray) and isinstance(r, SArr) or isinstance(r, np.ndarray) and isinstance(l, SArr):
        return sym.elementwise(lambda a, b: op(a, b), [l, r])
    if isinstance(l, (list, tuple)) or isinstance(r, (list, tuple)):
        if op is operator.add and isinstance(l, (list, tuple)) and isinstance(r, (list, tuple)):
            return l + r
        raise OutsideSubset("list (op) symbolic")
    try:
        res = op(l, r)
    except TypeError as exc:
        raise OutsideSubset("binop %s on %s, %s: %s" % (op.__name__, type(l).__name__, type(r).__name__, exc))
    if res is NotImplemented:
        raise OutsideSubset("binop %s not implemented for %r, %r" % (op.__name__, l, r))
    return res


def tolerant_compare(f, l, r, rel=1e-9, abs_=1e-12):
    """comparison of concrete values when replaying a clause on floats"""
    if isinstance(l, (int, np.integer)) and isinstance(r, (int, np.integer)):
        return f(l, r)                      # integers are exact: no tolerance
    try:
        lf, rf = float(l), float(r)
    except (TypeError, ValueError):
        try:
            la, ra = np.asarray(l, dtype=float), np.asarray(r, dtype=float)
        except (TypeError, ValueError):
            return f(l, r)
        scale = max(float(np.max(np.abs(la))) if la.size else 0.0, float(np.max(np.abs(ra))) if ra.size else 0.0)
        if la.shape != ra.shape:
            try:
                np.broadcast_shapes(la.shape, ra.shape)
            except ValueError:
                return f is operator.ne
        close = np.isclose(la, ra, rtol=rel, atol=max(abs_ * min(1.0, scale), rel * scale * 1e-3) if scale else abs_, equal_nan=True)
        if f is operator.eq:
            return bool(np.all(close))
        if f is operator.ne:
            return not bool(np.all(close))
        if f in (operator.le, operator.ge):
            return bool(np.all(f(la, ra) | close))
        return bool(np.all(f(la, ra) & ~close))
    if f in (operator.lt, operator.gt) and (lf == 0 or rf == 0):
        return f(lf, rf)                    # a sign test against exact zero: no absolute tolerance (tiny positive values are positive)
    close = math.isclose(lf, rf, rel_tol=rel, abs_tol=abs_) or (lf != lf and rf != rf)
    if f is operator.eq:
        return close
    if f is operator.ne:
        return not close
    if f in (operator.le, operator.ge):
        return f(lf, rf) or close
    return f(lf, rf) and not close


def concrete_iter(interp, it):
    if isinstance(it, SArr):
        n = it.shape[0]
        if isinstance(n, Sym):
            raise OutsideSubset("iteration over symbolic-length array without a loop invariant")
        return [it[i] for i in range(n)]
    if isinstance(it, Sym):
        raise OutsideSubset("iteration over a symbolic scalar")
    if hasattr(it, "__pyvc_iter__"):
        return it.__pyvc_iter__(interp)
    try:
        return iter(it)
    except TypeError as exc:
        from .interp import PyRaise
        raise PyRaise(exc)


def unpack(interp, val, n, node):
    if isinstance(val, SArr):
        if isinstance(val.shape[0], Sym):
            raise OutsideSubset("unpacking symbolic-length array")
        return [val[i] for i in range(val.shape[0])]
    try:
        vals = list(val)
    except TypeError as exc:
        from .interp import PyRaise
        raise PyRaise(exc)
    has_star = any(type(e).__name__ == "Starred" for e in node.elts)
    if (not has_star and len(vals) != n) or (has_star and len(vals) < n - 1):
        from .interp import PyRaise
        raise PyRaise(ValueError("not enough / too many values to unpack (expected %d, got %d)" % (n, len(vals))))
    return vals


def _typhon_dunder(obj, name):
    meth = getattr(type(obj), name, None)
    if meth is not None and str(getattr(meth, "__module__", "") or "").startswith("typhon"):
        return meth
    return None


def getitem_any(interp, obj, key):
    if isinstance(obj, SArr):
        return obj[key]
    if isinstance(obj, Sym) and (key == () or key is Ellipsis):
        return obj                  # x[()] / x[...] of a 0-d value (what NumPy scalars and 0-d arrays allow)
    if not interp.concrete and _typhon_dunder(obj, "__getitem__") is not None:
        return interp.call_value(_typhon_dunder(obj, "__getitem__"), [obj, key], {}, None)
    if hasattr(obj, "__pyvc_getitem__"):
        return obj.__pyvc_getitem__(interp, key)
    if isinstance(obj, np.ndarray) and deep_sym(key):
        if isinstance(key, SArr) and key.dtype == "int":
            return SArr(key.shape, lambda *i: sym.concrete_select(obj, (key.fn(*i),)),
                        "int" if obj.dtype.kind in "iu" else "real")
        k = key if isinstance(key, tuple) else (key,)
        if all(isinstance(x, (int, Sym, np.integer)) for x in k) and len(k) == obj.ndim:
            for kk, n in zip(k, obj.shape):
                _bounds_obligation(kk, n)
            return sym.concrete_select(obj, k)
        raise OutsideSubset("symbolic index into concrete ndarray")
    if isinstance(obj, (list, tuple)) and isinstance(key, Sym):
        _bounds_obligation(key, len(obj))
        return to_sarr(list(obj)).fn(key)
    if isinstance(obj, dict) and isinstance(key, Sym):
        raise OutsideSubset("symbolic dict key")
    if isinstance(obj, dict) and isinstance(key, _strsym.SStr):
        # chunked-string key: the entry whose key is (symbolically) equal
        for k2, v2 in obj.items():
            if isinstance(k2, (str, _strsym.SStr)):
                r = key == k2
                if r is True or (r is not False and interp.ctx.branch(sym.truth(r))):
                    return v2
        from .interp import PyRaise
        raise PyRaise(KeyError(key))
    return interp.native(operator.getitem, obj, key)


def setitem_any(interp, obj, key, val):
    if isinstance(obj, SArr):
        obj[key] = val
        return
    if not interp.concrete and _typhon_dunder(obj, "__setitem__") is not None:
        interp.call_value(_typhon_dunder(obj, "__setitem__"), [obj, key, val], {}, None)
        return
    if hasattr(obj, "__pyvc_setitem__"):
        return obj.__pyvc_setitem__(interp, key, val)
    if isinstance(obj, np.ndarray) and (deep_sym(key) or deep_sym(val)):
        raise OutsideSubset("symbolic store into a concrete ndarray (convert at creation)")
    if isinstance(key, Sym):
        raise OutsideSubset("symbolic key store into %s" % type(obj).__name__)
    return interp.native(operator.setitem, obj, key, val)


def contains(interp, container, item):
    if hasattr(container, "__pyvc_contains__"):
        return container.__pyvc_contains__(interp, item)
    if isinstance(item, _strsym.SStr) and isinstance(container, (set, frozenset, list, tuple, dict)):
        # chunked string in a collection of strings: symbolic comparison with each member
        terms = []
        for member in container:
            if isinstance(member, (str, _strsym.SStr)):
                r = item == member
                if r is True:
                    return True
                if r is not False:
                    terms.append(sym.truth(r))
        return mk(z3.Or(terms)) if terms else False
    # real objects with a typhon __contains__ are analysed code
    meth = getattr(type(container), "__contains__", None)
    if meth is not None and str(getattr(meth, "__module__", "") or "").startswith("typhon") and not interp.concrete:
        return interp.call_value(meth, [container, item], {}, None)
    if isinstance(item, Sym):
        if isinstance(container, (list, tuple, set, frozenset, range)):
            return mk(z3.Or([sym.truth(item == c) for c in container]))
        raise OutsideSubset("symbolic `in` %s" % type(container).__name__)
    return interp.native(operator.contains, container, item)


def attr_hook(interp, obj, attr):
    if isinstance(obj, np.ndarray) and False:
        return NOHOOK
    return NOHOOK


def symbolic_comprehension(interp, node, frame):
    return NOHOOK


def construct(interp, cls, args, kwargs, node, frame):
    """instantiation of a typhon class inside analysed code: real allocation, interpreted __init__"""
    init = cls.__init__
    if isinstance(cls, type) and issubclass(cls, BaseException):
        return interp.native(cls, *args, **kwargs)
    obj = cls.__new__(cls)
    if getattr(init, "__module__", "") and str(init.__module__).startswith("typhon"):
        interp.call_value(init, [obj] + list(args), kwargs, node, frame)
    else:
        interp.native(init, obj, *args, **kwargs)
    return obj


def with_enter(interp, m):
    if hasattr(m, "__pyvc_enter__"):
        return m.__pyvc_enter__(interp)
    if not hasattr(type(m), "__enter__"):
        from .interp import PyRaise
        raise PyRaise(TypeError("%r object does not support the context manager protocol" % type(m).__name__))
    return interp.native(type(m).__enter__, m)


def with_exit(interp, m, exc):
    if hasattr(m, "__pyvc_exit__"):
        return m.__pyvc_exit__(interp, exc)
    if exc is None:
        return interp.native(type(m).__exit__, m, None, None, None)
    return interp.native(type(m).__exit__, m, type(exc), exc, None)


# ----------------------------------------------------------------------------
# intrinsics of the specification language

def intrinsic(interp, f, args, kwargs, node, frame):
    ctx = interp.ctx
    n = f.name
    if n in ("requires", "assume"):
        for a in args:
            if interp.concrete:
                if not a:
                    raise PathEnd()
            else:
                ctx.assume(a)
        return None
    if n == "ensures":
        label = kwargs.get("id", "L%s" % getattr(node, "lineno", "?"))
        thm = ctx.ghost.get("thm_label", "thm")
        for a in args:
            if interp.concrete:
                ctx.ghost.setdefault("replay_results", []).append((label, bool(a)))
            else:
                ctx.oblige("%s/%s" % (thm, label), a, clause=_src(node), kind="thm")
        return None
    if n == "implies":
        a, b = args
        if is_sym(a) or is_sym(b):
            return mk(z3.Implies(sym.truth(a), sym.truth(b)))
        return (not a) or bool(b)
    if n == "iff":
        a, b = args
        if is_sym(a) or is_sym(b):
            return mk(sym.truth(a) == sym.truth(b))
        return bool(a) == bool(b)
    if n == "ite":
        c, a, b = args
        return sym.ite(c, a, b)
    if n in ("forall", "exists"):
        lo, hi, body = args
        if interp.concrete or not (is_sym(lo) or is_sym(hi)) and hi - lo <= 64:
            vals = [interp.call_value(body, [k], {}) for k in range(lo, hi)]
            if any(isinstance(v, Sym) for v in vals):
                ts = [sym.truth(v) for v in vals]
                return mk(z3.And(ts) if n == "forall" else z3.Or(ts))
            return all(vals) if n == "forall" else any(vals)
        k = z3.Int(ctx.fresh_name("q"))
        ctx.bound_depth = getattr(ctx, "bound_depth", 0) + 1
        try:
            b = interp.call_value(body, [Sym(k)], {})
        finally:
            ctx.bound_depth -= 1
        rng = z3.And(k >= lift(lo), k < lift(hi))
        if n == "forall":
            return mk(z3.ForAll([k], z3.Implies(rng, sym.truth(b))))
        return mk(z3.Exists([k], z3.And(rng, sym.truth(b))))
    if n in UF:
        if interp.concrete or not deep_sym(args):
            impl = getattr(np, n)
            if all(isinstance(a, fractions.Fraction) for a in args) and not interp.concrete:
                return Sym(UF[n](*[lift(a) for a in args]))
            return impl(*[float(a) for a in args])
        return lookup_model(getattr(np, n))(interp, *args)
    if n == "fresh":
        name, kind = args[0], (args[1] if len(args) > 1 else "real")
        from .contracts import make_value
        return make_value(ctx, kind, name)
    if n == "fresh_array":
        from .contracts import fresh_array
        name, length = args[0], args[1]
        dtype = args[2] if len(args) > 2 else "real"
        shape = length if isinstance(length, tuple) else (length,)
        return fresh_array(ctx, name, shape, dtype)
    if n == "uf":
        name, arity = args[0], (args[1] if len(args) > 1 else 1)
        rng = kwargs.get("range", "real")
        dom = kwargs.get("domain", "real")
        sorts = {"real": z3.RealSort(), "int": z3.IntSort(), "bool": z3.BoolSort()}
        func = z3.Function(name, *([sorts[dom]] * arity + [sorts[rng]]))
        impl = kwargs.get("impl")
        conv = sym.to_real if dom == "real" else (lambda e: e)

        def call(*xs):
            if not deep_sym(xs) and impl is not None and interp.concrete:
                return impl(*xs)
            if any(isinstance(x, SArr) for x in xs):
                return sym.elementwise(lambda *ys: Sym(func(*[conv(lift(y)) for y in ys])), list(xs), rng)
            return Sym(func(*[conv(lift(x)) for x in xs]))
        call.__name__ = name
        call.__pyvc_native__ = True
        call.z3func = func
        return call
    if n == "use_axiom":
        name = args[0]
        ax = interp.registry.axioms.get(name)
        if ax is None:
            raise OutsideSubset("unknown axiom %s" % name)
        if interp.concrete:
            return None
        from . import sumtheory
        zargs = []
        for a in args[1:]:
            if isinstance(a, SArr):
                zargs.append(sumtheory.materialize(ctx, a))
            elif hasattr(a, "z3func"):
                zargs.append(a.z3func)
            elif callable(a):
                zargs.append(a)
            else:
                zargs.append(lift(a))
        inst = ax(*zargs)
        interp.trusted_used.add("axiom:" + name)
        ctx.assume(inst)
        return None
    if n == "use_lemma":
        if interp.concrete:
            return None
        from . import sumtheory
        sumtheory.use_lemma(interp, args[0], list(args[1:]))
        return None
    if n == "cnt":
        arr, k, v = args
        if interp.concrete:
            return int(sum(1 for j in range(int(k)) if arr[j] == v))
        from . import sumtheory
        return sumtheory.cnt(ctx, arr, k, v)
    if n == "count_def":
        if interp.concrete:
            return True
        from . import sumtheory
        arr, k = args
        return mk(sumtheory.count_def(sumtheory.materialize_int(ctx, arr), lift(k)))
    if n == "ssum":
        # ssum(n, lambda i: term): the specification-level finite sum
        length, body = args
        if interp.concrete:
            return sum(interp.call_value(body, [i], {}) for i in range(int(length)))
        from . import sumtheory
        arr = SArr((length,), _spec_closure(interp, body), "real")
        return sumtheory.ssum(ctx, arr)
    if n == "array_of":
        length, body = args
        if interp.concrete:
            return np.array([interp.call_value(body, [i], {}) for i in range(int(length))])
        return SArr((length,), _spec_closure(interp, body), kwargs.get("dtype", "real"))
    if n == "pointwise":
        # forall-introduction: prove fact(g) for a fresh generic index g, then assume forall i. fact(i)
        length, body = args
        label = kwargs.get("id", "L%s" % getattr(node, "lineno", "?"))
        if interp.concrete:
            ok = all(bool(interp.call_value(body, [i], {})) for i in range(int(length)))
            ctx.ghost.setdefault("replay_results", []).append(("pointwise:" + label, ok))
            return None
        f = _spec_closure(interp, body)
        g = ctx.fresh("g", "int")
        ctx.assume(z3.And(g.e >= 0, g.e < lift(length)))
        thm = ctx.ghost.get("thm_label", "thm")
        ctx.oblige("%s/pointwise:%s" % (thm, label), f(g), clause=_src(node), kind="thm")
        q = z3.Int(ctx.fresh_name("q"))
        ctx.bound_depth = getattr(ctx, "bound_depth", 0) + 1
        try:
            b = f(Sym(q))
        finally:
            ctx.bound_depth -= 1
        ctx.assume(z3.ForAll([q], z3.Implies(z3.And(q >= 0, q < lift(length)), sym.truth(b))))
        return None
    if n == "reveal":
        # opaque/reveal: from here on the hidden ensures of these functions' contracts are assumed at call sites
        for fobj in args:
            c = interp.registry.contract_for(fobj)
            if c is None:
                raise OutsideSubset("reveal() of a function without contract")
            ctx.ghost.setdefault("revealed", set()).add(c.label)
            ctx.ghost.get("axioms_added", set()).discard(c.label)
        return None
    if n == "old":
        return args[0]
    if n == "note":
        return None
    if n == "expect_raises":
        from .interp import PyRaise
        exc_cls, fn = args[0], args[1]
        saved = ctx.spec_mode
        ctx.spec_mode = 0      # the call itself is executed (it may fork and raise), not turned into a formula
        try:
            interp.call_value(fn, list(args[2:]), kwargs, node, frame)
        except PyRaise as pr:
            return isinstance(pr.exc, exc_cls)
        finally:
            ctx.spec_mode = saved
        return False
    raise OutsideSubset("intrinsic %s" % n)


def _spec_closure(interp, body):
    """call a specification lambda as a formula builder (no forking, no safety obligations)"""
    def f(*idx):
        c = interp.ctx
        c.spec_mode += 1
        try:
            return interp.call_value(body, list(idx), {})
        finally:
            c.spec_mode -= 1
    return f


def _src(node):
    try:
        import ast
        return ast.unparse(node)[:300]
    except Exception:
        return ""


# ----------------------------------------------------------------------------
# loops with invariants

def _assigned_names(stmts):
    import ast
    names = []
    for s in stmts:
        for n in ast.walk(s):
            if isinstance(n, ast.Name) and isinstance(n.ctx, (ast.Store, ast.Del)):
                if n.id not in names:
                    names.append(n.id)
    return names


class SeqView:
    """uniform view of a loop iterable: length + element at symbolic position"""

    def __init__(self, length, at):
        self.length = length
        self.at = at


def as_seq(interp, it):
    if isinstance(it, SeqView):
        return it
    if isinstance(it, SArr):
        return SeqView(it.shape[0], lambda k: it[k] if it.ndim > 1 else it.fn(k))
    if isinstance(it, range):
        return SeqView(len(it), lambda k: it.start + k * it.step)
    if hasattr(it, "__pyvc_seq__"):
        return it.__pyvc_seq__(interp)
    if isinstance(it, (list, tuple)):
        a = to_sarr(list(it))
        return SeqView(len(it), lambda k: a.fn(k))
    raise OutsideSubset("loop invariant over iterable of type %s" % type(it).__name__)


def _inv_env(interp, frame, spec, k, seq):
    env = dict(frame.locals)
    env[spec.get("index", "_k")] = k
    env["_n"] = seq.length
    for name, val in spec.get("ghost_env", {}).items():
        env[name] = val
    return env


def _check_inv(interp, frame, spec, k, seq, tag):
    c = spec["contract"]
    env = _inv_env(interp, frame, spec, k, seq)
    if tag == "inv-init":
        for clause in spec.get("unfold", []):
            if not clause.strip().startswith(("count_def(", "sum_def(")):
                raise OutsideSubset("loop `unfold` hints must be definitional unfoldings, got %r" % clause)
            interp.ctx.assume(interp.registry.eval_clause(interp, clause, c, env))
    for j, clause in enumerate(spec["invariant"]):
        g = interp.registry.eval_clause(interp, clause, c, env)
        interp.ctx.oblige("%s/%s/%d/%d" % (tag, c.short, spec["ordinal"], j), g, clause=clause)


def _assume_inv(interp, frame, spec, k, seq):
    c = spec["contract"]
    env = _inv_env(interp, frame, spec, k, seq)
    for clause in spec["invariant"]:
        interp.ctx.assume(interp.registry.eval_clause(interp, clause, c, env))
    for clause in spec.get("unfold", []):
        # only definitional unfoldings of specification functions may be assumed here
        if not clause.strip().startswith(("count_def(", "sum_def(")):
            raise OutsideSubset("loop `unfold` hints must be definitional unfoldings, got %r" % clause)
        interp.ctx.assume(interp.registry.eval_clause(interp, clause, c, env))


def _havoc(interp, frame, spec, body):
    from .contracts import havoc_like
    mods = spec.get("modifies")
    if mods is None:
        mods = [n for n in _assigned_names(body)]
    for name in mods:
        if "." in name:
            objname, attr = name.split(".", 1)
            obj = frame.lookup(objname)
            setattr(obj, attr, havoc_like(interp.ctx, getattr(obj, attr), name.replace(".", "_")))
            continue
        if name not in frame.locals:
            continue
        cur = frame.locals[name]
        if isinstance(cur, SArr) and spec.get("inplace", True):
            # arrays are mutated in place: keep identity, replace contents
            fresh = havoc_like(interp.ctx, cur, name)
            cur.fn = fresh.fn
        else:
            frame.locals[name] = havoc_like(interp.ctx, cur, name)


def loop_with_invariant(interp, node, frame, it, spec):
    from .interp import ContinueExc, BreakExc
    ctx = interp.ctx
    seq = as_seq(interp, it)
    n = seq.length
    _check_inv(interp, frame, spec, 0, seq, "inv-init")
    which = ctx.choose(2, "loop")
    _havoc(interp, frame, spec, node.body + [_target_stmt(node)])
    if which == 0:
        k = ctx.fresh(spec.get("index", "_k"), "int")
        ctx.assume(z3.And(k.e >= 0, k.e < lift(n)))
        _assume_inv(interp, frame, spec, k, seq)
        interp.assign(node.target, seq.at(k), frame)
        try:
            interp.exec_block(node.body, frame)
        except ContinueExc:
            pass
        except BreakExc:
            raise OutsideSubset("break inside a loop verified by invariant")
        _check_inv(interp, frame, spec, k + 1, seq, "inv-pres")
        ctx.cover("loop-body/%s/%d" % (spec["contract"].short, spec["ordinal"]))
        raise PathEnd()
    _assume_inv(interp, frame, spec, n, seq)
    # closed forms of arrays filled by the loop: proved from the invariant at exit (obligation inv-use), then the
    # array is replaced by its closed form so that later expressions are syntactically the specification's
    for name, lam in spec.get("define_after", {}).items():
        arr = frame.locals[name]
        c = spec["contract"]
        f = interp.registry.eval_clause(interp, lam, c, _inv_env(interp, frame, spec, n, seq))
        fc = _spec_closure(interp, f)
        g = ctx.fresh("g", "int")
        ctx.assume(z3.And(g.e >= 0, g.e < lift(arr.shape[0])))
        ctx.oblige("inv-use/%s/%d/%s" % (c.short, spec["ordinal"], name), arr.fn(g) == fc(g), clause="%s[j] == (%s)(j) after the loop" % (name, lam))
        arr.fn = fc
    # after the loop the target holds the last element if there was one (rarely used)
    interp.exec_block(node.orelse, frame)


def _target_stmt(node):
    import ast
    return ast.Assign(targets=[node.target], value=ast.Constant(value=None))


def while_with_invariant(interp, node, frame, spec):
    from .interp import ContinueExc, BreakExc
    ctx = interp.ctx
    c = spec["contract"]

    def inv_env():
        return dict(frame.locals)

    def check(tag):
        for j, clause in enumerate(spec["invariant"]):
            g = interp.registry.eval_clause(interp, clause, c, inv_env())
            ctx.oblige("%s/%s/%d/%d" % (tag, c.short, spec["ordinal"], j), g, clause=clause)

    def assume_inv():
        for clause in spec["invariant"]:
            ctx.assume(interp.registry.eval_clause(interp, clause, c, inv_env()))
    check("inv-init")
    which = ctx.choose(2, "while")
    _havoc(interp, frame, spec, node.body)
    assume_inv()
    cond = interp.eval(node.test, frame)
    if which == 0:
        if not interp.truth_value(cond):
            raise PathEnd()
        var0 = None
        if spec.get("variant"):
            var0 = interp.registry.eval_clause(interp, spec["variant"], c, inv_env())
        try:
            interp.exec_block(node.body, frame)
        except ContinueExc:
            pass
        except BreakExc:
            raise OutsideSubset("break inside a while loop verified by invariant")
        check("inv-pres")
        if var0 is not None:
            var1 = interp.registry.eval_clause(interp, spec["variant"], c, inv_env())
            ctx.oblige("variant/%s/%d" % (c.short, spec["ordinal"]),
                       mk(z3.And(lift(var0) >= 0, lift(var1) < lift(var0))))
        raise PathEnd()
    if interp.truth_value(cond):
        raise PathEnd()
    interp.exec_block(node.orelse, frame)


# ----------------------------------------------------------------------------
# additional NumPy models (wave 1: em.py)

@model(np.divide, np.true_divide)
def np_divide(interp, a, b):
    return interp.binop(operator.truediv, a, b)


@model(np.multiply)
def np_multiply(interp, a, b):
    return interp.binop(operator.mul, a, b)


@model(np.real)
def np_real(interp, a):
    if is_sym(a) or isinstance(a, fractions.Fraction):
        return a          # symbolic values are real numbers
    return np.real(a)


@model(np.imag)
def np_imag(interp, a):
    if is_sym(a) or isinstance(a, fractions.Fraction):
        return 0
    return np.imag(a)


@model(np.isreal)
def np_isreal(interp, a):
    if is_sym(a) or isinstance(a, fractions.Fraction):
        return True
    return np.isreal(a)


# matrices (C17)
import scipy.linalg as _sl
from . import matrix as _matrix
_MODELS[_sl.inv] = _matrix.inv_model
_MODELS[np.linalg.inv] = _matrix.inv_model


@model(np.hstack, np.concatenate)
def np_hstack(interp, parts, *a, **k):
    if hasattr(parts, "__pyvc_hstack__"):
        return parts.__pyvc_hstack__(interp)
    if isinstance(parts, (list, tuple)):
        return _hstack_general(interp, parts)
    raise OutsideSubset("np.hstack of symbolic parts")


@model(np.arange)
def np_arange(interp, *args, **k):
    if len(args) == 1:
        n = args[0]
        return SArr((n,), lambda i: i, "int")
    if len(args) == 2:
        a, b = args
        ctx = interp.ctx
        if (isinstance(a, Sym) and a.is_real) or (isinstance(b, Sym) and b.is_real) or isinstance(a, fractions.Fraction) \
                or isinstance(b, fractions.Fraction):
            # float arange: ceil(b - a) elements a, a+1, ...   (0 if b <= a)
            n = ctx.fresh("arange_n", "int")
            d = sym.to_real(lift(b)) - sym.to_real(lift(a))
            ctx.assume(z3.If(d > 0, z3.And(z3.ToReal(n.e) - 1 < d, d <= z3.ToReal(n.e)), n.e == 0))
            return SArr((n,), lambda i: a + i, "real")
        n = b - a
        if isinstance(n, Sym):
            n = sym.ite(n > 0, n, 0)
        else:
            n = max(n, 0)
        return SArr((n,), lambda i: a + i, "int")
    raise OutsideSubset("np.arange with symbolic bounds and step")


@model(np.random.shuffle)
def np_random_shuffle(interp, arr):
    """in-place: the new content is the old content re-indexed by SOME bijection of [0,n)
    (the permutation is arbitrary: every one the random generator can draw is covered)"""
    ctx = interp.ctx
    n = arr.shape[0]
    nm = ctx.fresh_name("perm")
    pi = z3.Function(nm, z3.IntSort(), z3.IntSort())
    pinv = z3.Function(nm + "_inv", z3.IntSort(), z3.IntSort())
    q = z3.Int(ctx.fresh_name("q"))
    inr = lambda t: z3.And(t >= 0, t < lift(n))
    ctx.assume(z3.ForAll([q], z3.Implies(inr(q), z3.And(inr(pi(q)), pinv(pi(q)) == q))))
    ctx.assume(z3.ForAll([q], z3.Implies(inr(q), z3.And(inr(pinv(q)), pi(pinv(q)) == q))))
    old = arr.fn
    arr.fn = lambda i: old(Sym(pi(lift(i))))
    # ghost: the inverse permutation (only meaningful when the old content was the identity, i.e. np.arange)
    arr.ghost_inverse = SArr((n,), lambda i: Sym(pinv(lift(i))), "int")
    ctx.ghost.setdefault("permutations", []).append((pi, pinv, n))
    return None


@model(builtins.enumerate)
def py_enumerate(interp, it, start=0):
    if hasattr(it, "__pyvc_enumerate__"):
        return it.__pyvc_enumerate__(interp, start)
    return enumerate(concrete_iter(interp, it), start)


@model(np.column_stack)
def np_column_stack(interp, cols):
    cols = [to_sarr(c) for c in cols]
    cols = [c if isinstance(c, SArr) else SArr((1,), (lambda i, c=c: c), "real") for c in cols]
    n = cols[0].shape[0]
    k = len(cols)

    def fn(i, c):
        if isinstance(c, Sym):
            r = cols[-1].fn(i)
            for j in range(k - 2, -1, -1):
                r = sym.ite(c == j, cols[j].fn(i), r)
            return r
        return cols[c].fn(i)
    return SArr((n, k), fn, "real")


@model(np.zeros, np.ones)
def np_zeros(interp, shape, dtype=float, **k):
    raise OutsideSubset("np.zeros/np.ones with symbolic shape: use np_zeros_model")


def _np_fill(value):
    def f(interp, shape, dtype=float, **k):
        if isinstance(shape, list):
            shape = tuple(shape)
        if shape == ():
            return value
        if not isinstance(shape, tuple):
            shape = (shape,)
        dt = "int" if dtype in (int, np.int64, np.int32, "int") else ("bool" if dtype in (bool, np.bool_) else "real")
        return SArr(shape, lambda *i: value, dt)
    return f


def _np_fill_like(value):
    def f(interp, a, dtype=None, **k):
        if isinstance(a, SArr):
            # (the element type follows the prototype; the engine does not model the truncation a store into an integer
            # array performs -- symbolic prototypes are real arrays, integer ones are the business of the concrete passes)
            return SArr(a.shape, lambda *i: value, a.dtype if dtype is None else "real")
        if isinstance(a, np.ndarray) or isinstance(a, (list, tuple)):
            return (np.zeros_like if value == 0 else np.ones_like)(a, dtype=dtype)
        if is_sym(a):
            return value
        return (np.zeros_like if value == 0 else np.ones_like)(a, dtype=dtype)
    return f


_MODELS[np.zeros_like] = _np_fill_like(0)
_MODELS[np.ones_like] = _np_fill_like(1)
_MODELS[np.zeros_like].__name__ = "np.zeros_like"
_MODELS[np.ones_like].__name__ = "np.ones_like"
_MODELS[np.zeros] = _np_fill(0)
_MODELS[np.ones] = _np_fill(1)
_MODELS[np.zeros].__name__ = "np.zeros"
_MODELS[np.ones].__name__ = "np.ones"


# ----------------------------------------------------------------------------
# if-conversion of  `if c: xs += [e]` / `xs.append(e)`  (avoids 2^n paths when a loop filters a concrete table)
class SCondList:
    """a list whose elements are present under symbolic conditions (order kept)"""
    __pyvc_symbolic__ = True

    def __init__(self, items=()):
        self.items = [(True, v) for v in items]

    def append_cond(self, cond, value):
        self.items.append((cond, value))

    def __pyvc_contains__(self, interp, item):
        terms = []
        for cond, v in self.items:
            if is_sym(v) or is_sym(item):
                eq = sym.truth(v == item)
            else:
                if not (v == item):
                    continue
                eq = z3.BoolVal(True)
            terms.append(z3.And(sym.truth(cond), eq))
        return mk(z3.Or(terms)) if terms else False

    def __pyvc_iter__(self, interp):
        if all(c is True for c, _ in self.items):
            return [v for _, v in self.items]
        raise OutsideSubset("iteration over a conditionally filled list needs a per-element case split")

    def __pyvc_len__(self):
        n = 0
        for cond, _ in self.items:
            n = n + (1 if cond is True else sym.ite(mk(sym.truth(cond)), 1, 0))
        return n


def if_convert_append(interp, node, frame, cond):
    import ast
    if node.orelse or len(node.body) != 1:
        return False
    st = node.body[0]
    target, elts = None, None
    if isinstance(st, ast.AugAssign) and isinstance(st.op, ast.Add) and isinstance(st.target, ast.Name) \
            and isinstance(st.value, ast.List) and len(st.value.elts) == 1:
        target, elt = st.target.id, st.value.elts[0]
    elif isinstance(st, ast.Expr) and isinstance(st.value, ast.Call) and isinstance(st.value.func, ast.Attribute) \
            and st.value.func.attr == "append" and isinstance(st.value.func.value, ast.Name) and len(st.value.args) == 1:
        target, elt = st.value.func.value.id, st.value.args[0]
    else:
        return False
    if target not in frame.locals:
        return False
    cur = frame.locals[target]
    if isinstance(cur, list):
        cur = SCondList(cur)
        frame.locals[target] = cur
    if not isinstance(cur, SCondList):
        return False
    if not isinstance(elt, (ast.Name, ast.Constant, ast.Attribute, ast.Subscript, ast.Tuple)):
        return False
    cur.append_cond(cond, interp.eval(elt, frame))
    interp.trusted_used.add("encoding:if-conversion of a conditional list append")
    return True


# ----------------------------------------------------------------------------
# trapezoid rule, diff, cumsum (C14)
def trapezoid_spec(y, x=None, axis=-1):
    """np.trapezoid(y, x, axis) == sum_k (x[k+1]-x[k]) (y[k]+y[k+1]) / 2   (unit spacing if x is None)"""
    from . import sumtheory
    c = sym.ctx()
    y = to_sarr(y)
    if isinstance(y, SArr) and y.ndim == 1:
        n = y.shape[0]
        yf = y.copy().fn
        if x is None:
            terms = SArr((n - 1,), lambda k: (yf(k) + yf(k + 1)) / 2, "real")
        else:
            x = to_sarr(x)
            xf = x.copy().fn if isinstance(x, SArr) else (lambda k: sym.concrete_select(np.asarray(x), (k,)))
            terms = SArr((n - 1,), lambda k: (xf(k + 1) - xf(k)) * (yf(k) + yf(k + 1)) / 2, "real")
        return sumtheory.ssum(c, terms)
    if isinstance(y, SArr) and y.ndim == 2:
        # along `axis`, independently for every index of the other axis (x: 1-d along that axis, or None)
        count, length, col = _columns(y, axis)
        if isinstance(x, SArr) and x.ndim != 1:
            raise OutsideSubset("trapezoid with an n-d coordinate array")
        return SArr((count,), lambda j: trapezoid_spec(col(j), x, 0), "real")
    raise OutsideSubset("trapezoid of a %s-d symbolic array" % getattr(y, "ndim", "?"))


def _np_trapezoid(interp, y, x=None, dx=1.0, axis=-1):
    if not (deep_sym(y) or deep_sym(x)):
        return np.trapezoid(y, x, dx=dx, axis=axis)
    interp.trusted_used.add("model:np.trapezoid == trapezoid-rule sum (SUM spec function)")
    return trapezoid_spec(y, x, axis)


_np_trapezoid.__name__ = "np.trapezoid"
for _nm in ("trapezoid", "trapz"):
    if hasattr(np, _nm):
        _MODELS[getattr(np, _nm)] = _np_trapezoid


@model(np.diff)
def np_diff(interp, a, *args, **kw):
    a = to_sarr(a)
    f = a.copy().fn
    return SArr((a.shape[0] - 1,), lambda k: f(k + 1) - f(k), a.dtype)


@model(np.cumsum)
def np_cumsum(interp, a, *args, **kw):
    from . import sumtheory
    a = to_sarr(a)
    if a.ndim == 2 and (a.shape[1] == 1 if not isinstance(a.shape[1], Sym) else False):
        a = a.ravel()
    c = interp.ctx if interp is not None else sym.ctx()
    A = sumtheory.materialize(c, a)
    if interp is not None:
        interp.trusted_used.add("model:np.cumsum(a)[k] == SUM(a, k+1)")
    # defining recurrence of the running sum, for every position of this array
    q = z3.Int(c.fresh_name("q"))
    c.assume(z3.And(sumtheory.SUM(A, 0) == 0,
                    z3.ForAll([q], z3.Implies(z3.And(q >= 0, q < lift(a.shape[0])),
                                              sumtheory.SUM(A, q + 1) == sumtheory.SUM(A, q) + A[q]))))
    n_ = lift(a.shape[0])

    def at(k):
        kk = lift(k)
        if getattr(c, "bound_depth", 0) == 0 and sym.ctx() is c:
            # the defining equation of the running sum at the position that is looked at (and at 0): the quantified
            # recurrence above is rarely instantiated by the solver when the array is a lambda term
            for pos in (kk, z3.IntVal(0)):
                ap = z3.substitute_vars(A.body(), pos) if z3.is_quantifier(A) and A.is_lambda() else A[pos]
                c.pc.append(z3.Implies(z3.And(pos >= 0, pos < n_),
                                       sumtheory.SUM(A, z3.simplify(pos + 1)) == sumtheory.SUM(A, pos) + ap))
        return Sym(sumtheory.SUM(A, z3.simplify(kk + 1)))
    return SArr(a.shape, at, "real")


def _hstack_general(interp, parts):
    """np.hstack of scalars and 1-d symbolic arrays"""
    items = []
    for p in parts:
        if isinstance(p, SArr):
            if p.ndim != 1:
                raise OutsideSubset("hstack of n-d symbolic arrays")
            items.append((p.shape[0], p.copy().fn))
        elif isinstance(p, (list, tuple, np.ndarray)):
            arr = np.asarray(p)
            items.append((arr.shape[0], (lambda k, arr=arr: sym.concrete_select(arr, (k,)))))
        else:
            items.append((1, (lambda k, p=p: p)))
    total = 0
    for n, _ in items:
        total = total + n

    def fn(k):
        off = 0
        res = None
        chain = []
        for n, f in items:
            chain.append((off, n, f))
            off = off + n
        res = chain[-1][2](k - chain[-1][0])
        for off_, n_, f_ in reversed(chain[:-1]):
            res = sym.ite(k < off_ + n_, f_(k - off_), res)
        return res
    return SArr((total,), fn, "real")


@model(np.flip)
def np_flip(interp, a, axis=None):
    """np.flip without axis reverses EVERY axis"""
    a = to_sarr(a)
    f = a.copy().fn
    shape = a.shape
    axes = range(a.ndim) if axis is None else ([axis] if isinstance(axis, int) else list(axis))
    axes = [ax % a.ndim for ax in axes]

    def fn(*idx):
        return f(*[(shape[d] - 1 - i) if d in axes else i for d, i in enumerate(idx)])
    return SArr(shape, fn, a.dtype)


class SRange:
    """range(lo, hi) with symbolic bounds"""
    __pyvc_symbolic__ = True

    def __init__(self, lo, hi):
        self.lo, self.hi = lo, hi

    def __pyvc_seq__(self, interp):
        n = self.hi - self.lo
        lo = self.lo
        return SeqView(sym.ite(n > 0, n, 0) if isinstance(n, Sym) else max(n, 0), lambda k: lo + k)

    def __pyvc_iter__(self, interp):
        raise OutsideSubset("loop over a symbolic range needs an invariant")


@model(builtins.range)
def py_range(interp, *args):
    if len(args) == 1:
        return SRange(0, args[0])
    if len(args) == 2:
        return SRange(args[0], args[1])
    raise OutsideSubset("range with symbolic step")


@model(builtins.map)
def py_map(interp, f, *its):
    seqs = [list(concrete_iter(interp, it)) for it in its]
    return [interp.call_value(f, list(args), {}) for args in zip(*seqs)]


def _cmp_model(op):
    def f(interp, a, b):
        return sym.elementwise(lambda x, y: op(x, y), [a, b], "bool")
    return f


for _npf, _op in ((np.less, operator.lt), (np.less_equal, operator.le), (np.greater, operator.gt),
                  (np.greater_equal, operator.ge), (np.equal, operator.eq), (np.not_equal, operator.ne)):
    _MODELS[_npf] = _cmp_model(_op)
    _MODELS[_npf].__name__ = "np." + _npf.__name__


@model(np.hypot)
def np_hypot(interp, a, b):
    return sym.elementwise(lambda x, y: Sym(UF["sqrt"](sym.to_real(lift(x * x + y * y)))), [a, b], "real")


@model(np.size)
def np_size(interp, a, *k):
    if isinstance(a, Sym):
        return 1
    if isinstance(a, SArr):
        return a.size
    return np.size(a, *k)


# ----------------------------------------------------------------------------
# chunked strings, regular expressions, datetimes
import datetime as _datetime
import re as _re
from . import strsym as _strsym
from . import timesym as _timesym

_MODELS[_datetime.datetime] = _timesym.datetime_model
_MODELS[_datetime.timedelta] = _timesym.timedelta_model


def builtin_method_hook(interp, f, args, kwargs):
    """bound builtin methods that need a model when symbolic values are involved"""
    slf = getattr(f, "__self__", None)
    name = getattr(f, "__name__", "")
    if interp.concrete:
        return NOHOOK
    if isinstance(slf, str) and not isinstance(slf, type) and name == "format" and (deep_sym(args) or deep_sym(kwargs)):
        return _strsym.str_format(interp, slf, args, kwargs)
    if isinstance(slf, _re.Pattern) and name in ("match", "fullmatch", "search") and deep_sym(args):
        return _strsym.regex_call(interp, slf, name, *args)
    if isinstance(slf, _timesym.SDateTime) and name in ("strftime", "isoformat"):
        return NOHOOK
    if isinstance(slf, str) and not isinstance(slf, type) and name == "join" and args and deep_sym(list(args[0]) if isinstance(args[0], (list, tuple)) else args[0]):
        parts = list(args[0])
        out = []
        for k, p in enumerate(parts):
            if k:
                out.append(slf)
            out.append(p)
        return _strsym.SStr(out)
    return NOHOOK


@model(builtins.str)
def py_str(interp, x=""):
    if isinstance(x, _strsym.SStr):
        return x
    if isinstance(x, Sym):
        return _strsym.str_of_int(interp, x)
    return str(x)


_old_py_int = py_int


@model(builtins.int)
def py_int2(interp, x=0, *a):
    if isinstance(x, _strsym.SStr):
        return _strsym.int_of(interp, x)
    return _old_py_int(interp, x, *a)


_old_isinstance = py_isinstance


@model(builtins.isinstance)
def py_isinstance2(interp, obj, cls):
    if isinstance(obj, _timesym.SDateTime):
        return isinstance(_datetime.datetime(2000, 1, 1), cls)
    if isinstance(obj, _timesym.STimedelta):
        return isinstance(_datetime.timedelta(0), cls)
    if isinstance(obj, _strsym.SStr):
        return isinstance("", cls)
    return _old_isinstance(interp, obj, cls)


import posixpath as _posixpath
import os as _os


@model(_posixpath.join, _os.path.join)
def posix_join(interp, a, *parts):
    res = a
    for b in parts:
        bs = b.concrete_shape() if isinstance(b, _strsym.SStr) else b
        rs = res.concrete_shape() if isinstance(res, _strsym.SStr) else res
        if bs.startswith("/"):
            res = b
        elif rs == "" or rs.endswith("/"):
            res = res + b
        else:
            res = res + "/" + b
    return res


# ----------------------------------------------------------------------------
# small object arrays (lists of datetimes / timedeltas) as used by FileSet.find_closest
class ObjArr:
    """ndarray of Python objects with a concrete shape; elements may be symbolic datetimes / timedeltas"""
    __pyvc_symbolic__ = True
    __array_priority__ = 5000

    def __init__(self, data):
        self.data = data              # nested lists
        self.shape = np.shape(np.empty(_shape_of_nested(data)))

    def _map(self, f, other=None):
        def rec(x, y=None):
            if isinstance(x, list):
                return [rec(a, (y[i] if isinstance(y, list) else y)) for i, a in enumerate(x)]
            return f(x, y)
        return ObjArr(rec(self.data, other.data if isinstance(other, ObjArr) else other))

    def __sub__(self, o):
        return self._map(lambda a, b: a - b, o)

    def __rsub__(self, o):
        return self._map(lambda a, b: b - a, o)

    def __abs__(self):
        return self._map(lambda a, b: abs(a))

    def __getitem__(self, k):
        r = self.data[k]
        return ObjArr(r) if isinstance(r, list) else r

    def astype(self, t):
        """datetime objects -> datetime64[<unit>]: integer counts of the unit (floored), as NumPy does.  The count is
        taken from a fixed origin that is a whole number of days before the epoch, so differences and order are those of
        the datetime64 values."""
        name = getattr(t, "__name__", str(t))
        if name.startswith(("M8[", "datetime64[")) and len(self.shape) == 2:
            unit = name[name.index("[") + 1:-1]
            per = sym.TIME_UNIT_US[unit]
            if per != int(per) or int(per) < 1:
                raise OutsideSubset("astype(%s) of datetime objects" % name)
            rows = self.data

            def fn(i, j):
                if isinstance(i, Sym) or isinstance(j, Sym):
                    raise OutsideSubset("symbolic index into an array of datetime objects")
                return mk(lift(rows[i][j].us()) / int(per))
            out = SArr(self.shape, fn, "int")
            out.time_unit = unit
            return out
        raise OutsideSubset("astype(%s) of an object array" % name)


def sarr_tolist(arr):
    if any(isinstance(n, Sym) for n in arr.shape):
        raise OutsideSubset("tolist() of a symbolic-shape array")
    if arr.ndim == 1:
        return [arr.fn(i) for i in range(arr.shape[0])]
    if arr.ndim == 2:
        return [[arr.fn(i, j) for j in range(arr.shape[1])] for i in range(arr.shape[0])]
    raise OutsideSubset("tolist() of rank %d" % arr.ndim)


def _shape_of_nested(d):
    s = []
    while isinstance(d, list):
        s.append(len(d))
        d = d[0] if d else None
    return tuple(s)


_old_asarray = np_asarray


@model(np.asarray, np.array)
def np_asarray2(interp, v, *a, **k):
    if isinstance(v, list) and v and all(isinstance(r, (list, tuple)) for r in v) and \
            any(isinstance(x, (_timesym.SDateTime, _timesym.STimedelta)) for r in v for x in r):
        return ObjArr([list(r) for r in v])
    return _old_asarray(interp, v, *a, **k)


def _fork_min(vals):
    """(index, value) of the minimum with first-occurrence tie breaking, forking on symbolic comparisons"""
    bi, bv = 0, vals[0]
    for i in range(1, len(vals)):
        if vals[i] < bv:              # Sym -> bool() forks the path
            bi, bv = i, vals[i]
    return bi, bv


_old_min_model = _MODELS.get(np.min)


@model(np.min, np.amin)
def np_min_obj(interp, a, axis=None, **k):
    if isinstance(a, ObjArr):
        if axis == 1 and len(a.shape) == 2:
            return ObjArr([_fork_min(row)[1] for row in a.data])
        if axis is None and len(a.shape) == 1:
            return _fork_min(a.data)[1]
        raise OutsideSubset("np.min of an object array along axis %r" % (axis,))
    if _old_min_model is not None:
        return _old_min_model(interp, a, axis, **k) if axis is not None else _old_min_model(interp, a, **k)
    return np.min(a, axis=axis, **k)


@model(np.argmin)
def np_argmin_obj(interp, a, axis=None, **k):
    if isinstance(a, ObjArr) and len(a.shape) == 1:
        return _fork_min(a.data)[0]
    if isinstance(a, (list, tuple)) and axis is None and a and all(isinstance(x, (Sym, int, float, fractions.Fraction)) for x in a):
        return _fork_min(list(a))[0]                  # first occurrence of the minimum, forking on the comparisons
    if isinstance(a, SArr) and a.ndim == 1 and not isinstance(a.shape[0], Sym) and axis is None and 0 < a.shape[0] <= 8:
        return _fork_min([a.fn(i) for i in range(a.shape[0])])[0]
    if deep_sym(a):
        raise OutsideSubset("np.argmin of a symbolic array")
    return np.argmin(a, axis=axis, **k)


_old_abs = np_abs


@model(np.abs, np.absolute, builtins.abs)
def np_abs2(interp, x):
    return abs(x)


@model(np.max, np.amax)
def np_max_obj(interp, a, axis=None, **k):
    if isinstance(a, ObjArr):
        neg = a._map(lambda x, y: -x)
        r = np_min_obj(interp, neg, axis)
        return r._map(lambda x, y: -x) if isinstance(r, ObjArr) else -r
    if deep_sym(a):
        raise OutsideSubset("np.max of a symbolic array")
    return np.max(a, axis=axis, **k)


@model(_datetime.datetime.strptime, always=True)
def dt_strptime(interp, s, fmt):
    return _timesym.strptime_model(interp, s, fmt)


# ----------------------------------------------------------------------------
# @contextmanager generators of the analysed code: the body is interpreted in a helper thread that is suspended at
# its `yield` while the with-block runs (strict hand-over: only one of the two threads runs at any time)
import threading as _threading
import queue as _queue
import contextlib as _contextlib


class GenCM:
    __pyvc_symbolic__ = True

    def __init__(self, interp, fn, args, kwargs):
        self.interp, self.fn, self.args, self.kwargs = interp, fn, args, kwargs
        self.to_gen = _queue.Queue()
        self.from_gen = _queue.Queue()
        self.thread = None
        self.done = False

    # -- generator side
    def _run(self):
        from .interp import PyRaise
        interp = self.interp
        self.main_stack = interp.call_stack
        self.gen_stack = ["<contextmanager %s>" % self.fn.__name__]
        interp.call_stack = self.gen_stack
        try:
            interp.cm_stack.append(self)
            try:
                interp.run_function(self.fn, self.args, self.kwargs)
                msg = ("return", None)
            finally:
                interp.cm_stack.remove(self)
        except PyRaise as pr:
            msg = ("raise", pr.exc)
        except BaseException as exc:      # PathEnd, OutsideSubset, engine errors: hand over to the main thread
            msg = ("control", exc)
        interp.call_stack = self.main_stack
        self.from_gen.put(msg)

    def yield_point(self, value):
        """called by the interpreter when the generator body reaches `yield value`"""
        from .interp import PyRaise
        self.interp.call_stack = self.main_stack
        self.from_gen.put(("yield", value))
        kind, payload = self.to_gen.get()
        self.main_stack = self.interp.call_stack
        self.interp.call_stack = self.gen_stack
        if kind == "send":
            return None
        if kind == "throw":
            raise PyRaise(payload)
        raise PathEnd()                   # kill

    def _wait(self):
        kind, payload = self.from_gen.get()
        if kind == "control":
            self.done = True
            raise payload
        return kind, payload

    # -- with-statement side
    def __pyvc_enter__(self, interp):
        from .interp import PyRaise
        self.thread = _threading.Thread(target=self._run, daemon=True)
        interp.ctx.ghost.setdefault("gen_cms", []).append(self)
        self.thread.start()
        kind, payload = self._wait()
        if kind == "yield":
            return payload
        self.done = True
        if kind == "raise":
            raise PyRaise(payload)
        raise PyRaise(RuntimeError("generator didn't yield"))

    def __pyvc_exit__(self, interp, exc):
        from .interp import PyRaise
        if exc is None:
            self.to_gen.put(("send", None))
        else:
            self.to_gen.put(("throw", exc))
        kind, payload = self._wait()
        self.done = True
        if kind == "return":
            if exc is not None:
                return True           # the generator swallowed the exception
            return False
        if kind == "raise":
            if payload is exc:
                return False          # re-raised the same exception: propagate it
            raise PyRaise(payload)
        raise PyRaise(RuntimeError("generator didn't stop"))

    def kill(self):
        if not self.done and self.thread is not None and self.thread.is_alive():
            self.to_gen.put(("kill", None))
            try:
                self.from_gen.get(timeout=5)
            except _queue.Empty:
                pass
            self.done = True


def is_contextmanager_helper(f):
    code = getattr(f, "__code__", None)
    return code is not None and code.co_name == "helper" and code.co_filename.endswith("contextlib.py") \
        and hasattr(f, "__wrapped__")


@model(_posixpath.dirname, _os.path.dirname)
def posix_dirname(interp, p):
    if isinstance(p, _strsym.SStr):
        shape = p.concrete_shape("0")
        i = shape.rfind("/") + 1
        head = p.slice(0, i)
        hs = shape[:i]
        if hs and hs != "/" * len(hs):
            head = head.slice(0, len(hs.rstrip("/")))
        return head
    return _posixpath.dirname(p)


@model(_posixpath.basename, _os.path.basename)
def posix_basename(interp, p):
    if isinstance(p, _strsym.SStr):
        shape = p.concrete_shape("0")
        return p.slice(shape.rfind("/") + 1, None)
    return _posixpath.basename(p)


from . import npmodels as _npmodels      # noqa: E402  (registers further NumPy models)
