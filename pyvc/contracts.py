"""Contract registry, modular application at call sites, and VC generation.

A *contract* belongs to a real function of /repo (looked up by module and
qualified name at load time; its source is re-read from the working tree).
A *theorem* is a small client program written in the contract file; it calls
the real functions, which are replaced by their contracts (modular reasoning),
and states a clause of the property with `ensures`.
"""
import ast
import fractions
import importlib
import inspect
import types

import z3

from . import sym
from .sym import Sym, SArr, OutsideSubset
from .paths import PathEnd


class Kind:
    """how to create a symbolic value of a parameter / result"""

    def __init__(self, tag, **kw):
        self.tag = tag
        self.kw = kw

    def __repr__(self):
        return "Kind(%s)" % self.tag


def make_value(ctx, kind, name):
    """fresh symbolic value of `kind` named `name`"""
    if callable(kind) and not isinstance(kind, Kind):
        return kind(ctx, name)
    if isinstance(kind, tuple) and kind and kind[0] == "tuple":
        return tuple(ctx.fresh("%s_%d" % (name, j), "real") for j in range(kind[1]))
    if isinstance(kind, Kind):
        tag, kw = kind.tag, kind.kw
    elif isinstance(kind, tuple):
        tag, kw = kind[0], dict(zip(("dtype", "ndim"), kind[1:]))
    else:
        tag, kw = kind, {}
    if tag in ("real", "int", "bool"):
        return ctx.fresh(name, tag)
    if tag == "posreal":
        v = ctx.fresh(name, "real")
        ctx.assume(v > 0)
        return v
    if tag == "nat":
        v = ctx.fresh(name, "int")
        ctx.assume(v >= 0)
        return v
    if tag == "arr":
        dtype = kw.get("dtype", "real")
        ndim = kw.get("ndim", 1)
        shape = kw.get("shape")
        if shape is None:
            shape = []
            for d in range(ndim):
                n = ctx.fresh("%s_n%d" % (name, d) if ndim > 1 else "%s_n" % name, "int")
                ctx.assume(n >= kw.get("minlen", 0))
                shape.append(n)
        return fresh_array(ctx, name, tuple(shape), dtype)
    if tag == "mat":
        from .matrix import make_mat
        return make_mat(ctx, name)
    if tag == "const":
        return kw["value"]
    if tag == "posfunc":
        # an arbitrary positive real function of one real argument (e.g. a saturation pressure curve)
        f = z3.Function(ctx.fresh_name(name), z3.RealSort(), z3.RealSort())

        def call(x):
            if isinstance(x, SArr):
                return sym.elementwise(call, [x], "real")
            r = Sym(f(sym.to_real(sym.lift(x))))
            ctx.assume(r > 0)
            return r
        call.__name__ = name
        call.__pyvc_native__ = True
        return call
    raise ValueError("unknown kind %r" % (kind,))


_SORTS = {"real": z3.RealSort(), "int": z3.IntSort(), "bool": z3.BoolSort()}


def fresh_array(ctx, name, shape, dtype="real"):
    nm = ctx.fresh_name(name)
    f = z3.Function(nm, *([z3.IntSort()] * len(shape) + [_SORTS[dtype]]))

    def fn(*idx):
        return Sym(f(*[sym.lift(i) for i in idx]))
    a = SArr(shape, fn, dtype, name=nm)
    a.z3func = f
    return a


def havoc_like(ctx, val, name):
    """fresh value of the same kind as val"""
    if isinstance(val, Sym):
        return ctx.fresh(name, "bool" if val.is_bool else ("int" if val.is_int else "real"))
    if isinstance(val, bool):
        return ctx.fresh(name, "bool")
    if isinstance(val, int):
        return ctx.fresh(name, "int")
    if isinstance(val, float):
        return ctx.fresh(name, "real")
    if isinstance(val, SArr):
        return fresh_array(ctx, name, val.shape, val.dtype)
    import fractions
    if isinstance(val, fractions.Fraction):
        return ctx.fresh(name, "real")
    try:
        import numpy as np
        if isinstance(val, np.ndarray):
            dt = "int" if val.dtype.kind in "iu" else ("bool" if val.dtype.kind == "b" else "real")
            return fresh_array(ctx, name, val.shape, dt)
        if isinstance(val, np.floating):
            return ctx.fresh(name, "real")
        if isinstance(val, np.integer):
            return ctx.fresh(name, "int")
    except ImportError:
        pass
    if hasattr(val, "__pyvc_havoc__"):
        return val.__pyvc_havoc__(ctx, name)
    raise OutsideSubset("cannot havoc %s of type %s" % (name, type(val).__name__))


# ----------------------------------------------------------------------------
class Contract:
    def __init__(self, target, **spec):
        self.target = target
        modname, qual = target.split(":")
        mod = importlib.import_module(modname)
        obj = mod
        owner = None
        for part in qual.split("."):
            owner = obj
            obj = inspect.getattr_static(obj, part) if isinstance(obj, type) else getattr(obj, part)
        self.owner = owner if isinstance(owner, type) else None
        self.raw = obj
        from .interp import unwrap
        self.fn = unwrap(obj)
        w = self.fn
        while hasattr(w, "__wrapped__"):
            w = w.__wrapped__
        self.fn_inner = w
        self.module = mod
        self.qual = qual
        self.params = spec.pop("params", None)
        self.setup = spec.pop("setup", None)
        self.requires = list(spec.pop("requires", []))
        self.ensures = list(spec.pop("ensures", []))
        self.raises = list(spec.pop("raises", []))       # [(cond_str, ExcClass)]
        self.result = spec.pop("result", "real")
        self.pure = spec.pop("pure", True)
        self.elementwise = spec.pop("elementwise", False)
        self.loops = dict(spec.pop("loops", {}))
        self.inline = spec.pop("inline", False)
        self.canaries = list(spec.pop("canaries", []))
        self.frame = spec.pop("frame", None)
        self.property = spec.pop("prop", None)
        self.configs = spec.pop("configs", None)        # list of dicts of concrete param overrides
        self.post_hook = spec.pop("post_hook", None)
        self.hidden = set(spec.pop("hidden", []))       # indices of ensures NOT assumed at call sites unless reveal()ed (opaque/reveal)
        self.lemmas = list(spec.pop("lemmas", []))      # [(lemma name, param names...)] instantiated before the ensures are checked
        self.effects = spec.pop("effects", None)        # callable(interp, env): havoc what the call modifies (before ensures are assumed)
        self.variant = spec.pop("variant", None)
        self.env = spec.pop("env", None)
        if self.env is None:
            self.env = {}
        self.notes = spec.pop("notes", "")
        self.verify_body = spec.pop("verify", True)
        self.trusted = spec.pop("trusted", False)       # assumed contract on something we cannot verify
        if spec:
            raise TypeError("unknown contract fields %s" % list(spec))
        self.uf = None

    @property
    def label(self):
        return "%s:%s" % (self.module.__name__, self.qual)

    @property
    def short(self):
        return self.qual


class Theorem:
    def __init__(self, fn, prop, tid, params):
        self.fn = fn
        fn.__pyvc_thm__ = True
        self.prop = prop
        self.tid = tid
        self.params = params

    @property
    def label(self):
        return "thm/%s/%s" % (self.prop, self.tid)


class Bounded:
    def __init__(self, fn, prop, bid, bound):
        self.fn = fn
        self.prop = prop
        self.bid = bid
        self.bound = bound


class Registry:
    def __init__(self):
        self.contracts = {}     # id(code) -> Contract
        self.by_label = {}
        self.theorems = []
        self.bounded = []
        self.inline_ok = set()
        self.interpreted_constructors = set()   # 'module:Class' whose __init__ is interpreted even for concrete arguments
        self.axioms = {}        # name -> callable(*args) -> z3 formula  (trusted, named)
        self.exact_attrs = {}   # (id(owner), attr) -> exact rational a float-valued constant stands for (A2)

    def add(self, c):
        self.contracts[id(c.fn.__code__)] = c
        if c.fn_inner is not c.fn:
            self.contracts[id(c.fn_inner.__code__)] = c
        self.by_label[c.label] = c
        return c

    def contract_for(self, f):
        from .interp import unwrap
        f = unwrap(f)
        code = getattr(f, "__code__", None)
        if code is None:
            return None
        return self.contracts.get(id(code))

    def may_inline(self, f):
        return ("%s:%s" % (f.__module__, f.__qualname__)) in self.inline_ok

    # -- loops ---------------------------------------------------------------
    def loop_spec(self, frame_label, node):
        c = self.by_label.get(frame_label)
        if c is None or not c.loops:
            return None
        from .interp import FuncSrc
        src = FuncSrc.get(c.fn_inner)
        loops = [n for n in ast.walk(src.node) if isinstance(n, (ast.For, ast.While))]
        loops.sort(key=lambda n: (n.lineno, n.col_offset))
        for i, n in enumerate(loops):
            if n is node:
                spec = c.loops.get(i)
                if spec is not None:
                    spec = dict(spec)
                    spec["ordinal"] = i
                    spec["contract"] = c
                return spec
        return None

    # -- clause evaluation ---------------------------------------------------
    def spec_frame(self, c_or_globals, env):
        from .interp import Frame
        from . import dsl
        if isinstance(c_or_globals, Contract):
            g = dict(c_or_globals.fn_inner.__globals__)
            g.update(c_or_globals.env)
        else:
            g = dict(c_or_globals)
        g.update(dsl.SPEC_GLOBALS)
        g["PI"] = Sym(sym.PI)
        return Frame(dict(env), g, None, "<spec>")

    def eval_clause(self, interp, text, c_or_globals, env):
        """evaluate a clause (string) as a formula under env -> z3 Bool / Python bool"""
        node = _parse_expr(text)
        frame = self.spec_frame(c_or_globals, env)
        ctx = interp.ctx
        ctx.spec_mode += 1
        try:
            v = interp.eval(node, frame)
        finally:
            ctx.spec_mode -= 1
        return v

    # -- modular call ----------------------------------------------------------
    def apply_contract(self, interp, c, f, args, kwargs, node, frame):
        ctx = interp.ctx
        from .interp import PyRaise
        sig = inspect.signature(c.fn_inner)
        try:
            b = sig.bind(*args, **kwargs)
        except TypeError as exc:
            raise PyRaise(exc)
        b.apply_defaults()
        env = dict(b.arguments)
        caller = interp.call_stack[-1] if interp.call_stack else (frame.label if frame else "?")
        caller = caller.split(":")[-1]
        interp.contracts_used.add(c.label)
        if c.elementwise and any(isinstance(v, SArr) for v in env.values()):
            return self._apply_elementwise(interp, c, env, caller)
        return self._apply_scalar(interp, c, env, caller)

    def _apply_scalar(self, interp, c, env, caller, check_pre=True):
        ctx = interp.ctx
        from .interp import PyRaise
        if not ctx.spec_mode and check_pre:
            for k, r in enumerate(c.requires):
                g = self.eval_clause(interp, r, c, env)
                ctx.oblige("pre/%s->%s/%d" % (caller, c.short, k), g, clause=r)
            pre = None
        else:
            pre = z3.And([sym.truth(self.eval_clause(interp, r, c, env)) for r in c.requires]) \
                if c.requires else z3.BoolVal(True)
        # termination of recursion: the variant decreases at a recursive call of the function being verified
        if c.variant and ctx.ghost.get("verifying") is c and not ctx.spec_mode and "variant0" in ctx.ghost:
            v = self.eval_clause(interp, c.variant, c, env)
            v0 = ctx.ghost["variant0"]
            ctx.oblige("variant/%s" % c.short, z3.And(sym.lift(v) >= 0, sym.lift(v) < sym.lift(v0)),
                       clause="variant %s decreases at the recursive call" % c.variant)
        # exceptional behaviour
        if c.raises and not ctx.spec_mode:
            for cond, exc in c.raises:
                g = self.eval_clause(interp, cond, c, env)
                if ctx.branch(sym.truth(g)):
                    raise PyRaise(exc("raised per contract of %s" % c.short))
        if c.effects is not None and not ctx.spec_mode:
            c.effects(interp, env)
        res = self.fresh_result(interp, c, env)
        if getattr(ctx, "bound_depth", 0) > 0:
            # under a binder: the instance would mention bound variables; rely on the quantified contract axiom
            self.ensure_axiom(interp, c)
            return res
        env2 = dict(env)
        env2["result"] = res
        revealed = c.label in ctx.ghost.get("revealed", ())
        for j, e in enumerate(c.ensures):
            if j in c.hidden and not revealed:
                continue
            if "_locals" in e:
                continue          # a proof step about the callee's own locals: not part of its interface
            g = sym.truth(self.eval_clause(interp, e, c, env2))
            if pre is not None:
                g = z3.Implies(pre, g)
            ctx.assume(g)
        if c.post_hook is not None:
            c.post_hook(interp, env2)
        return res

    def _apply_elementwise(self, interp, c, env, caller):
        """pointwise application of a scalar contract to array arguments"""
        arrs = [v for v in env.values() if isinstance(v, SArr)]
        shape = sym.broadcast_shapes([a.shape for a in arrs])
        nd = len(shape)
        ctx = interp.ctx
        if not ctx.spec_mode:
            # precondition at a generic index
            k = interp.models.generic_index_shape(interp, shape)
            envk = {n: sym.index_into(v, k, nd) for n, v in env.items()}
            for j, r in enumerate(c.requires):
                g = self.eval_clause(interp, r, c, envk)
                ctx.oblige("pre/%s->%s/%d" % (caller, c.short, j), g, clause=r)
        if c.raises and not ctx.spec_mode:
            from .interp import PyRaise
            for cond, exc in c.raises:
                def cfn(*idx, cond=cond):
                    envi = {n: sym.index_into(v, idx, nd) for n, v in env.items()}
                    return self.eval_clause(interp, cond, c, envi)
                some = interp.models.np_any(SArr(shape, cfn, "bool"))
                if ctx.branch(sym.truth(some)):
                    raise PyRaise(exc("raised per contract of %s" % c.short))
        memo = {}
        self.ensure_axiom(interp, c)

        def fn(*idx):
            key = tuple(str(sym.lift(i)) for i in idx) + (getattr(ctx, "bound_depth", 0) > 0,)
            if key not in memo:
                envi = {n: sym.index_into(v, idx, nd) for n, v in env.items()}
                memo[key] = self._apply_scalar(interp, c, envi, caller, check_pre=False)
            return memo[key]
        if isinstance(c.result, tuple) and c.result[0] == "tuple":
            return tuple(SArr(shape, (lambda *idx, j=j: fn(*idx)[j]), "real") for j in range(c.result[1]))
        return SArr(shape, fn, "real")

    def ensure_axiom(self, interp, c):
        """forall xs. requires(xs) => ensures(F(xs), xs): the contract of a pure scalar function as a
        quantified fact about its uninterpreted symbol(s) (needed when applications occur under binders)"""
        ctx = interp.ctx
        done = ctx.ghost.setdefault("axioms_added", set())
        is_tuple = isinstance(c.result, tuple) and c.result[0] == "tuple"
        if c.label in done or not c.pure or not (is_tuple or (isinstance(c.result, str) and c.result in ("real", "int", "bool"))):
            return
        sig = inspect.signature(c.fn_inner)
        names = [n for n in sig.parameters]
        if c.params is not None and any(not isinstance(c.params.get(n, "real"), str) for n in names):
            return
        done.add(c.label)
        xs = [z3.Real(ctx.fresh_name("cx_%s" % n)) for n in names]
        env = {n: Sym(x) for n, x in zip(names, xs)}
        res = self.fresh_result(interp, c, env)
        saved = ctx.pc
        ctx.pc = []
        ctx.spec_mode += 1
        ctx.bound_depth = getattr(ctx, "bound_depth", 0) + 1
        try:
            pre = [sym.truth(self.eval_clause(interp, r, c, env)) for r in c.requires]
            pre += [z3.Not(sym.truth(self.eval_clause(interp, cond, c, env))) for cond, _ in c.raises]
            env2 = dict(env)
            env2["result"] = res
            revealed = c.label in ctx.ghost.get("revealed", ())
            post = [sym.truth(self.eval_clause(interp, e, c, env2)) for j, e in enumerate(c.ensures) if "_locals" not in e
                    if revealed or j not in c.hidden]
            side = ctx.pc
        finally:
            ctx.pc = saved
            ctx.spec_mode -= 1
            ctx.bound_depth -= 1
        body = z3.Implies(z3.And(pre) if pre else z3.BoolVal(True), z3.And(side + post) if (side + post) else z3.BoolVal(True))
        from . import solve
        inst = solve.analytic_instances([body])
        ctx.assume(z3.ForAll(xs, z3.And(inst + [body]) if inst else body))

    def fresh_result(self, interp, c, env):
        ctx = interp.ctx
        kind = c.result
        if callable(kind) and not isinstance(kind, Kind):
            return kind(ctx, env)
        if c.pure and isinstance(kind, tuple) and kind[0] == "tuple":
            vals = list(env.values())
            if all(isinstance(v, (Sym, int, float, bool, fractions.Fraction)) or _is_np_scalar(v) for v in vals):
                if not isinstance(c.uf, list):
                    c.uf = [z3.Function("F_%s_%d" % (c.short.replace(".", "_"), j),
                                        *([z3.RealSort()] * len(vals) + [z3.RealSort()])) for j in range(kind[1])]
                return tuple(Sym(f(*[sym.to_real(sym.lift(v)) for v in vals])) for f in c.uf)
            return tuple(ctx.fresh("ret_%s_%d" % (c.short, j), "real") for j in range(kind[1]))
        if c.pure and kind in ("real", "int", "bool"):
            vals = list(env.values())
            if all(isinstance(v, (Sym, int, float, bool, fractions.Fraction)) or _is_np_scalar(v) for v in vals):
                if c.uf is None or c.uf.arity() != len(vals):
                    c.uf = z3.Function("F_" + c.short.replace(".", "_"),
                                       *([z3.RealSort()] * len(vals) + [_SORTS[kind]]))
                return Sym(c.uf(*[sym.to_real(sym.lift(v)) for v in vals]))
        return make_value(ctx, kind, "ret_" + c.short.replace(".", "_"))


def _is_np_scalar(v):
    try:
        import numpy as np
        return isinstance(v, (np.floating, np.integer, np.bool_))
    except ImportError:
        return False


_EXPR_CACHE = {}


def _parse_expr(text):
    if text not in _EXPR_CACHE:
        _EXPR_CACHE[text] = ast.parse(text.strip(), mode="eval").body
    return _EXPR_CACHE[text]


REG = Registry()


def contract(target, **spec):
    return REG.add(Contract(target, **spec))


def theorem(prop, tid, **params):
    def deco(fn):
        REG.theorems.append(Theorem(fn, prop, tid, params))
        return fn
    return deco


def bounded(prop, bid, bound):
    """registers a bounded stand-in check (never counted as proved)"""
    def deco(fn):
        REG.bounded.append(Bounded(fn, prop, bid, bound))
        return fn
    return deco


def lemma_axiom(name):
    """registers a named trusted axiom schema: fn(*z3 args) -> z3 Bool"""
    def deco(fn):
        REG.axioms[name] = fn
        return fn
    return deco
