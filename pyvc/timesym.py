"""Symbolic datetime / timedelta values.

A datetime is seven integer fields with the validity constraints of Python's
datetime; ordering and arithmetic go through the proleptic-Gregorian ordinal,
given by its closed form (integer arithmetic with div by constants -- no
uninterpreted calendar functions).  The closed forms are validated against
CPython exhaustively (all 3 652 059 days of years 1..9999) by
`validate_calendar` (A5): quick tier = every day of 400 sampled years, thorough =
all years.
"""
import datetime as _dt

import z3

from . import sym
from .sym import Sym, lift, mk, OutsideSubset

DAY_US = 86400 * 10**6


def _i(v):
    e = lift(v)
    if z3.is_real(e):
        raise OutsideSubset("real-valued datetime field")
    return e


# The year part of the calendar is ABSTRACT for symbolic years: YD(y) = days before 1 January of year y and LEAP(y)
# are uninterpreted; the only facts used are  YD(y+1) == YD(y) + 365 + [LEAP(y)]  and, for two years that are
# compared, y1 < y2 => YD(y1+1) <= YD(y2).  Proofs therefore hold for ANY leap-year rule with 365/366-day years, in
# particular the Gregorian one (whose closed form is used for concrete years and is validated against CPython, A5).
_YD = z3.Function("YD", z3.IntSort(), z3.IntSort())
_LEAP = z3.Function("LEAP", z3.IntSort(), z3.BoolSort())


def _py_leap(y):
    return (y % 4 == 0 and y % 100 != 0) or y % 400 == 0


def _py_dby(y):
    y1 = y - 1
    return y1 * 365 + y1 // 4 - y1 // 100 + y1 // 400


def is_leap(y):
    y = z3.simplify(_i(y))
    if z3.is_int_value(y):
        return z3.BoolVal(_py_leap(y.as_long()))
    return _LEAP(y)


def days_before_year(y):
    """ordinal of 31 Dec of year y-1 (date(y,1,1).toordinal() - 1)"""
    y = z3.simplify(_i(y))
    if z3.is_int_value(y):
        return z3.IntVal(_py_dby(y.as_long()))
    _year_fact(y)
    return _YD(y)


def _year_fact(y):
    """YD(y+1) == YD(y) + 365 + [LEAP(y)], once per path and year term"""
    c = sym._CTX[0]
    if c is None:
        return
    seen = c.ghost.setdefault("yd_facts", set())
    k = y.sexpr()
    if k in seen:
        return
    if not seen:
        # the uninterpreted year functions agree with the real calendar at the ends of datetime's range
        for yy in (1, 2, 9999, 10000):
            c.pc.append(_YD(yy) == _py_dby(yy))
            c.pc.append(_LEAP(yy) == _py_leap(yy))
    seen.add(k)
    nxt = z3.simplify(y + 1)
    c.pc.append(_YD(nxt) == _YD(y) + 365 + z3.If(_LEAP(y), 1, 0))
    # anchor to the real calendar at both ends of the supported range
    c.pc.append(z3.Implies(y >= 1, _YD(y) >= 365 * (y - 1)))
    c.pc.append(z3.Implies(z3.And(y >= 1, y <= 9999), z3.And(_YD(y) >= _py_dby(1) + 365 * (y - 1), _YD(y) <= _py_dby(9999) - 365 * (9999 - y))))


_CUM = [0, 31, 59, 90, 120, 151, 181, 212, 243, 273, 304, 334]   # days before month m in a non-leap year
_DIM = [31, 28, 31, 30, 31, 30, 31, 31, 30, 31, 30, 31]


def days_before_month(y, m):
    m = _i(m)
    base = z3.IntVal(_CUM[11])
    for k in range(10, -1, -1):
        base = z3.If(m == k + 1, z3.IntVal(_CUM[k]), base)
    return base + z3.If(z3.And(m > 2, is_leap(y)), 1, 0)


def days_in_month(y, m):
    m = _i(m)
    base = z3.IntVal(31)
    for k in range(10, -1, -1):
        base = z3.If(m == k + 1, z3.IntVal(_DIM[k]), base)
    return z3.If(z3.And(m == 2, is_leap(y)), 29, base)


def ordinal(y, m, d):
    return days_before_year(y) + days_before_month(y, m) + _i(d)


def valid_fields(y, m, d, H=0, M=0, S=0, us=0):
    y, m, d, H, M, S, us = [_i(v) for v in (y, m, d, H, M, S, us)]
    return z3.And(y >= 1, y <= 9999, m >= 1, m <= 12, d >= 1, d <= days_in_month(y, m),
                  H >= 0, H < 24, M >= 0, M < 60, S >= 0, S < 60, us >= 0, us < 10**6)


class SDateTime:
    """symbolic datetime.datetime"""
    __pyvc_symbolic__ = True
    __hash__ = None
    FIELDS = ("year", "month", "day", "hour", "minute", "second", "microsecond")

    def __init__(self, year, month, day, hour=0, minute=0, second=0, microsecond=0):
        self.year, self.month, self.day = year, month, day
        self.hour, self.minute, self.second, self.microsecond = hour, minute, second, microsecond

    def fields(self):
        return tuple(getattr(self, f) for f in self.FIELDS)

    def ord(self):
        return ordinal(self.year, self.month, self.day)

    def us(self):
        """microseconds since 0001-01-01 minus one day (a strictly monotone integer image)"""
        tod = ((_i(self.hour) * 60 + _i(self.minute)) * 60 + _i(self.second)) * 10**6 + _i(self.microsecond)
        return self.ord() * DAY_US + tod

    def _cmp(self, o, op):
        if isinstance(o, _dt.datetime):
            o = from_concrete(o)
        if not isinstance(o, SDateTime):
            return NotImplemented
        _relate_years(self, o)
        return mk(op(self.us(), o.us()))

    def __lt__(self, o):
        return self._cmp(o, lambda a, b: a < b)

    def __le__(self, o):
        return self._cmp(o, lambda a, b: a <= b)

    def __gt__(self, o):
        return self._cmp(o, lambda a, b: a > b)

    def __ge__(self, o):
        return self._cmp(o, lambda a, b: a >= b)

    def __eq__(self, o):
        if o is None:
            return False
        if isinstance(o, _dt.datetime):
            o = from_concrete(o)
        if not isinstance(o, SDateTime):
            return False
        # both are valid datetimes; the microsecond count is injective on valid datetimes (A5, validated), so
        # equality of all fields is equality of the counts
        _relate_years(self, o)
        c = sym._CTX[0]
        if c is not None and not all(isinstance(f, int) for f in self.fields() + o.fields()):
            fields_eq = z3.And([lift(a) == lift(b) for a, b in zip(self.fields(), o.fields())])
            c.pc.append(z3.Implies(self.us() == o.us(), fields_eq))      # injectivity instance (A5)
        return mk(self.us() == o.us())

    def __ne__(self, o):
        r = self.__eq__(o)
        if isinstance(r, Sym):
            return mk(z3.Not(r.e))
        return not r

    def __sub__(self, o):
        if isinstance(o, _dt.datetime):
            o = from_concrete(o)
        if isinstance(o, SDateTime):
            _relate_years(self, o)
            return STimedelta(Sym(self.us() - o.us()))
        if isinstance(o, (_dt.timedelta, STimedelta)):
            return add_timedelta(self, -td_us(o))
        return NotImplemented

    def __add__(self, o):
        if isinstance(o, (_dt.timedelta, STimedelta)):
            return add_timedelta(self, td_us(o))
        return NotImplemented

    __radd__ = __add__

    def __rsub__(self, o):
        if isinstance(o, _dt.datetime):
            return from_concrete(o) - self
        return NotImplemented

    def strftime(self, fmt):
        from . import interp as _interp
        return strftime_model(None, self, fmt)

    def isoformat(self, sep="T", timespec="auto"):
        return isoformat_model(None, self, sep, timespec)

    def replace(self, **kw):
        vals = {f: kw.get(f, getattr(self, f)) for f in self.FIELDS}
        new = SDateTime(**vals)
        ctx = sym.ctx()
        # datetime.replace raises ValueError if the result is not a valid date (e.g. day=31 in a 30-day month)
        ok = valid_fields(*new.fields())
        if not ctx.branch(ok):
            from .interp import PyRaise
            raise PyRaise(ValueError("day is out of range for month"))
        return new

    def __repr__(self):
        return "SDateTime(%s)" % ", ".join(str(f) for f in self.fields())


class STimedelta:
    __pyvc_symbolic__ = True
    __hash__ = None

    def __init__(self, us):
        self.total_us = us

    @property
    def days(self):
        return mk(_i(self.total_us) / DAY_US)          # floor, like timedelta normalisation

    @property
    def seconds(self):
        return mk((_i(self.total_us) % DAY_US) / 10**6)

    @property
    def microseconds(self):
        return mk(_i(self.total_us) % 10**6)

    def total_seconds(self):
        return Sym(z3.ToReal(_i(self.total_us)) / 10**6)

    def __rsub__(self, o):
        if isinstance(o, _dt.datetime):
            return from_concrete(o) - self
        return NotImplemented

    def __floordiv__(self, o):
        """timedelta // timedelta -> int (floor); timedelta // int -> timedelta"""
        if isinstance(o, (STimedelta, _dt.timedelta)):
            d = td_us(o)
            if isinstance(d, int) and d > 0:
                return mk(_i(self.total_us) / d)
            raise OutsideSubset("timedelta // symbolic timedelta")
        if isinstance(o, int) and not isinstance(o, bool) and o > 0:
            return STimedelta(mk(_i(self.total_us) / o))
        return NotImplemented

    def _cmp(self, o, op):
        return mk(op(_i(self.total_us), _i(td_us(o))))

    def __lt__(self, o):
        return self._cmp(o, lambda a, b: a < b)

    def __le__(self, o):
        return self._cmp(o, lambda a, b: a <= b)

    def __gt__(self, o):
        return self._cmp(o, lambda a, b: a > b)

    def __ge__(self, o):
        return self._cmp(o, lambda a, b: a >= b)

    def __eq__(self, o):
        if not isinstance(o, (STimedelta, _dt.timedelta)):
            return False
        return self._cmp(o, lambda a, b: a == b)

    def __add__(self, o):
        if isinstance(o, _dt.datetime):
            o = from_concrete(o)
        if isinstance(o, SDateTime):
            return add_timedelta(o, self.total_us)
        return STimedelta(self.total_us + td_us(o))

    __radd__ = __add__

    def __sub__(self, o):
        return STimedelta(self.total_us - td_us(o))

    def __neg__(self):
        return STimedelta(-self.total_us)

    def __abs__(self):
        return STimedelta(abs(self.total_us))


def _relate_years(a, b):
    """adds the (validated, A5) year-length facts for the years of two datetimes that are being compared"""
    if isinstance(a.year, int) and isinstance(b.year, int):
        return
    c = sym.ctx()
    key = (str(lift(a.year)), str(lift(b.year)))
    seen = c.ghost.setdefault("year_facts", set())
    if key in seen or key[0] == key[1]:
        return
    seen.add(key)
    c.assume(calendar_facts(a.year, b.year))


def td_us(td):
    if isinstance(td, STimedelta):
        return td.total_us
    if isinstance(td, _dt.timedelta):
        return (td.days * 86400 + td.seconds) * 10**6 + td.microseconds
    raise OutsideSubset("not a timedelta: %r" % (td,))


def from_concrete(d):
    return SDateTime(d.year, d.month, d.day, d.hour, d.minute, d.second, d.microsecond)


def fresh_datetime(ctx, name, resolution=None):
    """an arbitrary valid datetime; resolution: finest non-zero field ('day', 'hour', 'minute', 'second', 'millisecond', None)"""
    f = {k: ctx.fresh("%s_%s" % (name, k), "int") for k in SDateTime.FIELDS}
    order = ["year", "month", "day", "hour", "minute", "second", "millisecond", None]
    if resolution is not None:
        idx = order.index(resolution)
        for k in SDateTime.FIELDS[idx + 1:] if resolution != "millisecond" else ():
            f[k] = 0
    d = SDateTime(**f)
    ctx.assume(valid_fields(*d.fields()))
    if resolution == "millisecond":
        ms = ctx.fresh("%s_ms" % name, "int")
        ctx.assume(z3.And(ms.e >= 0, ms.e < 1000))
        d.microsecond = ms * 1000
    return d


def add_timedelta(d, us):
    """d + timedelta: the unique valid datetime with the shifted microsecond count (OverflowError outside years 1..9999)"""
    ctx = sym.ctx()
    us = _i(us)
    if z3.is_int_value(z3.simplify(us)) and z3.simplify(us).as_long() == 0:
        return d
    if ctx.spec_mode:
        raise OutsideSubset("datetime + timedelta inside a specification formula: compare differences instead (e - s < timedelta(...))")
    target = d.us() + us
    # datetime + timedelta is a function of its operands: the same sum is the same datetime (memoised per path)
    memo = ctx.ghost.setdefault("dt_add_memo", {})
    mkey = z3.simplify(target).sexpr()
    if mkey in memo:
        return memo[mkey]
    n = ctx.fresh_name("dt")
    f = [ctx.fresh("%s_%s" % (n, k), "int") for k in SDateTime.FIELDS]
    new = SDateTime(*f)
    lo = ordinal(1, 1, 1) * DAY_US
    hi = (ordinal(9999, 12, 31) + 1) * DAY_US
    in_range = z3.And(target >= lo, target < hi)
    if not ctx.branch(in_range):
        from .interp import PyRaise
        raise PyRaise(OverflowError("date value out of range"))
    ctx.assume(z3.And(valid_fields(*new.fields()), new.us() == target))
    ctx.assume(calendar_facts(d.year, new.year))
    memo[mkey] = new
    return new


def calendar_facts(y1, y2):
    """year-length facts relating two years (A5): the first days of different years are at least a year apart"""
    y1, y2 = z3.simplify(_i(y1)), z3.simplify(_i(y2))
    d = days_before_year

    def nxt(y):
        return d(z3.simplify(y + 1))
    return z3.And(z3.Implies(y1 < y2, nxt(y1) <= d(y2)), z3.Implies(y2 < y1, nxt(y2) <= d(y1)),
                  nxt(y1) == d(y1) + 365 + z3.If(is_leap(y1), 1, 0), nxt(y2) == d(y2) + 365 + z3.If(is_leap(y2), 1, 0))


def datetime_model(interp, *args, **kwargs):
    """datetime(year, month, day, hour=0, ...) with symbolic fields: ValueError unless the fields form a valid date"""
    names = list(SDateTime.FIELDS)
    vals = dict(zip(names, args))
    for k, v in kwargs.items():
        if k not in names or k in vals:
            from .interp import PyRaise
            raise PyRaise(TypeError("datetime() got an unexpected / repeated keyword argument %r" % k))
        vals[k] = v
    for req in ("year", "month", "day"):
        if req not in vals:
            from .interp import PyRaise
            raise PyRaise(TypeError("function missing required argument '%s'" % req))
    d = SDateTime(**{k: vals.get(k, 0) for k in names})
    ok = valid_fields(*d.fields())
    if not interp.ctx.branch(ok):
        from .interp import PyRaise
        raise PyRaise(ValueError("field out of range for datetime"))
    return d


datetime_model.__name__ = "datetime(...) constructor"


def timedelta_model(interp, days=0, seconds=0, microseconds=0, milliseconds=0, minutes=0, hours=0, weeks=0):
    tot = ((((weeks * 7 + days) * 24 + hours) * 60 + minutes) * 60 + seconds) * 10**6 + milliseconds * 1000 + microseconds
    return STimedelta(tot)


timedelta_model.__name__ = "timedelta(...) constructor"


def concretize(d, value_of):
    """SDateTime -> datetime under a model (value_of: z3 expr -> int)"""
    vals = [v if isinstance(v, int) else value_of(lift(v)) for v in d.fields()]
    return _dt.datetime(*vals)


# ----------------------------------------------------------------------------
def validate_calendar(tier="quick", seed=0):
    """checks the closed forms against CPython; returns dict(evaluations, failures)"""
    import random

    py_leap, py_dby = _py_leap, _py_dby
    years = range(1, 10000) if tier == "thorough" else \
        sorted(set(random.Random(seed).sample(range(1, 10000), 380)) | {1, 4, 100, 400, 1900, 1964, 1965, 2000, 2024, 2064, 2065, 2100, 9999})
    evals, failures = 0, []
    for y in years:
        leap = py_leap(y)
        if py_dby(y + 1) != py_dby(y) + 365 + (1 if leap else 0):
            failures.append(("year-length", y))
        for m in range(1, 13):
            dim = 29 if (m == 2 and leap) else _DIM[m - 1]
            import calendar
            if calendar.monthrange(y, m)[1] != dim:
                failures.append(("dim", y, m))
            cum = _CUM[m - 1] + (1 if (m > 2 and leap) else 0)
            for d in (range(1, dim + 1)):
                evals += 1
                n = py_dby(y) + cum + d
                if n != _dt.date(y, m, d).toordinal():
                    failures.append(("ordinal", y, m, d))
                # injectivity: consecutive calendar days have consecutive ordinals
                if not (m == 12 and d == 31) and (d < dim) and n + 1 != py_dby(y) + cum + d + 1:
                    failures.append(("consecutive", y, m, d))
    return {"evaluations": evals, "failures": failures[:5], "years": len(years), "exhaustive": tier == "thorough"}


def exact_calendar(formulas):
    """replace the abstract year functions by the Gregorian closed forms (used to confirm or refute a `sat` answer
    obtained under the abstraction, which may be an artefact of it)"""
    y = z3.Int("y!cal")
    y1 = y - 1
    yd_body = y1 * 365 + y1 / 4 - y1 / 100 + y1 / 400
    leap_body = z3.Or(z3.And(y % 4 == 0, y % 100 != 0), y % 400 == 0)
    out = []
    for f in formulas:
        g = z3.substitute_funs(f, (_YD, z3.substitute(yd_body, (y, z3.Var(0, z3.IntSort())))),
                               (_LEAP, z3.substitute(leap_body, (y, z3.Var(0, z3.IntSort())))))
        out.append(g)
    return out


# ----------------------------------------------------------------------------
# text forms of datetimes (strftime / strptime / isoformat) on chunked strings
def _fmt_pieces(fmt):
    i, out = 0, []
    while i < len(fmt):
        if fmt[i] == "%" and i + 1 < len(fmt):
            out.append(("%", fmt[i + 1]))
            i += 2
        else:
            out.append(("lit", fmt[i]))
            i += 1
    return out


def strftime_model(interp, d, fmt):
    """datetime.strftime for the directives Y m d H M S f j y.
    %Y is NOT zero padded by this platform's C library for years below 1000 (checked by the bounded tier)."""
    from .strsym import SStr, Num, str_of_int
    from . import sym as _sym
    parts = []
    for kind, ch in _fmt_pieces(fmt):
        if kind == "lit":
            parts.append(ch)
            continue
        if ch == "Y":
            y = d.year
            if isinstance(y, int):
                parts.append(str(y))
            else:
                # number of digits of the year: a case split (1..4 digits)
                if y >= 1000:
                    parts.append(Num(y, 4))
                elif y >= 100:
                    parts.append(Num(y, 3))
                elif y >= 10:
                    parts.append(Num(y, 2))
                else:
                    parts.append(Num(y, 1))
        elif ch in "mdHMS":
            v = {"m": d.month, "d": d.day, "H": d.hour, "M": d.minute, "S": d.second}[ch]
            parts.append("%02d" % v if isinstance(v, int) else Num(v, 2))
        elif ch == "f":
            v = d.microsecond
            parts.append("%06d" % v if isinstance(v, int) else Num(v, 6))
        elif ch == "%":
            parts.append("%")
        else:
            raise OutsideSubset("strftime directive %%%s" % ch)
    return SStr(parts)


def isoformat_model(interp, d, sep="T", timespec="auto"):
    from .strsym import SStr, Num
    if timespec != "microseconds":
        raise OutsideSubset("isoformat(timespec=%r) of a symbolic datetime" % timespec)

    def n(v, w):
        return ("%0*d" % (w, v)) if isinstance(v, int) else Num(v, w)
    return SStr([n(d.year, 4), "-", n(d.month, 2), "-", n(d.day, 2), sep, n(d.hour, 2), ":", n(d.minute, 2), ":", n(d.second, 2),
                 ".", n(d.microsecond, 6)])


def strptime_model(interp, s, fmt):
    """datetime.strptime for the directives Y m d H M S f and literals, read off the fixed-width structure of the
    chunked string: %Y takes exactly four digits, the two-digit fields must lie in their ranges, %f takes 1..6 digits;
    anything else is the ValueError CPython raises (its regular expressions are \\d\\d\\d\\d, 1[0-2]|0[1-9]|[1-9], ...)."""
    from .strsym import SStr, int_of
    from .interp import PyRaise
    if not isinstance(s, SStr):
        return interp.native(_dt.datetime.strptime, s, fmt)
    ctx = interp.ctx
    shape = s.concrete_shape("0")
    digit_at = [False] * len(shape)
    p = 0
    for a, b, c in s.positions():
        for q in range(a, b):
            digit_at[q] = (not isinstance(c, str)) or shape[q].isdigit()
    pos = 0
    vals = {}

    def bad():
        raise PyRaise(ValueError("time data does not match format %r" % fmt))

    def take(width_min, width_max):
        nonlocal pos
        w = 0
        while w < width_max and pos + w < len(shape) and digit_at[pos + w]:
            w += 1
        if w < width_min:
            bad()
        part = s.slice(pos, pos + w)
        pos += w
        return int_of(interp, part), w
    ranges = {"m": (1, 12, "month"), "d": (1, 31, "day"), "H": (0, 23, "hour"), "M": (0, 59, "minute"), "S": (0, 61, "second")}
    for kind, ch in _fmt_pieces(fmt):
        if kind == "lit":
            lit = s.slice(pos, pos + 1)
            if pos >= len(shape) or not (len(lit.chunks) == 1 and lit.chunks[0] == ch):
                bad()
            pos += 1
        elif ch == "Y":
            v, w = take(4, 4)
            vals["year"] = v
        elif ch in ranges:
            lo, hi, name = ranges[ch]
            v, w = take(1, 2)
            ok = (v >= lo) & (v <= hi) if isinstance(v, Sym) else (lo <= v <= hi)
            if not (ctx.branch(sym.truth(ok)) if isinstance(ok, Sym) else ok):
                bad()
            vals[name] = v
        elif ch == "f":
            v, w = take(1, 6)
            vals["microsecond"] = v * (10 ** (6 - w))
        else:
            raise OutsideSubset("strptime directive %%%s" % ch)
    if pos != len(shape):
        bad()          # unconverted data remains
    vals.setdefault("year", 1900)
    vals.setdefault("month", 1)
    vals.setdefault("day", 1)
    return datetime_model(interp, **vals)
