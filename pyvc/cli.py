"""vcheck command line:  run <prop> [--tier quick|thorough]  |  replay <file>  |  ledger <prop>  |  list"""
import argparse
import fnmatch
import glob
import hashlib
import json
import os
import random
import sys
import time
import traceback

HERE = os.path.dirname(os.path.dirname(os.path.abspath(__file__)))
sys.path.insert(0, HERE)


def load_known(prop):
    findings, fixed = [], []
    path = os.path.join(HERE, "known_findings.txt")
    if os.path.exists(path):
        for line in open(path):
            line = line.strip()
            if not line or line.startswith("#"):
                continue
            if line.startswith("finding:"):
                body = line[len("finding:"):].strip()
                fields = dict(kv.split("=", 1) for kv in body.split(" :: ")[0].split() if "=" in kv)
                if fields.get("property") == prop:
                    fields["text"] = body.split(" :: ", 1)[1] if " :: " in body else body
                    findings.append(fields)
            elif line.startswith("fixed:"):
                fixed.append(line)
    return findings, fixed


def main(argv=None):
    ap = argparse.ArgumentParser(prog="vcheck")
    sub = ap.add_subparsers(dest="cmd")
    r = sub.add_parser("run")
    r.add_argument("prop")
    r.add_argument("--tier", default=os.environ.get("VERIF_TIER", "quick"))
    r.add_argument("--verbose", "-v", action="store_true")
    r.add_argument("--no-evidence", action="store_true")
    p = sub.add_parser("replay")
    p.add_argument("path")
    l = sub.add_parser("ledger")
    l.add_argument("prop")
    sub.add_parser("list")
    a = ap.parse_args(argv)
    import warnings
    warnings.filterwarnings("ignore", category=RuntimeWarning)
    if a.cmd == "run":
        from .report import run_property
        try:
            return run_property(a.prop, a.tier, int(os.environ.get("VERIF_SEED", "0") or 0), a.verbose,
                                write_evidence=not a.no_evidence)
        except SystemExit:
            raise
        except BaseException:
            traceback.print_exc()
            print("CHECKER-ERROR property=%s (engine crash, not a verdict about the code)" % a.prop)
            return 3
    if a.cmd == "replay":
        from .report import replay_file
        return replay_file(a.path)
    if a.cmd == "ledger":
        from .report import write_ledger
        return write_ledger(a.prop)
    if a.cmd == "list":
        for f in sorted(glob.glob(os.path.join(HERE, "contracts", "C*.py"))):
            print(os.path.basename(f)[:-3])
        return 0
    ap.print_help()
    return 2


if __name__ == "__main__":
    sys.exit(main())
