"""Discharging verification conditions: z3 first, cvc5 for what z3 leaves open.

A VC is (assumptions, goal).  It is *discharged* iff  And(assumptions) & ~goal
is unsat.  `sat` gives a model (candidate counterexample, to be replayed on the
real code); `unknown` is never turned into a violation.

Analytic axioms (A6 in DESIGN.md) about the uninterpreted transcendental
functions are instantiated on the terms that occur in the VC (term-triggered
instantiation done by us, not by E-matching), so the query stays
quantifier-free.
"""
import os
import subprocess
import tempfile
import time

import z3

from .sym import UF, PI, R

TRANSC = set(f.name() for f in UF.values())

# names of axiom schemas actually instantiated during a run (for the evidence)
USED_AXIOMS = set()


def _has_var(e, memo):
    k = e.get_id()
    if k in memo:
        return memo[k]
    if z3.is_var(e):
        r = True
    elif z3.is_quantifier(e):
        r = True          # conservatively: a nested binder is not looked into
    else:
        r = any(_has_var(c, memo) for c in e.children())
    memo[k] = r
    return r


def _apps(e, acc, seen, _vmemo=None):
    """collect applications of the transcendental UFs in e.  Quantifier bodies are entered, but only GROUND
    applications (no bound variable below them) are collected there: terms with bound variables get their analytic
    instances from the contract axioms that introduce them (contracts.ensure_axiom)."""
    if e.get_id() in seen:
        return
    seen.add(e.get_id())
    if _vmemo is None:
        _vmemo = {}
    if z3.is_quantifier(e):
        _apps(e.body(), acc, seen, _vmemo)
        return
    if z3.is_app(e):
        d = e.decl()
        if d.kind() == z3.Z3_OP_UNINTERPRETED and d.name() in TRANSC and e.num_args() > 0 and not _has_var(e, _vmemo):
            acc.setdefault(d.name()[3:], {})[e.get_id()] = e
        for c in e.children():
            _apps(c, acc, seen, _vmemo)


def _mentions_pi(es):
    seen = set()

    def walk(e):
        if e.get_id() in seen:
            return False
        seen.add(e.get_id())
        if z3.is_const(e) and e.decl().name() == "pi":
            return True
        return any(walk(c) for c in e.children())
    return any(walk(e) for e in es)


LEAN_SCHEMAS = {"exp_pos", "log_exp", "exp_log", "sin2_cos2", "sqrt_def", "arcsin_def", "arccos_def", "arctan2_def",
                "tanh_bound", "exp_gt_1_plus_x"}


def _bound_exp(formulas):
    """is uf_exp applied to a term with a bound variable somewhere?"""
    memo, seen = {}, set()

    def walk(e):
        if e.get_id() in seen:
            return False
        seen.add(e.get_id())
        if z3.is_quantifier(e):
            return walk(e.body())
        if z3.is_app(e):
            d = e.decl()
            if d.kind() == z3.Z3_OP_UNINTERPRETED and d.name() == "uf_exp" and _has_var(e, memo):
                return True
            return any(walk(c) for c in e.children())
        return False
    return any(walk(f) for f in formulas)


def analytic_instances(formulas, rounds=2, max_pairs=40, lean=False):
    """Instances of analytic axioms for the UF applications occurring in formulas."""
    out = []
    if _bound_exp(formulas):
        # exp of a term with a bound variable (weights under a quantifier): positivity as a quantified axiom
        t = z3.Real("t!exp")
        out.append(z3.ForAll([t], UF["exp"](t) > 0))
        USED_AXIOMS.add("exp_pos(forall)")
    done = set()
    exp, log, sin, cos, sqrt, tanh = UF["exp"], UF["log"], UF["sin"], UF["cos"], UF["sqrt"], UF["tanh"]
    asin, acos = UF["arcsin"], UF["arccos"]
    cur = list(formulas)
    need_pi = False
    for _ in range(rounds):
        acc = {}
        seen = set()
        for f in cur:
            _apps(f, acc, seen)
        new = []

        def add(name, key, f):
            if lean and name not in LEAN_SCHEMAS:
                return
            if (name, key) in done:
                return
            done.add((name, key))
            USED_AXIOMS.add(name)
            new.append(f)

        for tid, t in acc.get("exp", {}).items():
            a = t.arg(0)
            add("exp_pos", tid, t > 0)
            add("exp_ge_1_plus_x", tid, t >= 1 + a)
            add("exp_gt_1_plus_x", tid, z3.Implies(a != 0, t > 1 + a))
            add("exp_zero", tid, z3.Implies(a == 0, t == 1))
            add("exp_lt_inv", tid, z3.Implies(a < 1, t * (1 - a) <= 1))  # e^a <= 1/(1-a)
            add("log_exp", tid, log(t) == a)
        for tid, t in acc.get("log", {}).items():
            a = t.arg(0)
            add("exp_log", tid, z3.Implies(a > 0, exp(t) == a))
            add("log_le_x_minus_1", tid, z3.Implies(a > 0, t <= a - 1))
            add("log_ge_1_minus_inv", tid, z3.Implies(a > 0, t * a >= a - 1))  # ln a >= 1 - 1/a
            add("log_one", tid, z3.Implies(a == 1, t == 0))
        for fname, strict_dom in (("exp", None), ("log", 0), ("sqrt", 0), ("tanh", None), ("arcsin", None)):
            items = list(acc.get(fname, {}).items())
            cnt = 0
            for i in range(len(items)):
                for j in range(len(items)):
                    if i == j:
                        continue
                    (ia, ta), (ib, tb) = items[i], items[j]
                    a, b = ta.arg(0), tb.arg(0)
                    cnt += 1
                    if cnt > max_pairs:
                        break
                    if strict_dom is None:
                        add(fname + "_mono", (ia, ib), z3.Implies(a < b, ta < tb))
                    else:
                        add(fname + "_mono", (ia, ib), z3.Implies(z3.And(a > 0, a < b), ta < tb))
                    if fname == "log" and i < j:
                        # concavity bound: ln b - ln a >= (b - a)/b and <= (b - a)/a
                        add("log_concave_bound", (ia, ib),
                            z3.Implies(z3.And(a > 0, b > 0),
                                       z3.And((tb - ta) * b >= (b - a), (tb - ta) * a <= (b - a))))
        args = {}
        for fname in ("sin", "cos"):
            for tid, t in acc.get(fname, {}).items():
                args[t.arg(0).get_id()] = t.arg(0)
        for aid, a in args.items():
            add("sin2_cos2", aid, sin(a) * sin(a) + cos(a) * cos(a) == 1)
            add("sin_bound", aid, z3.And(sin(a) >= -1, sin(a) <= 1, cos(a) >= -1, cos(a) <= 1))
            add("sin_zero", aid, z3.Implies(a == 0, z3.And(sin(a) == 0, cos(a) == 1)))
            add("cos_nonneg_principal", aid, z3.Implies(z3.And(a >= -PI / 2, a <= PI / 2), cos(a) >= 0))
            add("cos_pos_principal", aid, z3.Implies(z3.And(a > -PI / 2, a < PI / 2), cos(a) > 0))
            add("sin_nonneg_upper", aid, z3.Implies(z3.And(a >= 0, a <= PI), sin(a) >= 0))
            add("sin_pos_upper", aid, z3.Implies(z3.And(a > 0, a < PI), sin(a) > 0))
            add("sin_cos_quarter", aid, z3.Implies(a == PI / 2, z3.And(sin(a) == 1, cos(a) == 0)))
            add("sin_odd_cos_even", aid, z3.And(sin(-a) == -sin(a), cos(-a) == cos(a)))
            need_pi = True
        for tid, t in acc.get("sqrt", {}).items():
            a = t.arg(0)
            add("sqrt_def", tid, z3.Implies(a >= 0, z3.And(t >= 0, t * t == a)))
        for tid, t in acc.get("tanh", {}).items():
            add("tanh_bound", tid, z3.And(t > -1, t < 1))
        for tid, t in acc.get("arcsin", {}).items():
            a = t.arg(0)
            need_pi = True
            add("arcsin_def", tid, z3.Implies(z3.And(a >= -1, a <= 1),
                                              z3.And(sin(t) == a, t >= -PI / 2, t <= PI / 2, cos(t) >= 0)))
            add("arcsin_zero", tid, z3.Implies(a == 0, t == 0))
            add("arcsin_sign", tid, z3.And(z3.Implies(a >= 0, t >= 0), z3.Implies(a <= 0, t <= 0)))
        for tid, t in acc.get("arctan2", {}).items():
            yy, xx = t.arg(0), t.arg(1)
            need_pi = True
            rho = sqrt(xx * xx + yy * yy)
            add("arctan2_def", tid, z3.Implies(z3.Or(xx != 0, yy != 0),
                                               z3.And(yy == rho * sin(t), xx == rho * cos(t), t > -PI, t <= PI)))
        for tid, t in acc.get("arccos", {}).items():
            a = t.arg(0)
            need_pi = True
            add("arccos_def", tid, z3.Implies(z3.And(a >= -1, a <= 1),
                                              z3.And(cos(t) == a, t >= 0, t <= PI, sin(t) >= 0)))
        if not new:
            break
        out.extend(new)
        cur = new
    if need_pi or _mentions_pi(list(formulas) + out):
        USED_AXIOMS.add("pi_bounds")
        out.append(z3.And(PI > z3.RealVal("3.14159265"), PI < z3.RealVal("3.14159266")))
    return out


def to_smt2(assumptions, goal, extra=()):
    s = z3.Solver()
    for a in assumptions:
        s.add(a)
    for a in extra:
        s.add(a)
    s.add(z3.Not(goal))
    return s.to_smt2()


# ----------------------------------------------------------------------------
# worker side: takes SMT-LIB text so that it can run in a process pool

def _model_dict(m):
    out = {}
    for d in m.decls():
        if d.arity() == 0:
            v = m[d]
            try:
                if z3.is_int_value(v):
                    out[d.name()] = ("int", str(v.as_long()))
                elif z3.is_rational_value(v):
                    out[d.name()] = ("real", "%s/%s" % (v.numerator_as_long(), v.denominator_as_long()))
                elif z3.is_true(v) or z3.is_false(v):
                    out[d.name()] = ("bool", str(z3.is_true(v)))
                elif z3.is_algebraic_value(v):
                    ap = v.approx(20)
                    out[d.name()] = ("real", "%s/%s" % (ap.numerator_as_long(), ap.denominator_as_long()))
                else:
                    out[d.name()] = ("other", str(v)[:2000])
            except Exception as exc:  # pragma: no cover
                out[d.name()] = ("other", "?%s" % exc)
        else:
            out[d.name()] = ("func", str(m[d])[:2000])
    return out


_NLMUL = z3.Function("nl_mul", z3.RealSort(), z3.RealSort(), z3.RealSort())
_NLDIV = z3.Function("nl_div", z3.RealSort(), z3.RealSort(), z3.RealSort())


def abstract_nonlinear(e, memo):
    """sound weakening: non-linear products / quotients become uninterpreted (commutative) function applications,
    so that purely equational steps (congruence under pointwise-equal factors) are decided by EUF + linear arithmetic"""
    k = e.get_id()
    if k in memo:
        return memo[k]
    if z3.is_quantifier(e):
        body = abstract_nonlinear(e.body(), memo)
        vs = [z3.Const(e.var_name(i), e.var_sort(i)) for i in range(e.num_vars())]
        # rebuild with fresh constants substituted for the de Bruijn variables
        inst = z3.substitute_vars(body, *reversed(vs))
        if e.is_lambda():
            r = z3.Lambda(vs, inst)
        else:
            r = z3.ForAll(vs, inst) if e.is_forall() else z3.Exists(vs, inst)
        memo[k] = r
        return r
    if not z3.is_app(e) or e.num_args() == 0:
        memo[k] = e
        return e
    ch = [abstract_nonlinear(c, memo) for c in e.children()]
    d = e.decl()
    kind = d.kind()
    r = None
    if kind == z3.Z3_OP_MUL and z3.is_real(e):
        nums = [c for c in ch if z3.is_rational_value(c) or z3.is_int_value(c)]
        rest = [c for c in ch if not (z3.is_rational_value(c) or z3.is_int_value(c))]
        if len(rest) >= 2:
            rest.sort(key=lambda t: (t.decl().name() if z3.is_app(t) else "~", t.num_args() if z3.is_app(t) else 0, t.sexpr()))
            acc = rest[0]
            for c in rest[1:]:
                acc = _NLMUL(acc, c)
            for c in nums:
                acc = c * acc
            r = acc
    elif kind == z3.Z3_OP_DIV and not (z3.is_rational_value(ch[1]) or z3.is_int_value(ch[1])):
        r = _NLDIV(ch[0], ch[1])
    if r is None:
        r = d(*ch) if ch else e
    memo[k] = r
    return r


def _has_quantifier(e, seen):
    if e.get_id() in seen:
        return False
    seen.add(e.get_id())
    if z3.is_quantifier(e):
        return True
    return any(_has_quantifier(c, seen) for c in e.children())


def ackermannize(fs):
    """quantifier-free formulas with uninterpreted real functions -> equisatisfiable pure arithmetic:
    every application becomes a fresh constant, plus functional-consistency constraints for each pair of
    applications of the same symbol.  Returns None if not applicable."""
    seen = set()
    if any(_has_quantifier(f, seen) for f in fs):
        return None
    apps = {}
    memo = {}
    counter = [0]

    def walk(e):
        k = e.get_id()
        if k in memo:
            return memo[k]
        if not z3.is_app(e) or e.num_args() == 0:
            memo[k] = e
            return e
        ch = [walk(c) for c in e.children()]
        d = e.decl()
        if d.kind() == z3.Z3_OP_UNINTERPRETED:
            if not (z3.is_real(e) or z3.is_int(e) or z3.is_bool(e)):
                raise ValueError("non-arithmetic UF")
            key = (d.name(), tuple(c.get_id() for c in ch))
            for (n2, ids), (c2, args2) in list(apps.items()):
                pass
            if key not in apps:
                counter[0] += 1
                v = z3.Const("ack!%d" % counter[0], e.sort())
                apps[key] = (v, ch)
            r = apps[key][0]
        else:
            r = d(*ch)
        memo[k] = r
        return r
    try:
        out = [walk(f) for f in fs]
    except (ValueError, z3.Z3Exception):
        return None
    by_fn = {}
    for (name, _), (v, args) in apps.items():
        by_fn.setdefault(name, []).append((v, args))
    total_pairs = 0
    for name, lst in by_fn.items():
        for i in range(len(lst)):
            for j in range(i + 1, len(lst)):
                total_pairs += 1
                if total_pairs > 3000:
                    return None
                (v1, a1), (v2, a2) = lst[i], lst[j]
                out.append(z3.Implies(z3.And([x == y for x, y in zip(a1, a2)]), v1 == v2))
    return out


def solve_smt2(text, timeout_s=30, seed=0, want_model=True, use_cvc5=True):
    """returns dict(status, backend, time_s, model?, reason?)"""
    t0 = time.time()
    res = {"status": "unknown", "backend": "z3", "time_s": 0.0}
    attempts = []
    try:
        fs = z3.parse_smt2_string(text)
        def attempt_default(frac, label, solver):
            solver.set("timeout", int(timeout_s * 1000 * frac))
            solver.set("random_seed", seed)
            solver.add(fs)
            r = solver.check()
            attempts.append("z3/%s:%s" % (label, r))
            if r == z3.unsat:
                res.update(status="unsat", backend="z3")
            elif r == z3.sat:
                res.update(status="sat", backend="z3")
                if want_model:
                    res["model"] = _model_dict(solver.model())
            else:
                res["reason"] = solver.reason_unknown()
            return r

        attempt_default(0.25, "default", z3.Solver())
        if res["status"] == "unknown":
            # equational attempt: non-linear arithmetic abstracted to uninterpreted functions (sound for `unsat` only)
            try:
                memo = {}
                fs2 = [abstract_nonlinear(f, memo) for f in fs]
                xa, ya = z3.Reals("nl!x nl!y")
                za = z3.Real("nl!z")
                fs2.append(z3.ForAll([xa, ya], _NLMUL(xa, ya) == _NLMUL(ya, xa)))
                s = z3.Solver()
                s.set("timeout", int(min(timeout_s * 0.25, 10) * 1000))
                s.add(fs2)
                r = s.check()
                attempts.append("z3/nl-abstracted:%s" % r)
                if r == z3.unsat:
                    res.update(status="unsat", backend="z3(nl-abstracted)")
            except z3.Z3Exception as exc:
                attempts.append("z3/nl-abstracted:error %s" % str(exc)[:80])
        if res["status"] == "unknown":
            # quantifier-free with uninterpreted functions: Ackermann's reduction, then the complete NRA procedure (nlsat)
            try:
                ack = ackermannize(list(fs))
                if ack is not None:
                    s = z3.Tactic("qfnra-nlsat").solver()
                    s.set("timeout", int(timeout_s * 0.4 * 1000))
                    s.add(ack)
                    r = s.check()
                    attempts.append("z3/ackermann+nlsat:%s" % r)
                    if r == z3.unsat:
                        res.update(status="unsat", backend="z3(ackermann+nlsat)")
            except z3.Z3Exception as exc:
                attempts.append("z3/ackermann+nlsat:error %s" % str(exc)[:80])
        if res["status"] == "unknown":
            attempt_default(0.4, "simplify+solve-eqs", z3.Then("simplify", "solve-eqs", "smt").solver())
    except z3.Z3Exception as exc:
        res["reason"] = "z3 exception: %s" % exc
    if res["status"] == "unknown" and use_cvc5:
        r2 = solve_cvc5(text, timeout_s)
        attempts.append("cvc5:%s" % r2["status"])
        if r2["status"] in ("unsat", "sat"):
            res.update(r2)
    res["time_s"] = round(time.time() - t0, 4)
    res["attempts"] = attempts
    return res


def solve_cvc5(text, timeout_s=30):
    exe = "/usr/bin/cvc5"
    if not os.path.exists(exe):
        return {"status": "unknown", "backend": "cvc5", "reason": "cvc5 binary missing"}
    fd, path = tempfile.mkstemp(suffix=".smt2", prefix="pyvc_")
    try:
        with os.fdopen(fd, "w") as f:
            f.write("(set-logic ALL)\n")
            f.write(text)
            if "(check-sat)" not in text:
                f.write("\n(check-sat)\n")
        try:
            p = subprocess.run([exe, "--tlimit=%d" % int(timeout_s * 1000), "--nl-ext-tplanes", path],
                               capture_output=True, text=True, timeout=timeout_s + 5)
        except subprocess.TimeoutExpired:
            return {"status": "unknown", "backend": "cvc5", "reason": "timeout"}
        out = p.stdout.strip().splitlines()
        first = out[0].strip() if out else ""
        if first == "unsat":
            return {"status": "unsat", "backend": "cvc5"}
        if first == "sat":
            return {"status": "sat", "backend": "cvc5"}
        return {"status": "unknown", "backend": "cvc5", "reason": (p.stdout + p.stderr)[:300]}
    finally:
        try:
            os.unlink(path)
        except OSError:
            pass


def quick_check(assumptions, timeout_ms=2000):
    """feasibility of a path condition: 'sat' | 'unsat' | 'unknown'"""
    s = z3.Solver()
    s.set("timeout", timeout_ms)
    for a in assumptions:
        s.add(a)
    r = s.check()
    return str(r)
