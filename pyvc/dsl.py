"""Names available to contract files and theorem programs."""
from .interp import Intrinsic
from .contracts import REG, contract, theorem, bounded, Kind, lemma_axiom  # noqa: F401

# statement-level intrinsics of theorem programs (arguments are evaluated as formulas)
requires = Intrinsic("requires")      # assumption of the theorem (from the property statement)
ensures = Intrinsic("ensures")        # obligation thm/<id>/<label>
assume = Intrinsic("assume")          # like requires (used for instantiating assumed library contracts)
check = Intrinsic("ensures")
use_axiom = Intrinsic("use_axiom")    # explicit instance of a named trusted axiom
fresh = Intrinsic("fresh")            # fresh('name', 'real'|'int'|'bool')
fresh_array = Intrinsic("fresh_array")  # fresh_array('name', n, 'real')
uf = Intrinsic("uf")                  # uf('name', arity) -> callable uninterpreted function
expect_raises = Intrinsic("expect_raises")  # expect_raises(Exc, callable, *args) -> bool/raises obligation
note = Intrinsic("note")
reveal = Intrinsic("reveal")          # reveal(f, g, ...): assume the hidden (opaque) ensures of these contracts from here on
use_lemma = Intrinsic("use_lemma")  # use_lemma("sum_const", array, c, n): instance of a lemma proved in this run
cnt = Intrinsic("cnt")              # cnt(int_array, k, v) = #{j < k | a[j] == v}
count_def = Intrinsic("count_def")  # definitional unfolding of cnt at position k (for loop `unfold` hints)
ssum = Intrinsic("ssum")            # ssum(n, lambda i: term)
array_of = Intrinsic("array_of")
pointwise = Intrinsic("pointwise")  # pointwise(n, lambda i: fact, id=..): proves fact at a generic index, then assumes it for all i    # array_of(n, lambda i: term)

# formula builders (usable in clauses and in intrinsic arguments)
implies = Intrinsic("implies")
iff = Intrinsic("iff")
ite = Intrinsic("ite")
forall = Intrinsic("forall")          # forall(lo, hi, lambda k: ...)  over lo <= k < hi
exists = Intrinsic("exists")
old = Intrinsic("old")

exp = Intrinsic("exp")
log = Intrinsic("log")
sqrt = Intrinsic("sqrt")
sin = Intrinsic("sin")
cos = Intrinsic("cos")
tanh = Intrinsic("tanh")
arcsin = Intrinsic("arcsin")
arccos = Intrinsic("arccos")
arctan2 = Intrinsic("arctan2")
from .sym import Sym as _Sym, PI as _PI
PI = _Sym(_PI)

SPEC_GLOBALS = {k: v for k, v in list(globals().items()) if isinstance(v, Intrinsic)}
SPEC_GLOBALS["PI"] = PI
