"""Mixed concrete/symbolic interpreter over the *unmodified* Python AST of the
functions under contract.  With all-concrete inputs it is a (subset) Python
interpreter, which is what the differential test against CPython exploits.

Anything outside the supported subset raises OutsideSubset -- it is never
skipped silently.  The statements that *are* dropped are listed in DROPPED_CALLS
(logging / timing instrumentation) and reported in the evidence.
"""
import ast
import builtins
import fractions
import hashlib
import inspect
import operator
import sys
import textwrap
import types

import numpy as np
import z3

from . import sym
from .sym import Sym, SArr, OutsideSubset, is_sym, deep_sym
from .paths import PathEnd


# ----------------------------------------------------------------------------
class ReturnExc(Exception):
    def __init__(self, value):
        self.value = value


class BreakExc(Exception):
    pass


class ContinueExc(Exception):
    pass


class PyRaise(Exception):
    """a Python exception raised by the interpreted program"""

    def __init__(self, exc):
        self.exc = exc


CONTROL = (ReturnExc, BreakExc, ContinueExc, PyRaise, PathEnd, OutsideSubset)

DROPPED_CALLS = ("logger.", "logging.", "print", "gc.collect", "self._debug", "self._info",
                 "self._error", "timer.", "warnings.simplefilter")


SPEC_ARG_INTRINSICS = {"requires", "assume", "ensures", "implies", "iff", "ite", "forall", "exists", "ssum", "array_of", "pointwise", "cnt", "count_def"}


class Intrinsic:
    def __init__(self, name):
        self.name = name

    def __repr__(self):
        return "<intrinsic %s>" % self.name


class Closure:
    """function value created by interpreting `def` / `lambda` inside analysed code"""

    def __init__(self, node, frame, interp, name="<lambda>"):
        self.node = node
        self.frame = frame
        self.interp = interp
        self.__name__ = name

    def __call__(self, *args, **kwargs):
        return self.interp.call_closure(self, args, kwargs)


class Frame:
    def __init__(self, locals_, globals_, parent=None, label="?"):
        self.locals = locals_
        self.globals = globals_
        self.parent = parent      # enclosing Frame for closures
        self.label = label

    def lookup(self, name):
        f = self
        while f is not None:
            if name in f.locals:
                return f.locals[name]
            f = f.parent
        if name in self.globals:
            return self.globals[name]
        if hasattr(builtins, name):
            return getattr(builtins, name)
        raise PyRaise(NameError("name %r is not defined" % name))


# ----------------------------------------------------------------------------
class FuncSrc:
    """Source of a real function, re-read from the working tree on every run."""
    _cache = {}
    _files = {}

    def __init__(self, fn):
        fn = unwrap(fn)
        self.fn = fn
        code = fn.__code__
        self.filename = code.co_filename
        if self.filename not in FuncSrc._files:
            with open(self.filename, encoding="utf-8") as f:
                text = f.read()
            FuncSrc._files[self.filename] = (text, ast.parse(text))
        text, tree = FuncSrc._files[self.filename]
        node = None
        for n in ast.walk(tree):
            if isinstance(n, (ast.FunctionDef, ast.Lambda)) and getattr(n, "name", "<lambda>") in (fn.__name__, code.co_name):
                first = min([n.lineno] + [d.lineno for d in getattr(n, "decorator_list", [])])
                if first == code.co_firstlineno or n.lineno == code.co_firstlineno:
                    node = n
                    break
        if node is None:
            raise OutsideSubset("cannot locate source of %s in %s" % (fn.__qualname__, self.filename))
        self.node = node
        self.segment = ast.get_source_segment(text, node)
        self.sha256 = hashlib.sha256(self.segment.encode()).hexdigest()
        self.lineno = node.lineno
        self.end_lineno = node.end_lineno
        self.qualname = "%s:%s" % (fn.__module__, fn.__qualname__)

    @classmethod
    def get(cls, fn):
        fn = unwrap(fn)
        key = id(fn.__code__)
        if key not in cls._cache:
            cls._cache[key] = FuncSrc(fn)
        return cls._cache[key]

    def provenance(self):
        """checks that the verified text is the code that runs"""
        ok_file = inspect.getsourcefile(self.fn.__code__) == self.filename
        try:
            live = textwrap.dedent(inspect.getsource(self.fn.__code__))
            seg = textwrap.dedent(self.segment if not self.node.col_offset else
                                  " " * self.node.col_offset + self.segment)
            # decorators are part of inspect.getsource but not of the node segment
            same = seg.strip() in live or live.strip() in seg
        except (OSError, TypeError):
            same = False
        return {"function": self.qualname, "file": self.filename, "line": self.lineno,
                "sha256": self.sha256, "file_matches": bool(ok_file), "source_matches": bool(same)}


def unwrap(fn):
    if isinstance(fn, (staticmethod, classmethod)):
        fn = fn.__func__
    if isinstance(fn, types.MethodType):
        fn = fn.__func__
    if isinstance(fn, property):
        fn = fn.fget
    return fn


# ----------------------------------------------------------------------------
_BINOPS = {
    ast.Add: operator.add, ast.Sub: operator.sub, ast.Mult: operator.mul,
    ast.Div: operator.truediv, ast.FloorDiv: operator.floordiv, ast.Mod: operator.mod,
    ast.Pow: operator.pow, ast.BitAnd: operator.and_, ast.BitOr: operator.or_,
    ast.BitXor: operator.xor, ast.MatMult: operator.matmul, ast.LShift: operator.lshift,
    ast.RShift: operator.rshift,
}
_CMPOPS = {
    ast.Eq: operator.eq, ast.NotEq: operator.ne, ast.Lt: operator.lt, ast.LtE: operator.le,
    ast.Gt: operator.gt, ast.GtE: operator.ge,
}


class Interp:
    def __init__(self, registry=None, concrete=False, inline_all=False):
        from . import models
        self.registry = registry            # contracts registry (may be None)
        self.concrete = concrete            # replay / differential mode: no contracts, real calls
        self.inline_all = inline_all
        self.models = models
        self.dropped = []                   # (function, line, text) of dropped statements
        self.call_stack = []
        self.trusted_used = set()           # library models / axioms used
        self.contracts_used = set()
        self.tolerant = 0                   # >0: float comparisons with tolerance (replay of clauses)
        self.lemmas_used = set()
        self.inlined_functions = {}
        self.cm_stack = []                  # @contextmanager generators currently being interpreted (innermost last)

    # ------------------------------------------------------------------ util
    @property
    def ctx(self):
        return sym.ctx()

    def truth_value(self, v):
        """Python truthiness; forks when symbolic (exec mode)."""
        if isinstance(v, Sym):
            if self.ctx.spec_mode:
                return v if v.is_bool else (v != 0)
            return self.ctx.branch(sym.truth(v))
        if isinstance(v, SArr):
            raise OutsideSubset("truth value of symbolic array")
        try:
            return bool(v)
        except CONTROL:
            raise
        except Exception as exc:            # e.g. the ambiguous truth value of an ndarray: an exception of the program
            raise PyRaise(exc)

    # ------------------------------------------------------------- functions
    def run_function(self, fn, args, kwargs, label=None):
        """interpret the body of real function `fn` (from its source in the tree)"""
        src = FuncSrc.get(fn)
        f = unwrap(fn)
        sig = inspect.signature(f, follow_wrapped=False)
        try:
            bound = sig.bind(*args, **kwargs)
        except TypeError as exc:
            raise PyRaise(exc)
        bound.apply_defaults()
        frame = Frame(dict(bound.arguments), f.__globals__, None, label or src.qualname)
        frame.fn_obj = f
        if not self.call_stack:
            self.top_frame = frame        # locals of the function under verification (ghost access for its contract)
        if f.__closure__:
            for name, cell in zip(f.__code__.co_freevars, f.__closure__):
                try:
                    frame.locals.setdefault(name, cell.cell_contents)
                except ValueError:
                    pass
        return self.exec_body_as_call(src.node, frame)

    def exec_body_as_call(self, node, frame):
        if not isinstance(node, ast.Lambda) and _is_generator(node) \
                and not (self.cm_stack and self.cm_stack[-1].fn is getattr(frame, "fn_obj", None)):
            # generator functions are evaluated eagerly: the yielded values are collected in order and handed out
            # as an iterator (differs from CPython only in WHEN side effects / exceptions of the body happen)
            frame.locals["__yields__"] = []
            self.trusted_used.add("encoding:generator bodies are evaluated eagerly (order of yields preserved)")
            self.call_stack.append(frame.label)
            try:
                try:
                    self.exec_block(node.body, frame)
                except ReturnExc:
                    pass
                return iter(frame.locals["__yields__"])
            finally:
                self.call_stack.pop()
        self.call_stack.append(frame.label)
        if len(self.call_stack) > 60:
            raise OutsideSubset("interpreter recursion too deep: %s" % self.call_stack[-3:])
        try:
            if isinstance(node, ast.Lambda):
                return self.eval(node.body, frame)
            try:
                self.exec_block(node.body, frame)
            except ReturnExc as r:
                return r.value
            return None
        finally:
            self.call_stack.pop()

    def call_closure(self, clo, args, kwargs):
        node = clo.node
        a = node.args
        params = [x.arg for x in a.posonlyargs + a.args]
        frame = Frame({}, clo.frame.globals, clo.frame, clo.frame.label + ".<%s>" % clo.__name__)
        defaults = getattr(clo, "defaults", [])
        nd = len(defaults)
        args = list(args)
        if len(args) > len(params) and not a.vararg:
            raise PyRaise(TypeError("too many positional arguments"))
        for i, p in enumerate(params):
            if i < len(args):
                frame.locals[p] = args[i]
            elif p in kwargs:
                frame.locals[p] = kwargs.pop(p)
            elif i >= len(params) - nd:
                frame.locals[p] = defaults[i - (len(params) - nd)]
            else:
                raise PyRaise(TypeError("missing argument %s" % p))
        if a.vararg:
            frame.locals[a.vararg.arg] = tuple(args[len(params):])
        kwd = getattr(clo, "kw_defaults", {})
        for ko in a.kwonlyargs:
            if ko.arg in kwargs:
                frame.locals[ko.arg] = kwargs.pop(ko.arg)
            elif ko.arg in kwd:
                frame.locals[ko.arg] = kwd[ko.arg]
            else:
                raise PyRaise(TypeError("missing keyword-only argument %s" % ko.arg))
        if a.kwarg:
            frame.locals[a.kwarg.arg] = dict(kwargs)
        elif kwargs:
            raise PyRaise(TypeError("unexpected keyword arguments %s" % list(kwargs)))
        return self.exec_body_as_call(node, frame)

    # ------------------------------------------------------------ statements
    def exec_block(self, stmts, frame):
        for s in stmts:
            self.exec_stmt(s, frame)

    def exec_stmt(self, node, frame):
        self.ctx.ghost["line"] = getattr(node, "lineno", 0)
        self.ctx.ghost["fn_label"] = frame.label
        m = getattr(self, "s_" + type(node).__name__, None)
        if m is None:
            raise OutsideSubset("statement %s at %s:%s" % (type(node).__name__, frame.label, node.lineno))
        return m(node, frame)

    def s_Expr(self, node, frame):
        v = node.value
        if isinstance(v, ast.Constant):
            return  # docstring
        if isinstance(v, ast.Call):
            txt = _dotted(v.func)
            if txt and any(txt == d or (d.endswith(".") and txt.startswith(d)) for d in DROPPED_CALLS):
                self.dropped.append((frame.label, node.lineno, txt))
                return
        self.eval(v, frame)

    def s_Pass(self, node, frame):
        pass

    def s_Assign(self, node, frame):
        val = self.eval(node.value, frame)
        for t in node.targets:
            self.assign(t, val, frame)

    def s_AnnAssign(self, node, frame):
        if node.value is not None:
            self.assign(node.target, self.eval(node.value, frame), frame)

    def s_AugAssign(self, node, frame):
        t = node.target
        op = _BINOPS[type(node.op)]
        if isinstance(t, ast.Name):
            cur = frame.lookup(t.id)
            new = self.aug(op, cur, self.eval(node.value, frame), node)
            self.assign(t, new, frame)
        elif isinstance(t, ast.Subscript):
            obj = self.eval(t.value, frame)
            key = self.eval_index(t.slice, frame)
            cur = self.getitem(obj, key)
            new = self.binop(op, cur, self.eval(node.value, frame), node)
            self.setitem(obj, key, new)
        elif isinstance(t, ast.Attribute):
            obj = self.eval(t.value, frame)
            cur = self.getattr(obj, self.mangle(t.attr, frame))
            new = self.aug(op, cur, self.eval(node.value, frame), node)
            self.setattr(obj, self.mangle(t.attr, frame), new)
        else:
            raise OutsideSubset("augassign target")

    def aug(self, op, cur, val, node):
        # in-place semantics for mutable containers
        if isinstance(cur, list) and op is operator.add:
            cur.extend(val)
            return cur
        import numpy as _np
        if isinstance(cur, _np.ndarray) and not deep_sym(val):
            # a real ndarray (concrete runs): the in-place operator, so that aliases see the store as under CPython
            ip = {operator.add: operator.iadd, operator.sub: operator.isub, operator.mul: operator.imul, operator.truediv: operator.itruediv,
                  operator.floordiv: operator.ifloordiv, operator.mod: operator.imod, operator.pow: operator.ipow,
                  operator.and_: operator.iand, operator.or_: operator.ior, operator.xor: operator.ixor}.get(op)
            if ip is not None:
                try:
                    return ip(cur, val)
                except Exception as exc:
                    raise PyRaise(exc)
        if isinstance(cur, SArr):
            new = self.binop(op, cur, val, node)
            if isinstance(new, SArr):
                cur.fn = new.fn   # ndarray += is in place: aliases see it
                cur.dtype = new.dtype if cur.dtype != "int" else cur.dtype
                return cur
            return new
        return self.binop(op, cur, val, node)

    def s_Return(self, node, frame):
        raise ReturnExc(None if node.value is None else self.eval(node.value, frame))

    def s_If(self, node, frame):
        c = self.eval(node.test, frame)
        if isinstance(c, Sym) and not self.ctx.spec_mode and self.models.if_convert_append(self, node, frame, c):
            return
        if self.truth_value(c):
            self.exec_block(node.body, frame)
        else:
            self.exec_block(node.orelse, frame)

    def s_Raise(self, node, frame):
        if node.exc is None:
            cur = self.ctx.ghost.get("handling")
            if not cur:
                raise PyRaise(RuntimeError("No active exception to reraise"))
            raise PyRaise(cur[-1])
        e = self.eval(node.exc, frame)
        if isinstance(e, type) and issubclass(e, BaseException):
            e = e()
        if not isinstance(e, BaseException):
            raise PyRaise(TypeError("exceptions must derive from BaseException"))
        if node.cause is not None:
            try:
                e.__cause__ = self.eval(node.cause, frame)
            except Exception:
                pass
        raise PyRaise(e)

    def s_Assert(self, node, frame):
        c = self.eval(node.test, frame)
        if not self.truth_value(c):
            raise PyRaise(AssertionError())

    def s_Delete(self, node, frame):
        for t in node.targets:
            if isinstance(t, ast.Name):
                frame.locals.pop(t.id, None)
            elif isinstance(t, ast.Subscript):
                obj = self.eval(t.value, frame)
                key = self.eval_index(t.slice, frame)
                self.native(operator.delitem, obj, key)
            else:
                raise OutsideSubset("del target")

    def s_Try(self, node, frame):
        try:
            try:
                self.exec_block(node.body, frame)
            except PyRaise as pr:
                exc = pr.exc
                for h in node.handlers:
                    if h.type is None:
                        match = True
                    else:
                        ht = self.eval(h.type, frame)
                        match = isinstance(exc, ht)
                    if match:
                        if h.name:
                            frame.locals[h.name] = exc
                        self.ctx.ghost.setdefault("handling", []).append(exc)
                        try:
                            self.exec_block(h.body, frame)
                        finally:
                            self.ctx.ghost["handling"].pop()
                        break
                else:
                    raise
            else:
                self.exec_block(node.orelse, frame)
        finally:
            if node.finalbody:
                # runs for normal exit, return, raise (not for PathEnd: path is dead)
                et = sys.exc_info()[0]
                if et is None or not issubclass(et, (PathEnd, OutsideSubset)):
                    self.exec_block(node.finalbody, frame)

    def s_FunctionDef(self, node, frame):
        clo = Closure(node, frame, self, node.name)
        clo.defaults = [self.eval(d, frame) for d in node.args.defaults]
        clo.kw_defaults = {a.arg: self.eval(d, frame) for a, d in zip(node.args.kwonlyargs, node.args.kw_defaults)
                           if d is not None}
        val = clo
        for dec in reversed(node.decorator_list):
            d = self.eval(dec, frame)
            val = self.call_value(d, [val], {}, node)
        frame.locals[node.name] = val

    def s_Import(self, node, frame):
        for a in node.names:
            mod = __import__(a.name)
            if a.asname:
                import importlib
                frame.locals[a.asname] = importlib.import_module(a.name)
            else:
                frame.locals[a.name.split(".")[0]] = mod

    def s_ImportFrom(self, node, frame):
        import importlib
        mod = importlib.import_module(("." * node.level) + (node.module or ""),
                                      frame.globals.get("__package__"))
        for a in node.names:
            frame.locals[a.asname or a.name] = getattr(mod, a.name)

    def s_Global(self, node, frame):
        raise OutsideSubset("global statement")

    def s_Continue(self, node, frame):
        raise ContinueExc()

    def s_Break(self, node, frame):
        raise BreakExc()

    def s_With(self, node, frame):
        from .models import with_enter, with_exit
        mgrs = []
        try:
            for item in node.items:
                m = self.eval(item.context_expr, frame)
                v = with_enter(self, m)
                mgrs.append(m)
                if item.optional_vars is not None:
                    self.assign(item.optional_vars, v, frame)
            self.exec_block(node.body, frame)
        except PyRaise as pr:
            swallowed = False
            while mgrs:
                m = mgrs.pop()
                if with_exit(self, m, pr.exc):
                    swallowed = True
                    break
            if not swallowed:
                raise
            while mgrs:
                with_exit(self, mgrs.pop(), None)
        except (ReturnExc, BreakExc, ContinueExc):
            while mgrs:
                with_exit(self, mgrs.pop(), None)
            raise
        else:
            while mgrs:
                with_exit(self, mgrs.pop(), None)

    def s_For(self, node, frame):
        it = self.eval(node.iter, frame)
        spec = self.loop_spec(node, frame)
        if spec is not None:
            return self.models.loop_with_invariant(self, node, frame, it, spec)
        seq = iter(self.models.concrete_iter(self, it))
        broke = False
        while True:
            try:
                x = next(seq)
            except StopIteration:
                break
            except CONTROL:
                raise
            except Exception as exc:        # the iterator itself raised (e.g. a generator model): a Python exception of the program
                raise PyRaise(exc)
            self.assign(node.target, x, frame)
            try:
                self.exec_block(node.body, frame)
            except ContinueExc:
                continue
            except BreakExc:
                broke = True
                break
        if not broke:
            self.exec_block(node.orelse, frame)

    def s_While(self, node, frame):
        spec = self.loop_spec(node, frame)
        if spec is not None:
            return self.models.while_with_invariant(self, node, frame, spec)
        n = 0
        while True:
            c = self.eval(node.test, frame)
            if not self.truth_value(c):
                break
            n += 1
            if n > 10000:
                raise OutsideSubset("while loop without invariant does not terminate concretely")
            try:
                self.exec_block(node.body, frame)
            except ContinueExc:
                continue
            except BreakExc:
                return
        self.exec_block(node.orelse, frame)

    def loop_spec(self, node, frame):
        """loop contract for this For/While node, looked up by function + ordinal"""
        if self.registry is None or self.concrete:
            return None
        return self.registry.loop_spec(frame.label, node)

    # ----------------------------------------------------------- assignment
    def assign(self, target, val, frame):
        if isinstance(target, ast.Name):
            frame.locals[target.id] = val
        elif isinstance(target, (ast.Tuple, ast.List)):
            vals = self.models.unpack(self, val, len(target.elts), target)
            star = [i for i, e in enumerate(target.elts) if isinstance(e, ast.Starred)]
            if star:
                i = star[0]
                n_after = len(target.elts) - i - 1
                vals = list(vals)
                head = vals[:i]
                mid = vals[i:len(vals) - n_after]
                tail = vals[len(vals) - n_after:] if n_after else []
                for t, v in zip(target.elts[:i], head):
                    self.assign(t, v, frame)
                self.assign(target.elts[i].value, list(mid), frame)
                for t, v in zip(target.elts[i + 1:], tail):
                    self.assign(t, v, frame)
            else:
                for t, v in zip(target.elts, vals):
                    self.assign(t, v, frame)
        elif isinstance(target, ast.Subscript):
            obj = self.eval(target.value, frame)
            key = self.eval_index(target.slice, frame)
            self.setitem(obj, key, val)
        elif isinstance(target, ast.Attribute):
            obj = self.eval(target.value, frame)
            self.setattr(obj, self.mangle(target.attr, frame), val)
        else:
            raise OutsideSubset("assignment target %s" % type(target).__name__)

    # ---------------------------------------------------------- expressions
    def eval(self, node, frame):
        m = getattr(self, "e_" + type(node).__name__, None)
        if m is None:
            raise OutsideSubset("expression %s at %s:%s" % (type(node).__name__, frame.label,
                                                            getattr(node, "lineno", "?")))
        return m(node, frame)

    def e_Constant(self, node, frame):
        return self.realify(node.value)

    def realify(self, v):
        """A2: in symbolic mode a float stands for the real number its shortest repr denotes;
        it is carried as an exact Fraction so that constant folding is exact, too."""
        if self.concrete:
            return v
        if type(v) is float or isinstance(v, np.floating):
            if v != v or v in (float("inf"), float("-inf")):
                return v
            return fractions.Fraction(repr(float(v)))
        return v

    def e_Name(self, node, frame):
        v = frame.lookup(node.id)
        if self.concrete and isinstance(v, Sym) and v.e.eq(sym.PI):
            import math
            return math.pi
        return self.realify(v)

    def e_Tuple(self, node, frame):
        return tuple(self.eval_list(node.elts, frame))

    def e_List(self, node, frame):
        return list(self.eval_list(node.elts, frame))

    def e_Set(self, node, frame):
        return set(self.eval_list(node.elts, frame))

    def eval_list(self, elts, frame):
        out = []
        for e in elts:
            if isinstance(e, ast.Starred):
                out.extend(self.models.concrete_iter(self, self.eval(e.value, frame)))
            else:
                out.append(self.eval(e, frame))
        return out

    def e_Dict(self, node, frame):
        d = {}
        for k, v in zip(node.keys, node.values):
            if k is None:
                d.update(self.eval(v, frame))
            else:
                d[self.eval(k, frame)] = self.eval(v, frame)
        return d

    def e_Attribute(self, node, frame):
        return self.getattr(self.eval(node.value, frame), self.mangle(node.attr, frame))

    @staticmethod
    def mangle(attr, frame):
        """private name mangling of `__name` inside a class body (done by CPython's compiler)"""
        if attr.startswith("__") and not attr.endswith("__"):
            f = frame
            while f is not None and not hasattr(f, "fn_obj"):
                f = f.parent
            q = getattr(getattr(f, "fn_obj", None), "__qualname__", "")
            parts = q.replace(".<locals>", "").split(".")
            if len(parts) >= 2:
                return "_%s%s" % (parts[-2].lstrip("_"), attr)
        return attr

    def getattr(self, obj, attr):
        h = self.models.attr_hook(self, obj, attr)
        if h is not self.models.NOHOOK:
            return h
        try:
            if self.registry is not None and not self.concrete:
                try:
                    ex = self.registry.exact_attrs.get((id(obj), attr))
                except AttributeError:
                    ex = None
                if ex is not None:
                    return ex
            return self.realify(getattr(obj, attr))
        except CONTROL:
            raise
        except Exception as exc:
            raise PyRaise(exc)

    def setattr(self, obj, attr, val):
        try:
            # properties with setters defined in typhon are interpreted
            cls_attr = getattr(type(obj), attr, None)
            if isinstance(cls_attr, property) and cls_attr.fset is not None and not self.concrete \
                    and getattr(cls_attr.fset, "__module__", "").startswith("typhon"):
                self.call_value(cls_attr.fset, [obj, val], {}, None)
                return
            setattr(obj, attr, val)
        except CONTROL:
            raise
        except Exception as exc:
            raise PyRaise(exc)

    def e_Subscript(self, node, frame):
        obj = self.eval(node.value, frame)
        key = self.eval_index(node.slice, frame)
        return self.getitem(obj, key)

    def eval_index(self, node, frame):
        if isinstance(node, ast.Slice):
            return slice(None if node.lower is None else self.eval(node.lower, frame),
                         None if node.upper is None else self.eval(node.upper, frame),
                         None if node.step is None else self.eval(node.step, frame))
        if isinstance(node, ast.Tuple):
            return tuple(self.eval_index(e, frame) for e in node.elts)
        return self.eval(node, frame)

    def getitem(self, obj, key):
        return self.models.getitem_any(self, obj, key)

    def setitem(self, obj, key, val):
        return self.models.setitem_any(self, obj, key, val)

    def e_BinOp(self, node, frame):
        l = self.eval(node.left, frame)
        r = self.eval(node.right, frame)
        return self.binop(_BINOPS[type(node.op)], l, r, node)

    def binop(self, op, l, r, node=None):
        if is_sym(l) or is_sym(r):
            if op is operator.truediv:
                self.div_guard(r)
            if op in (operator.floordiv, operator.mod):
                self.div_guard(r)
            return self.models.sym_binop(self, op, l, r)
        return self.native(op, l, r)

    def div_guard(self, r):
        """Python raises ZeroDivisionError for scalars; numpy yields inf/nan (outside A2).
        Either way a zero divisor is outside the real-number reading: safety obligation."""
        if self.ctx.spec_mode:
            return
        if isinstance(r, Sym):
            self.ctx.oblige_safe("div-nonzero", r != 0)
        elif isinstance(r, SArr):
            k = self.models.generic_index(self, r)
            self.ctx.oblige_safe("div-nonzero", r.at(*k) != 0)

    def e_UnaryOp(self, node, frame):
        v = self.eval(node.operand, frame)
        if isinstance(node.op, ast.Not):
            if isinstance(v, Sym) and self.ctx.spec_mode:
                return sym.mk(z3.Not(sym.truth(v)))
            return not self.truth_value(v)
        if isinstance(node.op, ast.USub):
            return self.native(operator.neg, v)
        if isinstance(node.op, ast.UAdd):
            return self.native(operator.pos, v)
        if isinstance(node.op, ast.Invert):
            return self.native(operator.invert, v)
        raise OutsideSubset("unary op")

    def e_BoolOp(self, node, frame):
        is_and = isinstance(node.op, ast.And)
        if self.ctx.spec_mode:
            # formula building; concrete operands still short-circuit (so `x is None or x[i] > 0` is safe)
            syms = []
            last = None
            for vn in node.values:
                v = self.eval(vn, frame)
                last = v
                if isinstance(v, Sym):
                    syms.append(sym.truth(v))
                    continue
                if is_and and not v:
                    return v if not syms else False
                if not is_and and v:
                    return v if not syms else True
            if syms:
                return sym.mk(z3.And(syms) if is_and else z3.Or(syms))
            return last
        val = None
        for v in node.values:
            val = self.eval(v, frame)
            t = self.truth_value(val)
            if is_and and not t:
                return val if not isinstance(val, Sym) else False
            if not is_and and t:
                return val if not isinstance(val, Sym) else True
        if isinstance(val, Sym):
            return is_and
        return val

    def e_Compare(self, node, frame):
        left = self.eval(node.left, frame)
        result = None
        for op, rnode in zip(node.ops, node.comparators):
            right = self.eval(rnode, frame)
            r = self.compare(op, left, right)
            if self.ctx.spec_mode and (isinstance(r, Sym) or isinstance(result, Sym)):
                result = r if result is None else sym.mk(z3.And(sym.truth(result), sym.truth(r)))
            else:
                if len(node.ops) == 1:
                    return r
                if not self.truth_value(r):
                    return False
                result = True
            left = right
        return result

    def compare(self, op, l, r):
        t = type(op)
        if t is ast.Is:
            return l is r
        if t is ast.IsNot:
            return l is not r
        if t is ast.In:
            return self.models.contains(self, r, l)
        if t is ast.NotIn:
            c = self.models.contains(self, r, l)
            if isinstance(c, Sym):
                return sym.mk(z3.Not(sym.truth(c)))
            return not c
        f = _CMPOPS[t]
        if self.tolerant and not is_sym(l) and not is_sym(r):
            return self.models.tolerant_compare(f, l, r)
        return self.native(f, l, r)

    def e_IfExp(self, node, frame):
        c = self.eval(node.test, frame)
        if isinstance(c, Sym) and self.ctx.spec_mode:
            a = self.eval(node.body, frame)
            b = self.eval(node.orelse, frame)
            return sym.ite(c, a, b)
        if self.truth_value(c):
            return self.eval(node.body, frame)
        return self.eval(node.orelse, frame)

    def e_Lambda(self, node, frame):
        clo = Closure(node, frame, self)
        clo.defaults = [self.eval(d, frame) for d in node.args.defaults]
        clo.kw_defaults = {}
        return clo

    def e_JoinedStr(self, node, frame):
        parts = []
        for v in node.values:
            if isinstance(v, ast.Constant):
                parts.append(v.value)
            else:
                val = self.eval(v.value, frame)
                spec = ""
                if v.format_spec is not None:
                    spec = self.eval(v.format_spec, frame)
                from .strsym import SStr, format_field
                if isinstance(val, SStr) or (isinstance(val, Sym) and val.is_int and getattr(self, "fstring_symbolic", False)):
                    parts.append(format_field(self, val, spec))
                    continue
                if deep_sym(val):
                    parts.append("<sym>")
                    continue
                if v.conversion == ord("r"):
                    val = repr(val)
                elif v.conversion == ord("s"):
                    val = str(val)
                parts.append(format(val, spec))
        from .strsym import SStr
        if any(isinstance(p, SStr) for p in parts):
            return SStr(parts)
        return "".join(parts)

    def e_FormattedValue(self, node, frame):
        return self.e_JoinedStr(ast.JoinedStr(values=[node]), frame)

    def _yield_list(self, frame):
        f = frame
        while f is not None:
            if "__yields__" in f.locals:
                return f.locals["__yields__"]
            f = f.parent
        raise OutsideSubset("yield outside a generator function")

    def e_Yield(self, node, frame):
        val = None if node.value is None else self.eval(node.value, frame)
        if self.cm_stack and self.cm_stack[-1].fn is getattr(frame, "fn_obj", None):
            return self.cm_stack[-1].yield_point(val)
        self._yield_list(frame).append(val)
        return None

    def e_YieldFrom(self, node, frame):
        it = self.eval(node.value, frame)
        self._yield_list(frame).extend(self.models.concrete_iter(self, it))
        return None

    def e_Starred(self, node, frame):
        raise OutsideSubset("starred outside call/display")

    def e_Slice(self, node, frame):
        return self.eval_index(node, frame)

    # comprehensions ---------------------------------------------------------
    def _comp(self, generators, frame, emit, first=None):
        def rec(i, fr):
            if i == len(generators):
                emit(fr)
                return
            g = generators[i]
            it = first if (i == 0 and first is not None) else self.eval(g.iter, fr)
            for x in self.models.concrete_iter(self, it):
                self.assign(g.target, x, fr)
                ok = True
                for cond in g.ifs:
                    if not self.truth_value(self.eval(cond, fr)):
                        ok = False
                        break
                if ok:
                    rec(i + 1, fr)
        inner = Frame({}, frame.globals, frame, frame.label)
        rec(0, inner)

    def e_ListComp(self, node, frame):
        first = self.eval(node.generators[0].iter, frame)
        hook = getattr(first, "__pyvc_comprehension__", None)
        if hook is not None:
            return hook(self, node, frame)
        out = []
        self._comp(node.generators, frame, lambda fr: out.append(self.eval(node.elt, fr)), first)
        return out

    def e_SetComp(self, node, frame):
        out = set()
        self._comp(node.generators, frame, lambda fr: out.add(self.eval(node.elt, fr)))
        return out

    def e_DictComp(self, node, frame):
        out = {}

        def emit(fr):
            k = self.eval(node.key, fr)
            out[k] = self.eval(node.value, fr)
        self._comp(node.generators, frame, emit)
        return out

    def e_GeneratorExp(self, node, frame):
        out = []
        self._comp(node.generators, frame, lambda fr: out.append(self.eval(node.elt, fr)))
        return iter(out)

    # calls -----------------------------------------------------------------
    def e_Call(self, node, frame):
        f = self.eval(node.func, frame)
        if isinstance(f, Intrinsic) and f.name in SPEC_ARG_INTRINSICS and not self.concrete:
            self.ctx.spec_mode += 1
            try:
                return self._call_with_args(f, node, frame)
            finally:
                self.ctx.spec_mode -= 1
        return self._call_with_args(f, node, frame)

    def _call_with_args(self, f, node, frame):
        args = []
        for a in node.args:
            if isinstance(a, ast.Starred):
                args.extend(self.models.concrete_iter(self, self.eval(a.value, frame)))
            else:
                args.append(self.eval(a, frame))
        kwargs = {}
        for k in node.keywords:
            if k.arg is None:
                kwargs.update(self.eval(k.value, frame))
            else:
                kwargs[k.arg] = self.eval(k.value, frame)
        return self.call_value(f, args, kwargs, node, frame)

    def call_value(self, f, args, kwargs, node=None, frame=None):
        if isinstance(f, Intrinsic):
            return self.models.intrinsic(self, f, args, kwargs, node, frame)
        special = self.models.builtin_method_hook(self, f, args, kwargs)
        if special is not self.models.NOHOOK:
            return special
        if not self.concrete and self.models.is_contextmanager_helper(f) and self.is_analysed(f.__wrapped__) \
                and self.models.lookup_model(f) is None:
            self.inlined_functions[id(f.__wrapped__.__code__)] = f.__wrapped__
            return self.models.GenCM(self, f.__wrapped__, args, kwargs)
        if isinstance(f, Closure):
            return f(*args, **kwargs)
        if getattr(f, "__pyvc_native__", False):
            return self.native(f, *args, **kwargs)
        # bound method of a real object
        if isinstance(f, types.MethodType):
            inner = f.__func__
            if self.is_analysed(inner):
                return self.call_value(inner, [f.__self__] + list(args), kwargs, node, frame)
        m = self.models.lookup_model(f)
        if isinstance(f, types.FunctionType) and self.is_analysed(f) and (m is None or self.concrete):
            return self.call_analysed(f, args, kwargs, node, frame)
        if m is not None and not self.concrete and (deep_sym(args) or deep_sym(kwargs) or _has_fraction(args)
                                                    or _has_fraction(kwargs.values()) or self.models.model_is_always(f)):
            self.trusted_used.add("model:" + m.__name__)
            return m(self, *args, **kwargs)
        if isinstance(f, type) and f.__module__.startswith("typhon") and not self.concrete \
                and (deep_sym(args) or deep_sym(kwargs)
                     or (self.registry is not None and "%s:%s" % (f.__module__, f.__qualname__) in self.registry.interpreted_constructors)):
            return self.models.construct(self, f, args, kwargs, node, frame)
        if deep_sym(args) or deep_sym(kwargs):
            if self.models.transparent(f):
                return self.native(f, *args, **kwargs)
            raise OutsideSubset("call of %s with symbolic arguments has no model"
                                % (getattr(f, "__qualname__", None) or repr(f),))
        return self.native(f, *args, **kwargs)

    def is_analysed(self, f):
        mod = getattr(f, "__module__", "") or ""
        if getattr(f, "__pyvc_thm__", False):
            return True
        return mod.startswith("typhon") and isinstance(f, types.FunctionType)

    def call_analysed(self, f, args, kwargs, node, frame):
        """call of a typhon function: contract (modular) or inline"""
        wrapped = getattr(f, "__wrapped__", None)
        if self.concrete and getattr(f, "__pyvc_thm__", False):
            return self.run_function(f, args, kwargs)
        if self.concrete:
            if deep_sym(args) or deep_sym(kwargs):
                raise OutsideSubset("symbolic value in concrete mode")
            return self.native(f, *args, **kwargs)
        c = self.registry.contract_for(f) if self.registry is not None else None
        if c is None and wrapped is not None:
            c = self.registry.contract_for(wrapped) if self.registry is not None else None
        verifying = self.ctx.ghost.get("verifying")
        if c is not None and not c.inline and not (verifying is c and len(self.call_stack) == 0):
            return self.registry.apply_contract(self, c, f, args, kwargs, node, frame)
        if c is not None and c.inline or self.inline_all or getattr(f, "__pyvc_thm__", False) \
                or (self.registry is not None and self.registry.may_inline(f)):
            self.contracts_used.add("inline:%s:%s" % (f.__module__, f.__qualname__))
            if not getattr(f, "__pyvc_thm__", False):
                self.inlined_functions[id(unwrap(f).__code__)] = f
            return self.run_function(f, args, kwargs)
        if not (deep_sym(args) or deep_sym(kwargs)):
            # all-concrete call of an uncontracted typhon helper: run the real thing
            return self.native(f, *args, **kwargs)
        # a typhon helper without a contract, called with symbolic arguments: its body is interpreted in place (sound; it
        # only costs paths) and the evidence lists it as inlined without having been named in a contract file.  On the
        # baseline tree this never happens (every helper reached is named); it does when an edit introduces a new helper.
        if inspect.isfunction(unwrap(f)):
            self.contracts_used.add("auto-inline:%s:%s" % (f.__module__, f.__qualname__))
            self.inlined_functions[id(unwrap(f).__code__)] = f
            return self.run_function(f, args, kwargs)
        raise OutsideSubset("typhon function %s.%s called with symbolic arguments has no contract"
                            % (f.__module__, f.__qualname__))

    def native(self, f, *args, **kwargs):
        try:
            return self.realify(f(*args, **kwargs))
        except CONTROL:
            raise
        except RecursionError:
            raise
        except Exception as exc:
            raise PyRaise(exc)


_GEN_CACHE = {}


def _is_generator(node):
    k = id(node)
    if k not in _GEN_CACHE:
        found = False
        stack = list(node.body)
        while stack:
            n = stack.pop()
            if isinstance(n, (ast.Yield, ast.YieldFrom)):
                found = True
                break
            if isinstance(n, (ast.FunctionDef, ast.Lambda, ast.ClassDef, ast.GeneratorExp)):
                continue
            stack.extend(ast.iter_child_nodes(n))
        _GEN_CACHE[k] = found
    return _GEN_CACHE[k]


def _has_fraction(vals, depth=0):
    for v in vals:
        if isinstance(v, fractions.Fraction):
            return True
        if depth < 2 and isinstance(v, (list, tuple)) and _has_fraction(v, depth + 1):
            return True
    return False


def _dotted(node):
    if isinstance(node, ast.Name):
        return node.id
    if isinstance(node, ast.Attribute):
        b = _dotted(node.value)
        return None if b is None else b + "." + node.attr
    return None
