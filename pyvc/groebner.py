"""Polynomial-ideal attempt for equational VCs (trigonometric / algebraic identities).

A VC  A1, ..., An |- lhs == rhs  whose goal is an equation between real terms is
proved if  lhs - rhs  reduces to 0 modulo a Groebner basis of the polynomial
equations among the assumptions.  Non-polynomial subterms (applications of
uninterpreted functions such as sin(t), sqrt(u), F_f(x)) are treated as
indeterminates, so the method uses only equalities the assumptions state
(e.g. the instance sin(t)^2 + cos(t)^2 == 1) -- it is sound: ideal membership
implies the equation in every model of the assumptions.  It never refutes.
Back end: sympy (recorded as 'sympy-groebner' in the evidence).
"""
import fractions
import time

import z3


class NotPoly(Exception):
    pass


def _conjuncts(e, out):
    if z3.is_and(e):
        for c in e.children():
            _conjuncts(c, out)
    else:
        out.append(e)


class Atomizer:
    def __init__(self, sp):
        self.sp = sp
        self.atoms = {}       # z3 id -> sympy symbol
        self.terms = {}
        self.memo = {}
        self.divs = []        # (atom, numerator poly, denominator poly, z3 denominator)

    def atom(self, e):
        k = e.get_id()
        if k not in self.atoms:
            self.atoms[k] = self.sp.Symbol("a%d" % len(self.atoms))
            self.terms[k] = e
        return self.atoms[k]

    def poly(self, e):
        k = e.get_id()
        if k in self.memo:
            return self.memo[k]
        r = self._poly(e)
        self.memo[k] = r
        return r

    def _poly(self, e):
        sp = self.sp
        if z3.is_int_value(e):
            return sp.Integer(e.as_long())
        if z3.is_rational_value(e):
            return sp.Rational(e.numerator_as_long(), e.denominator_as_long())
        if not z3.is_app(e) or not (z3.is_real(e) or z3.is_int(e)):
            raise NotPoly()
        k = e.decl().kind()
        ch = e.children()
        if k == z3.Z3_OP_ADD:
            return sum((self.poly(c) for c in ch), sp.Integer(0))
        if k == z3.Z3_OP_SUB:
            r = self.poly(ch[0])
            for c in ch[1:]:
                r = r - self.poly(c)
            return r
        if k == z3.Z3_OP_UMINUS:
            return -self.poly(ch[0])
        if k == z3.Z3_OP_MUL:
            r = sp.Integer(1)
            for c in ch:
                r = r * self.poly(c)
            return r
        if k == z3.Z3_OP_TO_REAL:
            return self.poly(ch[0])
        if k == z3.Z3_OP_DIV:
            d = ch[1]
            if z3.is_rational_value(d) or z3.is_int_value(d):
                dv = self.poly(d)
                if dv == 0:
                    raise NotPoly()
                return self.poly(ch[0]) / dv
            q = self.atom(e)             # quotient by a non-constant: opaque, related to its operands only if the
            try:                         # denominator is provably non-zero (checked in try_groebner)
                self.divs.append((q, self.poly(ch[0]), self.poly(d), d))
            except NotPoly:
                pass
            return q
        if k == z3.Z3_OP_POWER and (z3.is_int_value(ch[1]) and 0 <= ch[1].as_long() <= 8):
            return self.poly(ch[0]) ** ch[1].as_long()
        if k == z3.Z3_OP_UNINTERPRETED or k in (z3.Z3_OP_ITE, z3.Z3_OP_SELECT, z3.Z3_OP_IDIV, z3.Z3_OP_MOD, z3.Z3_OP_TO_INT,
                                                 z3.Z3_OP_POWER):
            return self.atom(e)
        raise NotPoly()


def try_groebner(text, timeout_s=10.0, max_relations=40):
    """returns True if the goal (last assertion = Not(goal)) is proved by ideal membership, else False"""
    try:
        import sympy as sp
    except ImportError:
        return False
    t0 = time.time()
    fs = list(z3.parse_smt2_string(text))
    if not fs:
        return False
    neg = fs[-1]
    if not z3.is_not(neg):
        return False
    goals = []
    _conjuncts(neg.arg(0), goals)
    if not all(z3.is_eq(g) and (z3.is_real(g.arg(0)) or z3.is_int(g.arg(0))) for g in goals):
        return False
    A = Atomizer(sp)
    try:
        goal_polys = [sp.expand(A.poly(g.arg(0)) - A.poly(g.arg(1))) for g in goals]
    except NotPoly:
        return False
    if all(p == 0 for p in goal_polys):
        return True
    # candidate relations: equalities among the assumptions
    eqs = []
    for f in fs[:-1]:
        cs = []
        _conjuncts(f, cs)
        for c in cs:
            if z3.is_eq(c) and (z3.is_real(c.arg(0)) or z3.is_int(c.arg(0))):
                eqs.append(c)
    rels = []
    for c in eqs:
        try:
            p = sp.expand(A.poly(c.arg(0)) - A.poly(c.arg(1)))
        except NotPoly:
            continue
        if p != 0:
            rels.append(p)
        if time.time() - t0 > timeout_s:
            return False
    # q = a / b with b provably non-zero under the assumptions gives the relation q * b - a = 0
    seen_div = set()
    for q, num, den, dz in list(A.divs):
        if q in seen_div:
            continue
        seen_div.add(q)
        s = z3.Solver()
        s.set("timeout", 2000)
        s.add(*fs[:-1])
        s.add(dz == 0)
        if s.check() == z3.unsat:
            rels.append(sp.expand(q * den - num))
    # relevance: keep relations connected to the goal's indeterminates (three rounds), smallest first
    want = set()
    for p in goal_polys:
        want |= p.free_symbols
    chosen = []
    pool = sorted(rels, key=lambda p: len(p.as_ordered_terms()))
    for _ in range(3):
        for p in pool:
            if p in chosen:
                continue
            if p.free_symbols & want:
                chosen.append(p)
        for p in chosen:
            want |= p.free_symbols
    chosen = chosen[:max_relations]
    if not chosen:
        return False
    syms = sorted(set().union(*[p.free_symbols for p in chosen + goal_polys]), key=lambda s: s.name)
    if len(syms) > 40:
        return False
    try:
        import signal

        def _alarm(*a):
            raise TimeoutError()
        old = signal.signal(signal.SIGALRM, _alarm)
        signal.setitimer(signal.ITIMER_REAL, max(1.0, timeout_s - (time.time() - t0)))
        try:
            G = sp.groebner(chosen, *syms, order="grevlex", domain="QQ")
            ok = all(G.reduce(p)[1] == 0 for p in goal_polys)
        finally:
            signal.setitimer(signal.ITIMER_REAL, 0)
            signal.signal(signal.SIGALRM, old)
        return bool(ok)
    except (TimeoutError, Exception):
        return False
