"""Per-property driver: generate VCs from the working tree, discharge, replay, report."""
import concurrent.futures as cf
import fractions
import importlib
import inspect
import json
import os
import random
import sys
import time
import traceback

import z3

from . import sym, solve
from .sym import Sym, SArr, OutsideSubset
from .paths import Explorer, PathEnd
from .interp import Interp, PyRaise, FuncSrc
from .contracts import REG, make_value, fresh_array, Kind

HERE = os.path.dirname(os.path.dirname(os.path.abspath(__file__)))


class VC:
    def __init__(self, oid, smt2, meta, kind, owner):
        self.oid = oid
        self.smt2 = smt2
        self.meta = meta
        self.kind = kind        # 'contract' | 'thm' | 'canary'
        self.owner = owner      # Contract / Theorem label
        self.result = None


def _solve_job(job):
    oid, text, timeout, seed, canary, lean = job
    try:
        if lean is not None and not canary:
            # first with the lean set of analytic axiom instances (fewer irrelevant facts); only `unsat` counts
            r0 = solve.solve_smt2(lean, timeout_s=min(timeout, 12), seed=seed, use_cvc5=False, want_model=False)
            if r0["status"] == "unsat":
                r0["attempts"] = ["lean-axioms"] + r0.get("attempts", [])
                return oid, r0
            # equational goals: polynomial-ideal membership over the equations among the assumptions
            import time as _t
            from . import groebner
            t0 = _t.time()
            if groebner.try_groebner(lean, timeout_s=25.0):
                return oid, {"status": "unsat", "backend": "sympy-groebner", "time_s": round(_t.time() - t0, 3),
                             "attempts": ["lean-axioms:unknown", "sympy-groebner:ideal-membership"]}
        elif not canary and "(* " in text:
            import time as _t
            from . import groebner
            t0 = _t.time()
            r0 = solve.solve_smt2(text, timeout_s=min(timeout, 5), seed=seed, use_cvc5=False, want_model=False)
            if r0["status"] == "unsat":
                return oid, r0
            if groebner.try_groebner(text, timeout_s=25.0):
                return oid, {"status": "unsat", "backend": "sympy-groebner", "time_s": round(_t.time() - t0, 3),
                             "attempts": ["z3/default:unknown(5s)", "sympy-groebner:ideal-membership"]}
        r = solve.solve_smt2(text, timeout_s=timeout, seed=seed, use_cvc5=not canary)
        if r.get("status") in ("sat", "unknown") and "(declare-fun YD " in text and not canary:
            # a model under the ABSTRACT calendar may be an artefact: decide again with the Gregorian closed forms
            from . import timesym
            s0 = z3.Solver()
            s0.add(timesym.exact_calendar(list(z3.parse_smt2_string(text))))
            r2 = solve.solve_smt2(s0.to_smt2(), timeout_s=timeout, seed=seed, use_cvc5=False)
            r2["attempts"] = ["abstract-calendar:%s" % r.get("status")] + r2.get("attempts", [])
            if r2.get("status") == "unsat":
                r2["backend"] = "z3(exact calendar)"
            if r2.get("status") != "unknown" or r.get("status") == "sat":
                r = r2
    except Exception as exc:  # pragma: no cover
        r = {"status": "unknown", "backend": "none", "reason": "worker exception %s" % exc, "time_s": 0}
    return oid, r


class Run:
    def __init__(self, prop, tier="quick", seed=0):
        self.prop = prop
        self.tier = tier
        self.seed = seed
        self.t0 = time.time()
        self.vcs = []
        self.functions = []
        self.notes = []
        self.engine_errors = []
        self.engine_error_owners = []
        self.proof_lost = []
        self.paths = 0
        self.covered = set()
        self.trusted = set()
        self.contracts_used = set()
        self.dropped = []
        self.requires_sat = {}
        self.bounded_results = []
        self.difftests = []
        self.timeout = 30 if tier == "quick" else 120
        self.sym_paths = {}
        self.lemmas = set()

    # ------------------------------------------------------------------ load
    def load(self):
        mod = importlib.import_module("contracts.%s" % self.prop)
        self.module = mod
        self.contracts = [c for c in REG.by_label.values() if c.property in (None, self.prop)]
        self.theorems = [t for t in REG.theorems if t.prop == self.prop]
        self.bounded = [b for b in REG.bounded if b.prop == self.prop]
        return mod

    # ----------------------------------------------------------- VC generation
    def _note_inlined(self, interp):
        for f in interp.inlined_functions.values():
            try:
                prov = FuncSrc.get(f).provenance()
            except OutsideSubset:
                continue
            if not any(x["function"] == prov["function"] for x in self.functions):
                prov["inlined"] = True
                self.functions.append(prov)

    def _collect(self, paths, kind, owner, canary=False, deps=()):
        deps = sorted({d[len("inline:"):] if d.startswith("inline:") else d for d in deps})
        for p in paths:
            self.paths += 1
            self.lemmas |= p.ghost.get("auto_lemmas", set())
            self.covered |= p.covered
            for ob in p.obligations:
                text = solve.to_smt2(ob.assumptions, ob.goal, ())
                meta = dict(ob.meta)
                meta["deps"] = deps
                if "uf_" in text:
                    extra = solve.analytic_instances(ob.assumptions + [ob.goal])
                    text = solve.to_smt2(ob.assumptions, ob.goal, extra)
                    lean = solve.analytic_instances(ob.assumptions + [ob.goal], rounds=1, lean=True)
                    meta["_lean_smt2"] = solve.to_smt2(ob.assumptions, ob.goal, lean)
                else:
                    meta["_lean_smt2"] = None
                meta["path"] = "".join(str(int(d)) for d in ob.path)
                k = "canary" if ((canary and ob.oid.startswith("thm/") and "/no-exception:" not in ob.oid) or meta.get("canary")) else kind
                if canary and k != "canary":
                    k = "canary-aux"        # side obligations of a deliberately false theorem: not part of any verdict
                self.vcs.append(VC(ob.oid, text, meta, k, owner))

    def gen_contract(self, c):
        interp = Interp(REG)
        variants = ["scalar"]
        if c.elementwise:
            variants = ["scalar", "array"]
        configs = c.configs or [{}]
        src = FuncSrc.get(c.fn_inner)
        self.functions.append(src.provenance())
        for variant in variants:
            for ci, cfg in enumerate(configs):
                tag = c.short + ("" if variant == "scalar" else "[array]") + ("" if not c.configs else "[cfg%d]" % ci)

                def program(ctx, variant=variant, cfg=cfg, tag=tag):
                    self._contract_program(ctx, interp, c, variant, cfg, tag)
                try:
                    paths = Explorer().run(program)
                except OutsideSubset as exc:
                    self.engine_errors.append("%s: outside subset: %s" % (tag, exc))
                    self.engine_error_owners.append(c)
                    continue
                self._collect(paths, "contract", c.label, deps=set(interp.contracts_used) | {c.label})
                if variant == "scalar":
                    self.sym_paths.setdefault(c.label, []).extend(paths)
        self.trusted |= interp.trusted_used
        self.contracts_used |= interp.contracts_used
        self.dropped += interp.dropped
        self.lemmas |= interp.lemmas_used
        self._note_inlined(interp)

    def _contract_program(self, ctx, interp, c, variant, cfg, tag):
        ctx.ghost["verifying"] = c
        sig = inspect.signature(c.fn_inner)
        env = {}
        k0 = None
        n = None
        if c.setup is not None:
            env = c.setup(ctx, cfg)
        else:
            params = dict(c.params or {})
            for name, p in sig.parameters.items():
                if name in cfg:
                    env[name] = cfg[name]
                    continue
                if name not in params:
                    if p.default is not inspect.Parameter.empty:
                        continue
                    raise OutsideSubset("no kind for parameter %s of %s" % (name, c.label))
                kind = params[name]
                if variant == "array" and kind in ("real", "posreal", "int"):
                    if n is None:
                        n = ctx.fresh("n", "int")
                        ctx.assume(n >= 1)
                        k0 = ctx.fresh("k0", "int")
                        ctx.assume(z3.And(k0.e >= 0, k0.e < n.e))
                    env[name] = fresh_array(ctx, name, (n,), "int" if kind == "int" else "real")
                else:
                    env[name] = make_value(ctx, kind, name)

        try:
            _b = sig.bind(**env)
            _b.apply_defaults()
            env = dict(_b.arguments)      # parameters left to their defaults are visible to the clauses
        except TypeError:
            pass

        def at1(v, k):
            if isinstance(v, SArr):
                return v.fn(k)
            if isinstance(v, tuple):
                return tuple(at1(x, k) for x in v)
            return v

        def at_k0(e, k):
            return {a: (at1(v, k) if variant == "array" else v) for a, v in e.items()}
        # requires
        for r in c.requires:
            if variant == "array":
                q = z3.Int(ctx.fresh_name("qr"))
                body = REG.eval_clause(interp, r, c, at_k0(env, Sym(q)))
                ctx.assume(z3.ForAll([q], z3.Implies(z3.And(q >= 0, q < n.e), sym.truth(body))))
                ctx.assume(REG.eval_clause(interp, r, c, at_k0(env, k0)))
            else:
                ctx.assume(REG.eval_clause(interp, r, c, env))
        if tag not in self.requires_sat:
            self.requires_sat[tag] = solve.quick_check(ctx.pc, 5000)
        if c.variant:
            ctx.ghost["variant0"] = REG.eval_clause(interp, c.variant, c, env)
        old = {("old_" + a): (v.copy() if isinstance(v, SArr) else v) for a, v in env.items()}
        ctx.ghost["thm_label"] = "post/" + tag
        try:
            bound = sig.bind(**env)
            result = interp.run_function(c.fn_inner, bound.args, bound.kwargs, label=c.label)
        except PyRaise as pr:
            conds = [cond for cond, exc in c.raises if isinstance(pr.exc, exc)]
            envx = at_k0(env, k0) if variant == "array" else env
            if variant == "array":
                # raised iff the condition holds somewhere: exists-instance is the generic k of the model;
                # we only require that the failing condition is satisfiable under the path (checked as Or over any index)
                q = z3.Int(ctx.fresh_name("qx"))
                gs = [z3.Exists([q], z3.And(q >= 0, q < n.e, sym.truth(REG.eval_clause(interp, cd, c, at_k0(env, Sym(q))))))
                      for cd in conds]
            else:
                gs = [sym.truth(REG.eval_clause(interp, cd, c, envx)) for cd in conds]
            goal = z3.Or(gs) if gs else z3.BoolVal(False)
            ctx.oblige("raises/%s/%s" % (tag, type(pr.exc).__name__), goal,
                       clause="raises %s only if %s" % (type(pr.exc).__name__, " or ".join(conds) or "never"),
                       exc=repr(pr.exc)[:200])
            ctx.cover("raise/%s/%s" % (tag, type(pr.exc).__name__))
            return
        ctx.cover("return/%s" % tag)
        ctx.ghost["sym_result"] = result
        ctx.ghost["sym_pc"] = list(ctx.pc)
        envp = dict(env)
        envp.update(old)
        envp["result"] = result
        envp["_locals"] = dict(getattr(interp, "top_frame", None).locals) if getattr(interp, "top_frame", None) else {}
        if variant == "array":
            envp = at_k0(envp, k0)
            for j, (cond, exc) in enumerate(c.raises):
                q = z3.Int(ctx.fresh_name("qn"))
                body = REG.eval_clause(interp, cond, c, at_k0(env, Sym(q)))
                ctx.oblige("noraise/%s/%d" % (tag, j),
                           z3.ForAll([q], z3.Implies(z3.And(q >= 0, q < n.e), z3.Not(sym.truth(body)))),
                           clause="returns normally only if not (%s)" % cond)
        else:
            for j, (cond, exc) in enumerate(c.raises):
                g = REG.eval_clause(interp, cond, c, env)
                ctx.oblige("noraise/%s/%d" % (tag, j), z3.Not(sym.truth(g)),
                           clause="returns normally only if not (%s)" % cond)
        # frame: array arguments are not modified in place unless the contract says so (callers keep using them)
        modifies = set(c.frame or ())
        for a, v in env.items():
            if isinstance(v, SArr) and a not in modifies and ("old_" + a) in old:
                o = old["old_" + a]
                idx = interp.models.generic_index(interp, v)
                ctx.oblige("frame/%s/%s" % (tag, a), lift_eq(v.at(*idx), o.at(*idx)),
                           clause="argument array `%s` is left unchanged" % a)
        for lem in c.lemmas:
            from . import sumtheory
            sumtheory.use_lemma(interp, lem[0], [envp[a] if isinstance(a, str) else a for a in lem[1:]])
        for j, e in enumerate(c.ensures):
            g = REG.eval_clause(interp, e, c, envp)
            ctx.oblige("post/%s/%d" % (tag, j), g, clause=e)
        for j, e in enumerate(c.canaries):
            g = REG.eval_clause(interp, e, c, envp)
            # canaries are obligations that MUST fail; recorded without being assumed
            pc = list(ctx.pc)
            ctx.obligations.append(_mk_ob("canary/%s/%d" % (tag, j), pc, sym.truth(g), e, ctx))

    def gen_theorem(self, t):
        interp = Interp(REG)
        sig = inspect.signature(t.fn)

        def program(ctx):
            ctx.ghost["thm_label"] = t.label
            args = {}
            for name, p in sig.parameters.items():
                if p.kind is inspect.Parameter.VAR_KEYWORD:
                    for n2, k2 in t.params.items():     # `**values`: one fresh value per declared kind
                        if n2 != "canary" and n2 not in sig.parameters:
                            args[n2] = make_value(ctx, k2, n2)
                    continue
                kind = t.params.get(name, p.annotation if p.annotation is not inspect.Parameter.empty else "real")
                args[name] = make_value(ctx, kind, name)
            try:
                interp.run_function(t.fn, [], args, label=t.label)
            except PyRaise as pr:
                # the theorem's client program must not raise: the path that raises has to be infeasible
                ctx.oblige("%s/no-exception:%s" % (t.label, type(pr.exc).__name__), False,
                           clause="the client program raises %r on this path" % (pr.exc,), exc=repr(pr.exc)[:200])
                return
            ctx.cover("thm-end/" + t.label)
        try:
            paths = Explorer().run(program)
        except OutsideSubset as exc:
            self.engine_errors.append("%s: outside subset: %s" % (t.label, exc))
            self.engine_error_owners.append(t)
            return
        except PyRaise as pr:
            self.engine_errors.append("%s: theorem program raised %r" % (t.label, pr.exc))
            self.engine_error_owners.append(t)
            return
        self._collect(paths, "thm", t.label, canary=t.params.get("canary", False), deps=set(interp.contracts_used))
        self._note_inlined(interp)
        self.trusted |= interp.trusted_used
        self.contracts_used |= interp.contracts_used
        self.dropped += interp.dropped
        self.lemmas |= interp.lemmas_used

    def gen_theorems_parallel(self, workers=14):
        """VC generation of the theorem programs in forked worker processes (each theorem is independent)"""
        global _CURRENT_RUN
        if len(self.theorems) < 4:
            for t in self.theorems:
                self.gen_theorem(t)
            return
        import multiprocessing as mp
        _CURRENT_RUN = self
        ctxmp = mp.get_context("fork")
        with cf.ProcessPoolExecutor(max_workers=min(workers, len(self.theorems)), mp_context=ctxmp) as ex:
            for part in ex.map(_gen_theorem_job, range(len(self.theorems)), chunksize=1):
                for oid, smt2, meta, kind, owner in part["vcs"]:
                    self.vcs.append(VC(oid, smt2, meta, kind, owner))
                self.engine_errors += part["engine_errors"]
                self.engine_error_owners += [self.theorems[i] for i in part["engine_error_owner_idx"]]
                self.paths += part["paths"]
                self.covered |= part["covered"]
                self.trusted |= part["trusted"]
                self.contracts_used |= part["contracts_used"]
                self.dropped += part["dropped"]
                self.lemmas |= part["lemmas"]
                for f in part["functions"]:
                    if not any(x["function"] == f["function"] for x in self.functions):
                        self.functions.append(f)
                solve.USED_AXIOMS |= part["axioms"]

    def gen_lemmas(self):
        """proof obligations (base / step) of every sum lemma used in this run"""
        from . import sumtheory
        for name in sorted(self.lemmas):
            for oid, text in sumtheory.lemma_obligations(name):
                self.vcs.append(VC(oid, text, {"clause": "induction proof of lemma %s" % name}, "lemma", "lemma:" + name))

    # ------------------------------------------------------------- discharge
    def discharge(self, workers=None):
        self.gen_lemmas()
        jobs = [(i, v.smt2, self.timeout if v.kind != "canary" else 6, self.seed, v.kind == "canary", v.meta.get("_lean_smt2"))
                for i, v in enumerate(self.vcs)]
        workers = workers or min(14, max(1, len(jobs)))
        if not jobs:
            return
        with cf.ProcessPoolExecutor(max_workers=workers) as ex:
            for i, r in ex.map(_solve_job, jobs, chunksize=1):
                self.vcs[i].result = r


_CURRENT_RUN = None


def _gen_theorem_job(idx):
    run = _CURRENT_RUN
    t = run.theorems[idx]
    sub = Run(run.prop, run.tier, run.seed)
    sub.theorems = run.theorems
    sub.contracts = run.contracts
    sub.gen_theorem(t)
    return {"vcs": [(v.oid, v.smt2, v.meta, v.kind, v.owner) for v in sub.vcs],
            "engine_errors": sub.engine_errors, "engine_error_owner_idx": [idx] * len(sub.engine_errors),
            "paths": sub.paths, "covered": sub.covered, "trusted": sub.trusted, "contracts_used": sub.contracts_used,
            "dropped": sub.dropped, "lemmas": sub.lemmas, "functions": sub.functions, "axioms": set(solve.USED_AXIOMS)}


def lift_eq(a, b):
    if isinstance(a, Sym) or isinstance(b, Sym):
        return a == b
    return bool(a == b)


def _mk_ob(oid, pc, goal, clause, ctx):
    from .paths import Obligation
    return Obligation(oid, pc, goal, {"clause": clause, "canary": True}, list(ctx.decisions))


# =============================================================================
# replay, differential test, bounded tier, report
# =============================================================================
def _frac(s):
    return fractions.Fraction(s)


def model_value(model, name, tables=None):
    if model is None or name not in model:
        return None
    kind, val = model[name]
    if kind == "int":
        return int(val)
    if kind == "real":
        return _frac(val)
    if kind == "bool":
        return val == "True"
    return None


class DummyCtx:
    """runs fn inside a throw-away path context (concrete evaluation needs one)"""

    def __init__(self):
        self.result = None
        self.ghost = None

    def run(self, fn):
        box = {}

        def program(ctx):
            box["ghost"] = ctx.ghost
            box["result"] = fn(ctx)
        paths = Explorer().run(program)
        self.ghost = box.get("ghost")
        # a concrete evaluation never forks; if it did (a clause produced a symbolic truth value, e.g. a quantifier over the
        # reals), the outcome is not a verdict about the concrete input
        self.forked = len(paths) > 1 or any(p.decisions for p in paths)
        return box.get("result")


def _to_float(v):
    if isinstance(v, fractions.Fraction):
        return float(v)
    return v


def call_real(fn, args, kwargs=None):
    """the real function under CPython, with outcome classification"""
    try:
        return ("ok", fn(*args, **(kwargs or {})))
    except Exception as exc:  # the real code's own exception
        return ("raise", exc)


UNDECIDABLE = "not decidable on concrete values"


def eval_clause_concrete(c_or_globals, clause, env):
    interp = Interp(REG, concrete=True)
    interp.tolerant = 1

    def fn(ctx):
        return REG.eval_clause(interp, clause, c_or_globals, env)
    try:
        d = DummyCtx()
        r = d.run(fn)
        if d.forked or isinstance(r, Sym):
            return UNDECIDABLE
        return bool(r)
    except PyRaise as pr:
        return ("error", repr(pr.exc))


def default_sampler(c, rng):
    dom = getattr(c, "domain", None) or {}
    out = {}
    for name, kind in (c.params or {}).items():
        lo, hi = dom.get(name, (-5.0, 5.0))
        tag = kind if isinstance(kind, str) else getattr(kind, "tag", None)
        if tag in ("real", "posreal"):
            r = rng.random()
            special = [x for x in (0.0, 1.0, 0.5, 0.25, 2.0, -1.0) if lo <= x <= hi]     # (only inside the stated domain)
            if r < 0.15 and special:
                v = rng.choice(special)
            else:
                v = rng.uniform(lo, hi)
            if tag == "posreal":
                v = abs(v) + 1e-3
            out[name] = v
        elif tag in ("int", "nat"):
            v = rng.randint(int(lo), int(hi))
            out[name] = abs(v) if tag == "nat" else v
        elif tag == "bool":
            out[name] = rng.random() < 0.5
        else:
            return None
    return out


def _elementwise_args(c, args):
    """for an element-wise contract called with arrays / lists: the common shape and a function giving the scalar
    arguments of element k (None if every argument is a scalar)"""
    import numpy as np
    if not c.elementwise:
        return None
    kinds = c.params or {}
    arr = {n: np.asarray(v) for n, v in args.items()
           if kinds.get(n) in ("real", "posreal", "int") and isinstance(v, (np.ndarray, list)) and np.ndim(v) >= 1}
    if not arr:
        return None
    shape = np.broadcast_shapes(*[a.shape for a in arr.values()])
    flat = {n: np.broadcast_to(a, shape).ravel() for n, a in arr.items()}
    size = int(np.prod(shape)) if shape else 1
    return shape, size, (lambda k: {n: (flat[n][k].item() if n in flat else v) for n, v in args.items()})


def _contract_check_elementwise(c, args, ew):
    """the real function is called ONCE with the arrays (that is what the caller does); every clause is then evaluated
    per element on scalars"""
    import copy
    import numpy as np
    shape, size, at = ew
    sig = inspect.signature(c.fn_inner)
    for k in range(size):
        b0 = sig.bind(**at(k))
        b0.apply_defaults()
        for r in c.requires:
            v = eval_clause_concrete(c, r, dict(b0.arguments))
            if v is UNDECIDABLE:
                continue
            if v is not True:
                return "skip", None
    b = sig.bind(**args)
    try:
        call_args, call_kwargs = copy.deepcopy(b.args), copy.deepcopy(b.kwargs)
    except Exception:
        call_args, call_kwargs = b.args, b.kwargs
    kind, out = call_real(c.fn_inner, call_args, call_kwargs)
    if kind == "raise":
        return "fail", {"clause": "no exception for admissible array arguments", "real_outcome": "raised %r" % (out,)}

    def comp(o):
        if isinstance(o, tuple):
            return tuple(comp(x) for x in o)
        a = np.asarray(o)
        if a.shape != tuple(shape):
            raise ValueError("result shape %r for arguments of common shape %r" % (a.shape, tuple(shape)))
        return a.ravel()
    try:
        flat_out = comp(out)
    except ValueError as exc:
        return "fail", {"clause": "the result has the (broadcast) shape of the arguments", "real_outcome": str(exc)}

    def pick(o, k):
        return tuple(pick(x, k) for x in o) if isinstance(o, tuple) else o[k].item()
    for k in range(size):
        b0 = sig.bind(**at(k))
        b0.apply_defaults()
        env = dict(b0.arguments)
        env["result"] = pick(flat_out, k)
        for j, e in enumerate(c.ensures):
            if "_locals" in e:
                continue
            v = eval_clause_concrete(c, e, env)
            if v is UNDECIDABLE:
                continue
            if v is not True:
                return "fail", {"clause": e, "index": j, "element": k, "element_args": {n: x for n, x in at(k).items() if not callable(x)},
                                "real_outcome": _short(out), "clause_value": v}
    # frame: an element-wise function leaves its array arguments as they were
    for n, v in args.items():
        if isinstance(v, np.ndarray):
            pos = list(sig.parameters).index(n)
            after = call_args[pos] if pos < len(call_args) else call_kwargs.get(n)
            if isinstance(after, np.ndarray) and not np.array_equal(after, v, equal_nan=after.dtype.kind == "f"):
                return "fail", {"clause": "frame: argument %s is not modified" % n, "real_outcome": _short(after)}
    return "ok", None


def contract_check_concrete(c, args):
    """evaluate contract c on concrete args against the real function.
    returns (verdict, detail): verdict in 'skip' (requires false), 'ok', 'fail'"""
    ew = _elementwise_args(c, args)
    if ew is not None:
        return _contract_check_elementwise(c, args, ew)
    sig = inspect.signature(c.fn_inner)
    b = sig.bind(**args)
    b0 = sig.bind(**args)
    b0.apply_defaults()
    env = dict(b0.arguments)
    for r in c.requires:
        v = eval_clause_concrete(c, r, env)
        if v is UNDECIDABLE:
            continue            # (the sampler is responsible for such preconditions, e.g. positive definiteness)
        if v is not True:
            return "skip", None
    import copy
    try:
        call_args = copy.deepcopy(b.args)
    except Exception:
        call_args = b.args
    kind, out = call_real(c.fn_inner, call_args, b.kwargs)
    if kind == "raise":
        conds = [cond for cond, exc in c.raises if isinstance(out, exc)]
        ok = any(eval_clause_concrete(c, cd, env) is True for cd in conds)
        if ok:
            return "ok", None
        return "fail", {"clause": "raises %s" % type(out).__name__, "real_outcome": "raised %r" % (out,)}
    for cond, exc in c.raises:
        if eval_clause_concrete(c, cond, env) is True:
            return "fail", {"clause": "must raise %s when %s" % (exc.__name__, cond),
                            "real_outcome": "returned %r" % (out,)}
    env["result"] = out
    for a, v in args.items():
        env["old_" + a] = v
    for j, e in enumerate(c.ensures):
        if "_locals" in e:
            continue            # ghost clause about locals at exit: only meaningful for the verifier
        v = eval_clause_concrete(c, e, env)
        if v is UNDECIDABLE:
            continue            # not decidable on concrete values (e.g. a quantifier over the reals): left to the proof
        if v is not True:
            return "fail", {"clause": e, "index": j, "real_outcome": _short(out), "clause_value": v}
    return "ok", None


def _short(v, n=300):
    s = repr(v)
    return s if len(s) <= n else s[:n] + "..."


def theorem_check_concrete(t, args):
    """run the theorem program on the real functions with concrete args.
    returns list of (label, bool) for each ensures reached, or 'skip'"""
    interp = Interp(REG, concrete=True)
    interp.tolerant = 1
    d = DummyCtx()

    def fn(ctx):
        ctx.ghost["thm_label"] = t.label
        interp.run_function(t.fn, [], dict(args), label=t.label)
    try:
        d.run(fn)
    except PyRaise as pr:
        return [("<exception>", False, repr(pr.exc))]
    res = (d.ghost or {}).get("replay_results", [])
    return [(l, ok, "") for l, ok in res]
