"""C19 -- retrieval scores (typhon/retrieval/scores.py)."""
import numpy as _np
from pyvc.dsl import *
from pyvc.contracts import fresh_array as _fa
from typhon.retrieval import scores as S

P = "C19"
M = "typhon.retrieval.scores:"

NOT_DECIDED = [
    "the constant minimising mean_quantile_score is a tau-quantile of the sample (a theorem about minimisers; "
    "checked only by the bounded stand-in below)",
]
ASSUMPTIONS = [
    "np.mean / np.nanmean == SUM/n with SUM the finite-sum specification function (no NaNs under A2)",
    "sum_perm (trusted): a finite sum is invariant under a bijective re-indexing",
]


# ------------------------------------------------------------------ quantile_score
def _setup_qs(ctx, cfg):
    n = ctx.fresh("n", "int")
    k = ctx.fresh("k", "int")
    ctx.assume(n >= 1)
    ctx.assume(k >= 1)
    if cfg.get("mismatch"):
        n2 = ctx.fresh("n2", "int")
        ctx.assume(n2 >= 1)
    else:
        n2 = n
    return dict(y_tau=_fa(ctx, "y_tau", (n, k)), y_test=_fa(ctx, "y_test", (n2,)), taus=_fa(ctx, "taus", (k,)))


PINBALL = ("ite(y_tau[i, j] < y_test[i], taus[j] * abs(y_tau[i, j] - y_test[i]), "
           "(1 - taus[j]) * abs(y_tau[i, j] - y_test[i]))")
c_qs = contract(M + "quantile_score", prop=P, setup=_setup_qs, configs=[{}, {"mismatch": True}], pure=False,
                raises=[("len(y_test) != len(y_tau)", ValueError)],
                result=lambda ctx, env: _fa(ctx, "qs", env["y_tau"].shape),
                ensures=["forall(0, len(y_tau), lambda i: forall(0, len(taus), lambda j: result[i, j] == %s))" % PINBALL],
                canaries=["forall(0, len(y_tau), lambda i: forall(0, len(taus), lambda j: result[i, j] == 0))"])


def _qs_sampler(rng):
    n, k = rng.randint(1, 5), rng.randint(1, 3)
    n2 = n if rng.random() < 0.8 else n + 1
    y_tau = _np.array([[rng.choice([0.0, 1.0, 2.5, -1.0, rng.uniform(-3, 3)]) for _ in range(k)] for _ in range(n)])
    if rng.random() < 0.3:
        y_tau = _np.array([[rng.randint(-3, 3) for _ in range(k)] for _ in range(n)], dtype=rng.choice([_np.int64, _np.int32]))   # count / quantised estimates
    return dict(y_tau=y_tau,
                y_test=_np.array([rng.choice([0.0, 1.0, 2.5, -1.0, rng.uniform(-3, 3)]) for _ in range(n2)]),
                taus=_np.array([rng.uniform(0.01, 0.99) for _ in range(k)]))


c_qs.sampler = _qs_sampler


@theorem(P, "pinball")
def thm_pinball(n: "int", k: "int"):
    requires(n >= 1, k >= 1)
    y_tau = fresh_array("y_tau", (n, k))
    y = fresh_array("y", n)
    taus = fresh_array("taus", k)
    i = fresh("i", "int")
    j = fresh("j", "int")
    requires(0 <= i, i < n, 0 <= j, j < k, 0 < taus[j], taus[j] < 1)
    q = S.quantile_score(y_tau, y, taus)
    d = y_tau[i, j] - y[i]
    ensures(implies(y_tau[i, j] < y[i], q[i, j] == taus[j] * abs(d)), id="estimate below observation: tau |d|")
    ensures(implies(y_tau[i, j] > y[i], q[i, j] == (1 - taus[j]) * abs(d)), id="estimate above observation: (1 - tau) |d|")
    ensures(q[i, j] >= 0, id="non-negative")
    ensures(iff(q[i, j] == 0, d == 0), id="zero exactly when estimate and observation coincide")


@theorem(P, "inconsistent-shapes-rejected")
def thm_shapes(n: "int", n2: "int", k: "int"):
    requires(n >= 1, k >= 1, n2 >= 1, n2 != n)
    y_tau = fresh_array("y_tau", (n, k))
    y = fresh_array("y", n2)
    taus = fresh_array("taus", k)
    ensures(expect_raises(ValueError, S.quantile_score, y_tau, y, taus), id="ValueError for inconsistent shapes")


REG.inline_ok.add(M + "mean_quantile_score")


@theorem(P, "mean-quantile-score")
def thm_mean_qs(n: "int", k: "int"):
    requires(n >= 1, k >= 1)
    y_tau = fresh_array("y_tau", (n, k))
    y = fresh_array("y", n)
    taus = fresh_array("taus", k)
    j = fresh("j", "int")
    requires(0 <= j, j < k)
    r = S.mean_quantile_score(y_tau, y, taus)
    ensures(r[j] == ssum(n, lambda i: ite(y_tau[i, j] < y[i], taus[j] * abs(y_tau[i, j] - y[i]),
                                            (1 - taus[j]) * abs(y_tau[i, j] - y[i]))) / n,
            id="column mean of the pinball losses")


# ------------------------------------------------------------------ mape / bias
def _setup_pair(ctx, cfg):
    n = ctx.fresh("n", "int")
    ctx.assume(n >= 1)
    return dict(y_pred=_fa(ctx, "y_pred", (n,)), y_test=_fa(ctx, "y_test", (n,)))


NONZERO = "forall(0, len(y_test), lambda i: y_test[i] != 0)"
c_mape = contract(M + "mape", prop=P, setup=_setup_pair, pure=False, result="real",
                  requires=[NONZERO, "len(y_pred) == len(y_test)"],
                  ensures=["result == ssum(len(y_test), lambda i: 100 * abs(y_pred[i] - y_test[i]) / abs(y_test[i])) / len(y_test)"])
c_bias = contract(M + "bias", prop=P, setup=_setup_pair, pure=False, result="real",
                  requires=[NONZERO, "len(y_pred) == len(y_test)"],
                  ensures=["result == ssum(len(y_test), lambda i: 100 * (y_pred[i] - y_test[i]) / y_test[i]) / len(y_test)"])


def _pair_sampler(rng):
    n = rng.randint(1, 6)
    yt = _np.array([rng.choice([1.0, -2.0, 0.5, rng.uniform(0.1, 5)]) for _ in range(n)])
    yp = _np.array([rng.uniform(-5, 5) for _ in range(n)])
    return dict(y_pred=yp, y_test=yt)


c_mape.sampler = c_bias.sampler = _pair_sampler


from pyvc.sumtheory import algebraic_lemma as _alg
import z3 as _z3
_alg("mean_of_const", 3, lambda s, n, c: _z3.Implies(_z3.And(n != 0, s == n * c), s / n == c))


@theorem(P, "scores-perfect-and-uniform")
def thm_uniform(n: "int", p: "real"):
    requires(n >= 1)
    y = fresh_array("y", n)
    requires(forall(0, n, lambda i: y[i] != 0))
    pred = y * (1 + p / 100)
    # pointwise facts first (pure arithmetic, proved before any sum machinery enters the context)
    pointwise(n, lambda i: 100 * abs(pred[i] - y[i]) / abs(y[i]) == abs(p), id="each mape term is |p|")
    pointwise(n, lambda i: 100 * (pred[i] - y[i]) / y[i] == p, id="each bias term is p")
    # perfect prediction
    m0 = S.mape(y, y)
    b0 = S.bias(y, y)
    use_lemma("sum_const", array_of(n, lambda i: 100 * abs(y[i] - y[i]) / abs(y[i])), 0, n)
    use_lemma("sum_const", array_of(n, lambda i: 100 * (y[i] - y[i]) / y[i]), 0, n)
    use_lemma("mean_of_const", ssum(n, lambda i: 100 * abs(y[i] - y[i]) / abs(y[i])), n, 0)
    use_lemma("mean_of_const", ssum(n, lambda i: 100 * (y[i] - y[i]) / y[i]), n, 0)
    ensures(m0 == 0, id="mape == 0 for perfect predictions")
    ensures(b0 == 0, id="bias == 0 for perfect predictions")
    # predictions uniformly p percent off (p > 0: too high, p < 0: too low)
    m = S.mape(pred, y)
    b = S.bias(pred, y)
    use_lemma("sum_const", array_of(n, lambda i: 100 * abs(pred[i] - y[i]) / abs(y[i])), abs(p), n)
    use_lemma("sum_const", array_of(n, lambda i: 100 * (pred[i] - y[i]) / y[i]), p, n)
    use_lemma("mean_of_const", ssum(n, lambda i: 100 * abs(pred[i] - y[i]) / abs(y[i])), n, abs(p))
    use_lemma("mean_of_const", ssum(n, lambda i: 100 * (pred[i] - y[i]) / y[i]), n, p)
    ensures(m == abs(p), id="mape == |p| for uniform p percent error")
    ensures(b == p, id="bias == +p / -p for predictions uniformly p percent too high / too low")


@theorem(P, "scores-scale-invariant")
def thm_scale(n: "int", s: "real"):
    requires(n >= 1, s != 0)
    y = fresh_array("y", n)
    pred = fresh_array("pred", n)
    requires(forall(0, n, lambda i: y[i] != 0))
    pointwise(n, lambda i: 100 * abs(pred[i] * s - y[i] * s) / abs(y[i] * s) == 100 * abs(pred[i] - y[i]) / abs(y[i]),
              id="mape terms unchanged")
    pointwise(n, lambda i: 100 * (pred[i] * s - y[i] * s) / (y[i] * s) == 100 * (pred[i] - y[i]) / y[i],
              id="bias terms unchanged")
    ensures(S.mape(pred * s, y * s) == S.mape(pred, y), id="mape unchanged under common scaling")
    ensures(S.bias(pred * s, y * s) == S.bias(pred, y), id="bias unchanged under common scaling")


@lemma_axiom("sum_perm")
def _sum_perm(A, B, pi, n):
    """trusted: if pi is a bijection of [0,n) and B[i] == A[pi(i)] then SUM(B,n) == SUM(A,n)"""
    import z3
    from pyvc.sumtheory import SUM
    i, j = z3.Ints("i!p j!p")
    inr = lambda t: z3.And(t >= 0, t < n)
    bij = z3.And(z3.ForAll([i], z3.Implies(inr(i), inr(pi(i)))),
                 z3.ForAll([i, j], z3.Implies(z3.And(inr(i), inr(j), i != j), pi(i) != pi(j))))
    rel = z3.ForAll([i], z3.Implies(inr(i), B[i] == A[pi(i)]))
    return z3.Implies(z3.And(bij, rel), SUM(B, n) == SUM(A, n))


@theorem(P, "scores-order-independent")
def thm_perm(n: "int"):
    # re-ordering prediction and truth by the same bijection pi leaves both scores unchanged;
    # the code side (elementwise terms commute with re-indexing) is proved, sum_perm itself is trusted
    requires(n >= 1)
    y = fresh_array("y", n)
    pred = fresh_array("pred", n)
    requires(forall(0, n, lambda i: y[i] != 0))
    pi = uf("pi", 1, domain="int", range="int")
    requires(forall(0, n, lambda i: 0 <= pi(i) and pi(i) < n))
    y2 = array_of(n, lambda i: y[pi(i)])
    p2 = array_of(n, lambda i: pred[pi(i)])
    m1 = S.mape(pred, y)
    m2 = S.mape(p2, y2)
    b1 = S.bias(pred, y)
    b2 = S.bias(p2, y2)
    use_axiom("sum_perm", array_of(n, lambda i: 100 * abs(pred[i] - y[i]) / abs(y[i])),
              array_of(n, lambda i: 100 * abs(p2[i] - y2[i]) / abs(y2[i])), pi, n)
    use_axiom("sum_perm", array_of(n, lambda i: 100 * (pred[i] - y[i]) / y[i]),
              array_of(n, lambda i: 100 * (p2[i] - y2[i]) / y2[i]), pi, n)
    inj = fresh("inj", "bool")   # pi injective on [0, n)
    a = fresh("a", "int")
    b = fresh("b", "int")
    requires(forall(0, n, lambda i: forall(0, n, lambda j: implies(i != j, pi(i) != pi(j)))))
    ensures(m2 == m1, id="mape ignores the order of the samples")
    ensures(b2 == b1, id="bias ignores the order of the samples")


# ------------------------------------------------------------------ bounded stand-in (never counted as proved)
@bounded(P, "minimiser-is-quantile", "all samples of 1..5 values from the lattice {0,1,2,3}, tau in {0.1,0.25,0.5,0.75,0.9}")
def bounded_minimiser(rng, tier):
    import itertools
    lattice = [0.0, 1.0, 2.0, 3.0]
    taus = [0.1, 0.25, 0.5, 0.75, 0.9]
    cands = sorted(set(lattice + [x + 0.5 for x in lattice[:-1]]))
    evals, distinct, failures, samples = 0, set(), [], []
    for n in range(1, 6):
        for sample in itertools.combinations_with_replacement(lattice, n):
            y = _np.array(sample)
            for tau in taus:
                losses = [float(S.mean_quantile_score(_np.full((n, 1), c), y, [tau])[0]) for c in cands]
                evals += 1
                distinct.add((sample, tau))
                best = min(losses)
                mins = [c for c, l in zip(cands, losses) if abs(l - best) <= 1e-12]
                ok_any = False
                for c in mins:
                    below = _np.mean(y < c)
                    upto = _np.mean(y <= c)
                    if below <= tau + 1e-12 and tau <= upto + 1e-12:
                        ok_any = True
                    elif c in lattice and c in sample:
                        failures.append({"sample": list(sample), "tau": tau, "minimiser": c})
                if not ok_any:
                    failures.append({"sample": list(sample), "tau": tau, "minimisers": mins})
                if len(samples) < 3:
                    samples.append({"sample": list(sample), "tau": tau, "minimisers": mins})
    return {"evaluations": evals, "distinct_nontrivial": len(distinct), "failures": failures, "samples": samples,
            "exhaustive": True}
