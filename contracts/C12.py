"""C12 -- compress / decompress round-trip any content and never leave debris (typhon/files/utils.py).

compress, compress_as and decompress are loop-free, so injecting a fault at every I/O call (and an exception at the
`yield`, i.e. inside the caller's with-block) enumerates ALL exception points.  They run against a ghost disk; the
codecs are assumed contracts (decompress o compress == id; the class of the table is the one that writes the archive).
"""
import builtins as _bi
import bz2 as _bz2
import gzip as _gzip
import lzma as _lzma
import os as _os
import shutil as _shutil
import tempfile as _tempfile
import zipfile as _zipfile
from pyvc.dsl import *
from pyvc import sym as _sym
from pyvc.models import model as _model
from pyvc.interp import PyRaise as _PyRaise
import typhon.files.utils as U

P = "C12"
M = "typhon.files.utils:"
NOT_DECIDED = ["correctness of the codecs themselves (gzip, bz2, lzma, zipfile): assumed; exercised with real bytes in the bounded tier"]
ASSUMPTIONS = [
    "ghost disk: TemporaryDirectory creates a fresh directory and removes it with its content on exit, NamedTemporaryFile(delete=False) "
    "creates a fresh file, open('wb') truncates, a compressor object writes an archive of ITS format, copyfileobj copies the whole "
    "stream or fails leaving a partial target, os.unlink removes the file",
    "codec contract: reading an archive written by the same codec yields the original bytes",
    "@contextmanager bodies are interpreted with the caller's exception thrown in at the yield (contextlib semantics)",
]
for _n in ("compress", "compress_as", "decompress", "get_compressor", "is_compression_format"):
    REG.inline_ok.add(M + _n)


class Disk:
    def __init__(self, ctx, files=None, faults=True):
        self.ctx = ctx
        self.files = dict(files or {})       # path -> ('plain'|'gz'|'bz2'|'xz', data) | ('zip', {member: data}) | ('partial',)
        self.tempdirs = set()
        self.n = 0
        self.faults_enabled = faults
        self.faulted = False
        self.log = []

    def fault(self, where):
        if self.faults_enabled and not self.faulted and self.ctx.choose(2, "fault@" + where) == 1:
            self.faulted = True
            self.log.append(where)
            raise _PyRaise(OSError("injected fault: " + where))

    def fresh(self, prefix):
        self.n += 1
        return "%s%d" % (prefix, self.n)


def _d(interp):
    return interp.ctx.ghost.get("c12_disk")


class _TmpDir:
    def __init__(self, disk, dir=None):
        self.disk = disk
        self.parent = dir or "/tmp"

    def __pyvc_enter__(self, interp):
        self.disk.fault("mkdtemp")
        self.name = self.disk.fresh(self.parent + "/tmpdir")
        self.disk.tempdirs.add(self.name)
        return self.name

    def __pyvc_exit__(self, interp, exc):
        for p in [p for p in self.disk.files if p.startswith(self.name + "/")]:
            del self.disk.files[p]
        self.disk.tempdirs.discard(self.name)
        return False


@_model(_tempfile.TemporaryDirectory, always=True)
def _tmpdir(interp, suffix=None, prefix=None, dir=None, **k):
    return _TmpDir(_d(interp), dir)


class _File:
    """plain file object or compressor object bound to a path"""

    def __init__(self, disk, path, mode, kind="plain", fileobj=None):
        self.disk, self.name, self.mode, self.kind = disk, path, mode, kind
        self.fileobj = fileobj
        self.closed = False

    def target_path(self):
        return self.fileobj.name if self.fileobj is not None else self.name

    def __pyvc_enter__(self, interp):
        return self

    def __pyvc_exit__(self, interp, exc):
        self.close()
        return False

    def close(self):
        self.closed = True

    # zipfile.ZipFile API
    def write(self, filename, arcname=None, compress_type=None):
        self.disk.fault("zip write " + self.name)
        src = self.disk.files.get(filename)
        if src is None or src[0] != "plain":
            raise _PyRaise(FileNotFoundError(filename))
        self.disk.files[self.name] = ("zip", {arcname: src[1]})

    def namelist(self):
        arc = self.disk.files.get(self.name)
        if arc is None or arc[0] != "zip":
            raise _PyRaise(_zipfile.BadZipFile("File is not a zip file"))
        return list(arc[1])

    def open(self, member, mode="r"):
        self.disk.fault("zip open member")
        arc = self.disk.files.get(self.name)
        if arc is None:
            raise _PyRaise(FileNotFoundError(self.name))
        if arc[0] != "zip":
            raise _PyRaise(_zipfile.BadZipFile("File is not a zip file"))
        if member not in arc[1]:
            raise _PyRaise(KeyError("There is no item named %r in the archive" % member))
        return _Stream(self.disk, arc[1][member])


class _Stream:
    """an opened archive member (zipfile.ZipExtFile): readable, and a context manager like the real one"""

    def __init__(self, disk, data):
        self.disk, self.data = disk, data

    def __pyvc_enter__(self, interp):
        return self

    def __pyvc_exit__(self, interp, exc):
        return False


@_model(_bi.open, always=True)
def _open(interp, path, mode="r", *a, **k):
    d = _d(interp)
    if d is None:
        return open(path, mode, *a, **k)
    d.fault("open %s %s" % (mode, path))
    if "w" in mode:
        d.files[path] = ("partial",)
    elif path not in d.files:
        raise _PyRaise(FileNotFoundError(path))
    return _File(d, path, mode)


@_model(_tempfile.NamedTemporaryFile, always=True)
def _ntf(interp, *a, dir=None, delete=True, **k):
    d = _d(interp)
    d.fault("NamedTemporaryFile")
    name = d.fresh((dir or "/tmp") + "/tmpfile")
    d.files[name] = ("partial",)
    return _File(d, name, "wb")


def _compressor(kind):
    def ctor(interp, filename=None, mode="r", *a, fileobj=None, **k):
        d = _d(interp)
        d.fault("%s(%s, %s)" % (kind, filename, mode))
        f = _File(d, filename, mode, kind, fileobj)
        if "r" in mode and kind != "zip":
            arc = d.files.get(filename)
            if arc is None:
                raise _PyRaise(FileNotFoundError(filename))
        if "w" in mode and fileobj is None:
            d.files[filename] = ("partial",)
        return f
    ctor.__name__ = kind + " codec"
    return ctor


for _cls, _kind in ((_gzip.GzipFile, "gz"), (_bz2.BZ2File, "bz2"), (_lzma.LZMAFile, "xz"), (_zipfile.ZipFile, "zip")):
    _model(_cls, always=True)(_compressor(_kind))


@_model(_shutil.copyfileobj, always=True)
def _copy(interp, src, dst, length=None):
    d = _d(interp)
    # source: a plain file, a member stream, or a decompressor reading an archive
    if isinstance(src, _Stream):
        data = src.data
    else:
        content = d.files.get(src.name)
        if src.kind == "plain":
            if content is None or content[0] != "plain":
                raise _PyRaise(OSError("unreadable source"))
            data = content[1]
        else:
            if content is None or content[0] != src.kind:
                raise _PyRaise(OSError("not a %s archive (corrupt or of another format)" % src.kind))
            data = content[1]                                  # codec contract: yields the original bytes
    tpath = dst.target_path()
    d.files[tpath] = ("partial",)
    d.fault("copyfileobj")                                     # a fault in the middle of copying
    d.files[tpath] = (dst.kind, data) if dst.kind != "plain" else ("plain", data)


@_model(_os.unlink, _os.remove, always=True)
def _unlink(interp, path):
    d = _d(interp)
    if d is None:
        return _os.unlink(path)
    if path not in d.files:
        raise _PyRaise(FileNotFoundError(path))
    del d.files[path]


def _new_disk(files=None, faults=True):
    ctx = _sym.ctx()
    d = Disk(ctx, files, faults)
    ctx.ghost["c12_disk"] = d
    return d


FORMATS = ["gz", "bz2", "zip", "xz"]


@theorem(P, "format-table")
def thm_table():
    for fmt in FORMATS:
        ensures(U.is_compression_format(fmt), id="'%s' is a recognised compression format" % fmt)
    for other in ("nc", "txt", "", "h5", "GZ", "z", ".gz"):
        ensures(not U.is_compression_format(other), id="%r is not a compression format" % other)


# File-name stems: the code looks at a name only through splitext / basename / endswith / lstrip('.') / '.'.join, so what
# can matter is where dots sit and whether the stem ends in characters of a format name.  The round trip is proved per
# stem for this family (names are NOT universally quantified: chunked strings have a fixed shape).
STEMS = ["a.b.c.nc", "backup", "quiz", "wiki", "v1.", "gz", "x.zip", ".hidden", "b2", "archive.x", "z"]
import os as _os2
if _os2.environ.get("VERIF_TIER_EFFECTIVE", "quick") == "thorough":
    # thorough: every stem of the form <body><tail> with the tail drawn from the characters of the format names and dots
    STEMS = STEMS + sorted({b + t_ for b in ("data", "f.nc", "x") for t_ in ("", ".", "..", "z", "p", "i", "g", "x", "b", "2", ".z", "ip", "zip", ".gz", "bz", "xz.", "2.")}
                           - set(STEMS))


def _roundtrip(fmt, via_suffix, stem):
    @theorem(P, "roundtrip[%s,%s,%s]" % (fmt, "suffix" if via_suffix else "fmt=", stem))
    def thm():
        disk = _new_disk(faults=False)
        name = "/data/" + stem + "." + fmt if via_suffix else "/data/" + stem + ".arch"
        with (U.compress(name) if via_suffix else U.compress(name, fmt=fmt)) as tmp:
            ensures(tmp != name, id="the caller writes to a temporary file, not to the target")
            disk.files[tmp] = ("plain", "DATA")
        stored = disk.files.get(name)
        ensures(stored is not None and stored[0] == fmt, id="the stored file is an archive of format " + fmt)
        if fmt != "zip":
            ensures(stored[1] == "DATA", id="... holding the caller's bytes")
        else:
            ensures(list(stored[1].values()) == ["DATA"], id="... holding the caller's bytes")
        ensures(disk.tempdirs == set() and sorted(disk.files) == [name], id="no temporary file or directory remains after compress")
        if via_suffix:
            with U.decompress(name) as plain:
                got = disk.files.get(plain)
                ensures(got == ("plain", "DATA"), id="decompress yields a file with the identical bytes")
                ensures(plain != name, id="... which is a copy, not the archive")
            ensures(sorted(disk.files) == [name], id="the decompressed copy is gone afterwards, the archive untouched")
    return thm


for _f in FORMATS:
    for _s in STEMS:
        _roundtrip(_f, True, _s)
    _roundtrip(_f, False, STEMS[0])


@theorem(P, "passthrough")
def thm_passthrough():
    disk = _new_disk({"/data/plain.nc": ("plain", "OLD")}, faults=False)
    with U.compress("/data/plain.nc") as f:
        ensures(f == "/data/plain.nc", id="compress: a name without compression suffix is passed through untouched")
    with U.decompress("/data/plain.nc") as g:
        ensures(g == "/data/plain.nc", id="decompress: likewise")
    ensures(disk.files == {"/data/plain.nc": ("plain", "OLD")} and disk.tempdirs == set(), id="nothing is created or removed")


class _Boom(Exception):
    pass


def _body_exception(fmt):
    @theorem(P, "exception-in-compress-block[%s]" % fmt)
    def thm():
        # an exception raised inside the caller's with-block: no target is created, an existing one is untouched, no debris
        for existing in (False, True):
            name = "/data/x.nc." + fmt
            disk = _new_disk({name: (fmt, "OLD")} if existing else {}, faults=False)
            raised = False
            try:
                with U.compress(name) as tmp:
                    disk.files[tmp] = ("plain", "HALF WRITTEN")
                    raise _Boom()
            except _Boom:
                raised = True
            ensures(raised, id="the caller's exception propagates [existing target: %s]" % existing)
            ensures(disk.files == ({name: (fmt, "OLD")} if existing else {}), id="target %s, no temporary file left"
                    % ("byte-for-byte unchanged" if existing else "not created"))
            ensures(disk.tempdirs == set(), id="no temporary directory left [existing target: %s]" % existing)
    return thm


def _faults(fmt):
    @theorem(P, "no-debris-under-faults[%s]" % fmt)
    def thm():
        # a fault at ANY I/O step of compress / compress_as / decompress: no temporary file or directory remains
        name = "/data/x.nc." + fmt
        disk = _new_disk({}, faults=True)
        try:
            with U.compress(name) as tmp:
                disk.files[tmp] = ("plain", "DATA")
        except OSError:
            pass
        ensures(disk.tempdirs == set(), id="compress: no temporary directory remains")
        ensures(all(p == name for p in disk.files), id="compress: no temporary file remains")
        disk2 = _new_disk({name: (fmt, {"x.nc": "DATA"} if fmt == "zip" else "DATA")}, faults=True)
        inside = []
        try:
            with U.decompress(name) as plain:
                inside.append(plain)
                raise _Boom()
        except (OSError, _Boom):
            pass
        ensures(sorted(disk2.files) == [name], id="decompress: the decompressed copy is gone and the archive is still there")
        # a corrupt archive / an archive of another format
        disk3 = _new_disk({name: ("plain", "not an archive")}, faults=False)
        try:
            with U.decompress(name) as plain:
                pass
        except (OSError, _zipfile.BadZipFile):
            pass
        ensures(sorted(disk3.files) == [name], id="decompress of a corrupt archive leaves no copy behind")
    return thm


for _f in FORMATS:
    _body_exception(_f)
    _faults(_f)


@bounded(P, "real-codecs", "real bytes through the real codecs in a temporary directory: 4 formats x {empty, 1 byte, 300 kB random, "
         "already compressed} x suffix/fmt=, names with several dots; exception in the block; corrupt archive")
def bounded_real(rng, tier):
    import tempfile, os, gzip, bz2, lzma, zipfile, shutil
    evals, failures, samples, distinct = 0, [], [], set()
    contents = [b"", b"x", bytes(rng.getrandbits(8) for _ in range(3000)) * 100, gzip.compress(b"abc" * 1000)]
    opener = {"gz": gzip.open, "bz2": bz2.open, "xz": lzma.open}
    root = tempfile.mkdtemp(prefix="c12_")
    try:
        for fmt in FORMATS:
            for ci, data in enumerate(contents):
                name = os.path.join(root, "%s.%d.%s.%s" % (STEMS[(ci + FORMATS.index(fmt)) % len(STEMS)], ci, STEMS[(3 * ci + FORMATS.index(fmt)) % len(STEMS)], fmt))
                before = set(os.listdir(root))
                with U.compress(name, tmpdir=root) as tmp:
                    with open(tmp, "wb") as f:
                        f.write(data)
                evals += 1
                distinct.add((fmt, ci))
                ok = os.path.exists(name) and set(os.listdir(root)) == before | {os.path.basename(name)}
                if ok:
                    try:
                        if fmt == "zip":
                            with zipfile.ZipFile(name) as z:
                                ok = z.read(z.namelist()[0]) == data
                        else:
                            with opener[fmt](name, "rb") as f:
                                ok = f.read() == data
                    except Exception as exc:
                        ok = False
                if ok:
                    try:
                        with U.decompress(name, tmpdir=root) as plain:
                            with open(plain, "rb") as f:
                                ok = f.read() == data
                    except Exception as exc:
                        ok = False
                    ok = ok and set(os.listdir(root)) == before | {os.path.basename(name)}
                if not ok:
                    failures.append({"format": fmt, "content": ci, "listing": sorted(os.listdir(root))})
                elif len(samples) < 3:
                    samples.append({"format": fmt, "bytes": len(data), "archive_size": os.path.getsize(name)})
            # exception inside the block
            name = os.path.join(root, "boom.nc." + fmt)
            before = set(os.listdir(root))
            try:
                with U.compress(name, tmpdir=root) as tmp:
                    open(tmp, "wb").close()
                    raise KeyError("boom")
            except KeyError:
                pass
            evals += 1
            if set(os.listdir(root)) != before:
                failures.append({"format": fmt, "case": "exception in block", "listing": sorted(set(os.listdir(root)) - before)})
    finally:
        shutil.rmtree(root, ignore_errors=True)
    return {"evaluations": evals, "distinct_nontrivial": len(distinct), "failures": failures[:5], "samples": samples}


@theorem(P, "renamed-zip-archive")
def thm_renamed_zip():
    disk = _new_disk(faults=False)
    with U.compress("/data/0359-0540.csv.zip") as tmp:
        disk.files[tmp] = ("plain", "DATA")
    disk.files["/moved/035900-0540.csv.zip"] = disk.files.pop("/data/0359-0540.csv.zip")        # what FileSet.move / copy does
    with U.decompress("/moved/035900-0540.csv.zip") as plain:
        ensures(disk.files.get(plain) == ("plain", "DATA"), id="a renamed zip archive still decompresses to the identical bytes")
    ensures(sorted(disk.files) == ["/moved/035900-0540.csv.zip"], id="... and nothing is left behind")


# these client programs run on the ghost disk (fault injection at every I/O step): a concrete replay would touch the real file
# system and fail for reasons that have nothing to do with the code under analysis -- no concrete replay
for _t in REG.theorems:
    if _t.prop == P:
        _t.no_concrete_replay = True
