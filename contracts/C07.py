"""C07 -- geodesy (work in progress: shared contracts only)."""
from pyvc.dsl import *
from contracts.geodesy_shared import *

P = "C07"
