"""C07 -- geodesy: coordinate conversions and distances (typhon/geodesy.py)."""
import numpy as _np
from pyvc.dsl import *
from contracts.geodesy_shared import *
from typhon import geodesy as G
from typhon import constants

P = "C07"
GM = "typhon.geodesy:"
NOT_DECIDED = [
    "accuracy (1 cm / 1e-7 deg) and termination of the fixed-point iteration of cart2geodetic for eccentric ellipsoids (WGS84, EllipsoidMars): a convergence statement",
    "triangle inequality of great_circle_distance / tunnel_distance (a theorem of spherical geometry)",
    "position + line-of-sight conversions (geocentricposlos2cart / cartposlos2geocentric): 3-d trigonometry with special cases",
    "distance zero ONLY for coincident points (converse direction)",
    "anything 'to better than 1 cm' in float64 (A2)",
]
ASSUMPTIONS = ["A6 analytic axioms: sin2_cos2, sin_odd_cos_even, sqrt_def, arcsin_def, arctan2_def, sin_injective_principal, angle_unique, cos_add, half_angle, pi_bounds"]

RAD = "PI / 180"
REG.inline_ok.add(GM + "inrange")

# ------------------------------------------------------------------ cart <-> geocentric
c_c2g = contract(GM + "cart2geocentric", prop=P, params=dict(x="real", y="real", z="real"), result=("tuple", 3),
                 raises=[("x == 0 and y == 0 and z == 0", Exception)],
                 ensures=["result[0] == sqrt(x**2 + y**2 + z**2)", "result[0] > 0",
                          "result[1] == arcsin(z / sqrt(x**2 + y**2 + z**2)) * 180 / PI",
                          "result[2] == arctan2(y, x) * 180 / PI"])
c_c2g.domain = {"x": (-7e6, 7e6), "y": (-7e6, 7e6), "z": (-7e6, 7e6)}
c_c2g.canaries = ["result[1] == 0"]


@theorem(P, "spherical-roundtrip")
def thm_roundtrip(r: "real", lat: "real", lon: "real"):
    requires(r > 0, -90 < lat, lat < 90, -180 < lon, lon <= 180)
    x, y, z = G.geocentric2cart(r, lat, lon)
    la, lo = lat * PI / 180, lon * PI / 180
    ensures(x * x + y * y + z * z == r * r, id="step: |geocentric2cart(r,lat,lon)| == r")
    r2, lat2, lon2 = G.cart2geocentric(x, y, z)
    ensures(r2 == r, id="radius recovered")
    use_axiom("sin_injective_principal", arcsin(z / r2), la)
    ensures(lat2 == lat, id="latitude recovered")
    use_axiom("angle_unique", arctan2(y, x), lo)
    ensures(lon2 == lon, id="longitude recovered")


thm_roundtrip.domain = {"r": (1.0, 7e6), "lat": (-89.0, 89.0), "lon": (-179.0, 180.0)}


@theorem(P, "spherical-roundtrip-converse")
def thm_roundtrip2(x: "real", y: "real", z: "real"):
    requires(x != 0 or y != 0)
    r, lat, lon = G.cart2geocentric(x, y, z)
    x2, y2, z2 = G.geocentric2cart(r, lat, lon)
    rho = sqrt(x * x + y * y)
    ensures(z2 == z, id="z recovered")
    ensures(cos(lat * PI / 180) * r == rho, id="step: r cos(lat) == sqrt(x^2 + y^2)")
    ensures(x2 == x, y2 == y, id="x, y recovered")


thm_roundtrip2.domain = {"x": (-7e6, 7e6), "y": (-7e6, 7e6), "z": (-7e6, 7e6)}

# ------------------------------------------------------------------ geodetic -> cartesian, radii of the ellipsoid
ELL = lambda ctx, n: (ctx.fresh("a", "real"), ctx.fresh("e", "real"))
c_gd2c = contract(GM + "geodetic2cart", prop=P, params=dict(h="real", lat="real", lon="real", ellipsoid=ELL), result=("tuple", 3),
                  pure=False, elementwise=True,
                  requires=["ellipsoid[0] > 0", "0 <= ellipsoid[1]", "ellipsoid[1] < 1"],
                  ensures=["result[0] == (ellipsoid[0] / sqrt(1 - ellipsoid[1]**2 * sin(lat * %s)**2) + h) * cos(lat * %s) * cos(lon * %s)" % (RAD, RAD, RAD),
                           "result[1] == (ellipsoid[0] / sqrt(1 - ellipsoid[1]**2 * sin(lat * %s)**2) + h) * cos(lat * %s) * sin(lon * %s)" % (RAD, RAD, RAD),
                           "result[2] == (ellipsoid[0] / sqrt(1 - ellipsoid[1]**2 * sin(lat * %s)**2) * (1 - ellipsoid[1]**2) + h) * sin(lat * %s)" % (RAD, RAD)])
c_rgd = contract(GM + "ellipsoid_r_geodetic", prop=P, params=dict(ellipsoid=ELL, lat="real"), pure=False, result="real", elementwise=True,
                 requires=["ellipsoid[0] > 0", "0 <= ellipsoid[1]", "ellipsoid[1] < 1"],
                 ensures=["result > 0",
                          "result**2 * (1 - ellipsoid[1]**2 * sin(lat * %s)**2) == ellipsoid[0]**2 * "
                          "((1 - ellipsoid[1]**2)**2 * sin(lat * %s)**2 + cos(lat * %s)**2)" % (RAD, RAD, RAD)])
c_rgc = contract(GM + "ellipsoid_r_geocentric", prop=P, params=dict(ellipsoid=ELL, lat="real"), pure=False, result="real", elementwise=True,
                 requires=["ellipsoid[0] > 0", "0 <= ellipsoid[1]", "ellipsoid[1] < 1"],
                 ensures=["result > 0",
                          "implies(ellipsoid[1] == 0, result == ellipsoid[0])",
                          "result * sqrt((1 - ellipsoid[1]**2) * cos(lat * %s)**2 + sin(lat * %s)**2) == "
                          "ellipsoid[0] * sqrt(1 - ellipsoid[1]**2)" % (RAD, RAD)])


@theorem(P, "geocentric-radius-on-ellipse", a="real", e="real")
def thm_ellipse(a, e, lat: "real"):
    # the point (r cos(lat), r sin(lat)) lies on the ellipse x^2/a^2 + z^2/b^2 == 1 with b^2 = a^2 (1 - e^2)
    requires(a > 0, 0 <= e, e < 1)
    r = G.ellipsoid_r_geocentric((a, e), lat)
    c = 1 - e**2
    C, S = cos(lat * PI / 180), sin(lat * PI / 180)
    W, B = sqrt(c * C**2 + S**2), sqrt(c)
    ensures(c * C**2 + S**2 > 0, id="step: positive radicand")
    ensures(W * W == c * C**2 + S**2, B * B == c, id="step: squares of the roots")
    ensures((r * W) * (r * W) == (a * B) * (a * B), id="step: square the contract equation")
    ensures((r * C)**2 * c + (r * S)**2 == a**2 * c, id="(r cos lat, r sin lat) satisfies the ellipse equation")


def _ell_sampler(rng):
    # latitude as a scalar or as an array of rank 1..2, float or integer dtype (in-place arithmetic on arrays aliases)
    k = rng.choice(["scalar", "scalar", "1d", "1d", "2d", "int"])
    if k == "scalar":
        lat = rng.choice([0.0, 90.0, -90.0, rng.uniform(-90, 90), rng.uniform(-90, 90)])
    elif k == "1d":
        lat = _np.array([rng.uniform(-90, 90) for _ in range(rng.randint(1, 5))])
    elif k == "2d":
        lat = _np.array([[rng.uniform(-90, 90) for _ in range(3)] for _ in range(2)])
    else:
        lat = _np.array([rng.randint(-90, 90) for _ in range(4)])
    return dict(ellipsoid=(rng.uniform(1e6, 7e6), rng.choice([0.0, 0.0818191908426, 0.1083, rng.uniform(0, 0.5)])), lat=lat)


c_rgd.sampler = c_rgc.sampler = _ell_sampler
def _gd2c_sampler(rng):
    d = dict(h=rng.uniform(-1e4, 1e6), lat=rng.uniform(-88, 88), lon=rng.uniform(-180, 180), ellipsoid=_ell_sampler(rng)["ellipsoid"])
    if rng.random() < 0.4:           # arrays (broadcast against scalars)
        n = rng.randint(1, 4)
        for name in rng.choice([("lat",), ("lat", "lon"), ("h", "lat", "lon")]):
            lo, hi = {"h": (-1e4, 1e6), "lat": (-88, 88), "lon": (-180, 180)}[name]
            d[name] = _np.array([rng.uniform(lo, hi) for _ in range(n)])
    return d


c_gd2c.sampler = _gd2c_sampler


@theorem(P, "points-on-ellipsoid", a="real", e="real")
def thm_on_ellipsoid(a, e, lat: "real", lon: "real"):
    requires(a > 0, 0 <= e, e < 1)
    x, y, z = G.geodetic2cart(0, lat, lon, (a, e))
    rg = G.ellipsoid_r_geodetic((a, e), lat)
    s, c = sin(lat * PI / 180), cos(lat * PI / 180)
    w = sqrt(1 - e**2 * s**2)
    ensures(1 - e**2 * s**2 > 0, id="step: the denominator is positive")
    ensures((x * x + y * y + z * z) * (w * w) == a * a * (c * c + (1 - e * e)**2 * s * s), id="step: |geodetic2cart(0,lat,lon)|^2")
    ensures(x * x + y * y + z * z == rg * rg, id="points with h = 0 have the radius ellipsoid_r_geodetic(lat)")


@theorem(P, "spherical-geodetic-is-geocentric", a="real")
def thm_spherical(a, h: "real", lat: "real", lon: "real"):
    # e == 0 (SphericalEarth/Venus/Mars/Jupiter): geodetic coordinates are geocentric ones shifted by the radius
    requires(a > 0, a + h > 0)
    x, y, z = G.geodetic2cart(h, lat, lon, (a, 0))
    x2, y2, z2 = G.geocentric2cart(a + h, lat, lon)
    ensures(x == x2, y == y2, z == z2, id="geodetic2cart(h,..,(a,0)) == geocentric2cart(a+h,..)")
    ensures(G.ellipsoid_r_geodetic((a, 0), lat) == a, G.ellipsoid_r_geocentric((a, 0), lat) == a, id="radius of a sphere")


@theorem(P, "ellipsoid-models")
def thm_models():
    m = G.ellipsoidmodels()
    ensures(sorted(m.models) == ["EllipsoidMars", "SphericalEarth", "SphericalJupiter", "SphericalMars", "SphericalVenus", "WGS84"],
            id="the six models")
    ensures(all(m[k][0] > 0 and 0 <= m[k][1] and m[k][1] < 1 for k in m.models), id="radius > 0 and 0 <= e < 1 for every model")
    ensures([k for k in sorted(m.models) if m[k][1] == 0] == ["SphericalEarth", "SphericalJupiter", "SphericalMars", "SphericalVenus"],
            id="four models are spheres (closed form applies)")


# ------------------------------------------------------------------ distances
HAV = ("sin((lat2 * %s - lat1 * %s) / 2)**2 + cos(lat1 * %s) * cos(lat2 * %s) * sin((lon2 * %s - lon1 * %s) / 2)**2"
       % (RAD, RAD, RAD, RAD, RAD, RAD))
c_gcd = contract(GM + "great_circle_distance", prop=P, params=dict(lat1="real", lon1="real", lat2="real", lon2="real"),
                 configs=[{"r": None}, {"r": constants.earth_radius}], pure=False, result="real",
                 ensures=["implies_(r is None, lambda: result == 2 * arcsin(sqrt(%s)) * 180 / PI)" % HAV,
                          "implies_(r is not None, lambda: result == r * (2 * arcsin(sqrt(%s))))" % HAV],
                 env={"implies_": lambda c, t: t() if c else True})
c_gcd.domain = {"lat1": (-90.0, 90.0), "lat2": (-90.0, 90.0), "lon1": (-180.0, 180.0), "lon2": (-180.0, 180.0)}


def _gcd_sampler(rng):
    """random pairs, plus coincident, nearly coincident, antipodal and NEARLY antipodal pairs, date line, poles"""
    la1, lo1 = rng.uniform(-89, 89), rng.uniform(-179, 179)
    # (exactly antipodal pairs are left out: arcsin is ill-conditioned at 1, the float result is only good to ~1e-8 there,
    #  which is a property of the haversine formula in floating point, not something a 1e-9 comparison should judge)
    kind = rng.choice(["random", "same", "near", "near-antipodal", "near-antipodal", "dateline"])
    if kind == "random":
        la2, lo2 = rng.uniform(-89, 89), rng.uniform(-179, 179)
    elif kind == "same":
        la2, lo2 = la1, lo1
    elif kind == "near":
        la2, lo2 = la1 + rng.uniform(-1e-3, 1e-3), lo1 + rng.uniform(-1e-3, 1e-3)
    elif kind == "dateline":
        lo1, la2, lo2 = 179.9, la1 + rng.uniform(-1, 1), -179.9
    else:
        la2, lo2 = -la1, lo1 + 180 if lo1 < 0 else lo1 - 180
        if kind == "near-antipodal":
            la2, lo2 = la2 + rng.choice([-1, 1]) * rng.uniform(0.05, 0.3), lo2 + rng.uniform(-0.3, 0.3)
    return dict(lat1=la1, lon1=lo1, lat2=max(-90.0, min(90.0, la2)), lon2=max(-180.0, min(180.0, lo2)))


c_gcd.sampler = _gcd_sampler
c_td = contract(GM + "tunnel_distance", prop=P, params=dict(lat1="real", lon1="real", lat2="real", lon2="real"), pure=False,
                result=lambda ctx, env: fresh_array_(ctx),
                ensures=["len(result) == 1",
                         "result[0]**2 == (geocentric2cart(constants.earth_radius, lat2, lon2)[0] - geocentric2cart(constants.earth_radius, lat1, lon1)[0])**2"
                         " + (geocentric2cart(constants.earth_radius, lat2, lon2)[1] - geocentric2cart(constants.earth_radius, lat1, lon1)[1])**2"
                         " + (geocentric2cart(constants.earth_radius, lat2, lon2)[2] - geocentric2cart(constants.earth_radius, lat1, lon1)[2])**2"])
c_td.domain = c_gcd.domain


def fresh_array_(ctx):
    from pyvc.contracts import fresh_array
    return fresh_array(ctx, "td", (1,))


@theorem(P, "great-circle-distance")
def thm_gcd(lat1: "real", lon1: "real", lat2: "real", lon2: "real", s: "real"):
    requires(-90 <= lat1, lat1 <= 90, -90 <= lat2, lat2 <= 90)
    d12 = G.great_circle_distance(lat1, lon1, lat2, lon2)
    d21 = G.great_circle_distance(lat2, lon2, lat1, lon1)
    ensures(d12 == d21, id="symmetric")
    ensures(G.great_circle_distance(lat1, lon1, lat1, lon1) == 0, id="zero for coincident points")
    ensures(G.great_circle_distance(lat1, lon1 + s, lat2, lon2 + s) == d12, id="invariant under a common shift in longitude")


@theorem(P, "great-circle-bound")
def thm_gcd_bound(lat1: "real", lon1: "real", lat2: "real", lon2: "real"):
    requires(-90 <= lat1, lat1 <= 90, -90 <= lat2, lat2 <= 90)
    a1, a2 = lat1 * PI / 180, lat2 * PI / 180
    dl = (lon2 * PI / 180 - lon1 * PI / 180) / 2
    hav = sin((a2 - a1) / 2)**2 + cos(a1) * cos(a2) * sin(dl)**2
    # cos(a1) cos(a2) <= cos^2((a2 - a1)/2): product-to-sum with u = (a1+a2)/2, v = (a2-a1)/2
    u, v = (a1 + a2) / 2, (a2 - a1) / 2
    use_axiom("cos_add", u, v)
    assume(u + v == a2, u - v == a1)
    ensures(cos(a1) * cos(a2) == cos(u)**2 * cos(v)**2 - sin(u)**2 * sin(v)**2, id="step: product of cosines")
    ensures(cos(a1) * cos(a2) <= cos(v)**2, id="step: cos(lat1) cos(lat2) <= cos^2(dlat/2)")
    ensures(0 <= hav, hav <= 1, id="the haversine lies in [0, 1]")
    d = G.great_circle_distance(lat1, lon1, lat2, lon2)
    Re = constants.earth_radius
    dm = G.great_circle_distance(lat1, lon1, lat2, lon2, r=Re)
    ensures(0 <= d, d <= 180, id="great_circle_distance is at most 180 degrees")
    ensures(dm <= PI * Re, id="... resp. half the circumference")
    ensures(4 * Re**2 * hav <= (2 * Re)**2, id="4 R^2 haversine (== chord^2) is at most the squared diameter")
    ensures(sin(dm / Re / 2)**2 == hav, id="sin^2(arc / 2R) == haversine  (with chord^2 == 4 R^2 haversine: chord == 2 R sin(arc/2))")


@theorem(P, "chord-and-arc")
def thm_chord(lat1: "real", lon1: "real", lat2: "real", lon2: "real"):
    requires(-90 <= lat1, lat1 <= 90, -90 <= lat2, lat2 <= 90)
    R = constants.earth_radius
    a1, a2, o1, o2 = lat1 * PI / 180, lat2 * PI / 180, lon1 * PI / 180, lon2 * PI / 180
    hav = sin((a2 - a1) / 2)**2 + cos(a1) * cos(a2) * sin((o2 - o1) / 2)**2
    use_axiom("cos_add", a2, a1)
    use_axiom("cos_add", o2, o1)
    use_axiom("half_angle", a2 - a1)
    use_axiom("half_angle", o2 - o1)
    t = G.tunnel_distance(lat1, lon1, lat2, lon2)
    s1, c1, s2, c2 = sin(a1), cos(a1), sin(a2), cos(a2)
    sl1, cl1, sl2, cl2 = sin(o1), cos(o1), sin(o2), cos(o2)
    ensures(t[0]**2 == R**2 * ((c2 * cl2 - c1 * cl1)**2 + (c2 * sl2 - c1 * sl1)**2 + (s2 - s1)**2), id="step A: chord^2 from the coordinates")
    ensures(cos(o2 - o1) == cl2 * cl1 + sl2 * sl1, cos(a2 - a1) == c2 * c1 + s2 * s1, id="step C: cosine of the differences")
    ensures((c2 * cl2 - c1 * cl1)**2 + (c2 * sl2 - c1 * sl1)**2 + (s2 - s1)**2
            == 2 - 2 * (c1 * c2) * (cl2 * cl1 + sl2 * sl1) - 2 * s1 * s2, id="step B1: expand with sin^2 + cos^2 == 1")
    ensures((c1 * c2) * (cl2 * cl1 + sl2 * sl1) == (c1 * c2) * cos(o2 - o1), id="step B2: substitute the cosine of the longitude difference")
    ensures((c2 * cl2 - c1 * cl1)**2 + (c2 * sl2 - c1 * sl1)**2 + (s2 - s1)**2
            == 2 - 2 * (c1 * c2) * cos(o2 - o1) - 2 * s1 * s2, id="step B: chord^2 / R^2")
    ensures(hav == (1 - cos(a2 - a1)) / 2 + (c1 * c2) * (1 - cos(o2 - o1)) / 2, id="step D: haversine by half-angle formulas")
    ensures(4 * hav == 2 - 2 * (c1 * c2) * cos(o2 - o1) - 2 * s1 * s2, id="step E: 4 haversine")
    ensures(t[0]**2 == 4 * R**2 * hav, id="chord^2 == 4 R^2 haversine")
    # together with 'sin^2(arc / 2R) == haversine' (theorem great-circle-bound) this is chord == 2 R sin(arc / 2)
    # chord at most the diameter: chord^2 == 4 R^2 haversine and haversine <= 1 (theorem great-circle-bound)
    t21 = G.tunnel_distance(lat2, lon2, lat1, lon1)
    ensures(t21[0]**2 == t[0]**2, id="tunnel_distance symmetric")
    ensures(G.tunnel_distance(lat1, lon1, lat1, lon1)[0]**2 == 0, id="zero for coincident points")


# ------------------------------------------------------------------ bounded: the conversions that are not decided deductively
# (the fixed-point iteration of cart2geodetic and the position / line-of-sight conversions)
def nprng_perm(rng, k):
    p = list(range(k))
    rng.shuffle(p)
    return _np.array(p)


@bounded(P, "roundtrips-iteration-and-poslos", "every ellipsoid of ellipsoidmodels x random positions (|lat| <= 88, any longitude, heights -10 km .. "
         "1000 km; scalars and arrays, also arrays mixing latitudes / heights with a point on the equator): geodetic -> cartesian -> geodetic and geodetic -> geocentric -> geodetic to 1 cm / 1e-7 deg, direct "
         "and composed routes agree; geocentricposlos2cart -> cartposlos2geocentric returns position, zenith and azimuth angle (zenith "
         "1..179 deg, azimuth random or exactly 0 / +-180 / +-90, also |lat| near 90, za near 0 / 180 with the optional arguments); 300 (quick) / 3000 (thorough) cases")
def bounded_roundtrips(rng, tier):
    import warnings
    rounds = 300 if tier == "quick" else 3000
    evals, failures, samples, distinct = 0, [], [], set()
    models = G.ellipsoidmodels()
    names = sorted(models.keys()) if hasattr(models, "keys") else ["WGS84"]
    for r in range(rounds):
        name = rng.choice(names)
        ell = models[name]
        lat, lon = rng.uniform(-88, 88), rng.uniform(-180, 180)
        h = rng.choice([-1e4, 0.0, 1e3, 1e6, rng.uniform(-1e4, 1e6)])
        evals += 1
        distinct.add((name, round(lat), round(lon)))
        case = {"ellipsoid": name, "h": h, "lat": lat, "lon": lon}
        problems = []
        try:
            with warnings.catch_warnings():
                warnings.simplefilter("ignore")
                x, y, z = G.geodetic2cart(_np.array([h]), _np.array([lat]), _np.array([lon]), ell)
                h2, lat2, lon2 = G.cart2geodetic(x, y, z, ell)
                if abs(float(h2[0]) - h) > 0.01 or abs(float(lat2[0]) - lat) > 1e-7 or abs(((float(lon2[0]) - lon + 180) % 360) - 180) > 1e-7:
                    problems.append("geodetic -> cartesian -> geodetic gives %r %r %r" % (float(h2[0]), float(lat2[0]), float(lon2[0])))
                rc, latc, lonc = G.geodetic2geocentric(_np.array([h]), _np.array([lat]), _np.array([lon]), ell)
                xr, yr, zr = G.geocentric2cart(rc, latc, lonc)
                if max(abs(float(xr[0] - x[0])), abs(float(yr[0] - y[0])), abs(float(zr[0] - z[0]))) > 0.01:
                    problems.append("geodetic -> geocentric -> cartesian differs from geodetic -> cartesian")
                h3, lat3, lon3 = G.geocentric2geodetic(rc, latc, lonc, ell)
                if abs(float(h3[0]) - h) > 0.01 or abs(float(lat3[0]) - lat) > 1e-7:
                    problems.append("geodetic -> geocentric -> geodetic gives %r %r" % (float(h3[0]), float(lat3[0])))
                # position + line of sight
                za, aa = rng.uniform(1, 179), rng.uniform(-179.9, 179.9)
                aa_tol = 1e-6
                if rng.random() < 0.4:
                    # lines of sight exactly along a meridian or a parallel: arccos at +-1 (its rounding branch); the
                    # arccos there is conditioned like sqrt(eps), hence the wider tolerance
                    aa, aa_tol = rng.choice([0.0, 180.0, -180.0, 90.0, -90.0]), 1e-3
                r0 = float(rc[0])
                px, py, pz, dx, dy, dz = G.geocentricposlos2cart(r0, float(latc[0]), float(lonc[0]), za, aa)
                r4, lat4, lon4, za4, aa4 = G.cartposlos2geocentric(px, py, pz, dx, dy, dz)
                r4, lat4, lon4, za4, aa4 = [float(_np.ravel(v)[0]) for v in (r4, lat4, lon4, za4, aa4)]
                if abs(r4 - r0) > 0.01 or abs(lat4 - float(latc[0])) > 1e-7 or abs(za4 - za) > 1e-6 \
                        or abs(((aa4 - aa + 180) % 360) - 180) > aa_tol:
                    problems.append("poslos round trip: za %r -> %r, aa %r -> %r, r %r -> %r" % (za, za4, aa, aa4, r0, r4))
                if r % 4 == 0:
                    # arrays mixing latitudes and heights in ONE call (the iteration must run until every element has converged),
                    # with a point on / next to the equator, which converges at once
                    k = rng.randint(2, 6)
                    lats_g = _np.array([rng.choice([0.0, 1e-9, -1e-7]) if j == 0 else rng.uniform(-88, 88) for j in range(k)])
                    lons_g = _np.array([rng.uniform(-180, 180) for _ in range(k)])
                    hs_g = _np.array([rng.choice([-1e4, 0.0, 1e3, 1e6, rng.uniform(-1e4, 1e6)]) for _ in range(k)])
                    if rng.random() < 0.5:
                        perm = nprng_perm(rng, k)
                        lats_g, lons_g, hs_g = lats_g[perm], lons_g[perm], hs_g[perm]
                    hb, latb, lonb = G.cart2geodetic(*G.geodetic2cart(hs_g, lats_g, lons_g, ell), ell)
                    if _np.shape(hb) != (k,) or _np.any(_np.abs(hb - hs_g) > 0.01) or _np.any(_np.abs(latb - lats_g) > 1e-7) \
                            or _np.any(_np.abs(((lonb - lons_g + 180) % 360) - 180) > 1e-7):
                        problems.append("geodetic -> cartesian -> geodetic on arrays: h %r -> %r, lat %r -> %r" % (hs_g.tolist(), _np.asarray(hb).tolist(), lats_g.tolist(), _np.asarray(latb).tolist()))
                if r % 5 == 0:
                    # array arguments (all elements away from the singular cases), incl. meridian azimuths next to others
                    k = rng.randint(2, 5)
                    lats = _np.array([rng.uniform(-88, 88) for _ in range(k)])
                    lons = _np.array([rng.uniform(-180, 180) for _ in range(k)])
                    zas = _np.array([rng.uniform(1, 179) for _ in range(k)])
                    aas = _np.array([rng.choice([0.0, 180.0, 90.0, rng.uniform(-179.9, 179.9), rng.uniform(-179.9, 179.9)]) for _ in range(k)])
                    rs = _np.full(k, r0)
                    out = G.cartposlos2geocentric(*G.geocentricposlos2cart(rs, lats, lons, zas, aas))
                    if any(_np.shape(v) != (k,) for v in out) or _np.any(_np.abs(out[3] - zas) > 1e-6) \
                            or _np.any(_np.abs(((out[4] - aas + 180) % 360) - 180) > 1e-3) or _np.any(_np.abs(out[1] - lats) > 1e-7):
                        problems.append("poslos round trip on arrays: za %r -> %r, aa %r -> %r" % (zas.tolist(), out[3].tolist(), aas.tolist(), out[4].tolist()))
        except Exception as exc:
            problems.append("exception %r" % (exc,))
        if problems:
            failures.append(dict(case, problem="; ".join(problems)))
        elif len(samples) < 3:
            samples.append(case)
    return {"evaluations": evals, "distinct_nontrivial": len(distinct), "failures": failures[:5], "samples": samples}
