"""C08 -- Planck radiance, brightness temperatures, spectral units, Snell, Fresnel (typhon/physics/em.py)."""
from pyvc.dsl import *
from typhon.physics import em as E
from typhon import constants

P = "C08"
M = "typhon.physics.em:"

NOT_DECIDED = [
    "float cancellation of exp(x)-1 at h f / k T -> 0 and overflow above ~700 (floats are read as reals, A2)",
    "|Rv|,|Rh| <= 1 and Snell's law for complex n2 deductively (complex arithmetic is outside the value domain): bounded check snell-fresnel-complex-n2 only",
    "NaN result of snell() beyond total reflection (NaN is outside the real-number reading); the proved clause covers n1 sin(theta1) <= n2",
]
ASSUMPTIONS = ["A6 analytic axiom schemas: exp_pos, exp_gt_1_plus_x, exp_lt_inv, exp_mono, log_exp, exp_log, sin2_cos2, arcsin_def, cos_nonneg_principal, pi_bounds"]

C, H, K = "constants.speed_of_light", "constants.planck", "constants.boltzmann"
DOM = {"f": (1e8, 1e13), "T": (2.0, 1e4), "l": (2e-5, 1.0), "n": (1.0, 5e4), "r": (1e-20, 1e-10)}      # (h f / k T stays below 600: no float64 underflow)


def _c(name, **kw):
    c = contract(M + name, prop=P, elementwise=True, **kw)
    c.domain = DOM
    return c


_c("planck", params=dict(f="real", T="real"), requires=["f > 0", "T > 0"],
   ensures=["result == 2 * %s * f**3 / (%s**2 * (exp(%s * f / (%s * T)) - 1))" % (H, C, H, K), "result > 0"],
   canaries=["result > 1"])
_c("planck_wavelength", params=dict(l="real", T="real"), requires=["l > 0", "T > 0"],
   ensures=["result == 2 * %s * %s**2 / (l**5 * (exp(%s * %s / (l * %s * T)) - 1))" % (H, C, H, C, K), "result > 0"])
_c("planck_wavenumber", params=dict(n="real", T="real"), requires=["n > 0", "T > 0"],
   ensures=["result == 2 * %s * %s**2 * n**3 / (exp(%s * %s * n / (%s * T)) - 1)" % (H, C, H, C, K), "result > 0"])
_c("rayleighjeans", params=dict(f="real", T="real"), requires=[],
   ensures=["result == 2 * f**2 * %s * T / %s**2" % (K, C)])
_c("rayleighjeans_wavelength", params=dict(l="real", T="real"), requires=["l > 0"],
   ensures=["result == 2 * %s * %s * T / l**4" % (C, K)])
_c("radiance2planckTb", params=dict(f="real", r="real"), requires=["f > 0", "r > 0"],
   ensures=["result == %s / %s * f / log(2 * %s / %s**2 * f**3 / r + 1)" % (H, K, H, C)])
_c("radiance2rayleighjeansTb", params=dict(f="real", r="real"), requires=["f > 0"],
   ensures=["result == %s**2 / (2 * f**2 * %s) * r" % (C, K)])

_c("frequency2wavelength", params=dict(frequency="real"), requires=["frequency > 0"],
   ensures=["result == %s / frequency" % C, "result > 0"])
_c("frequency2wavenumber", params=dict(frequency="real"), requires=["frequency > 0"],
   ensures=["result == frequency / %s" % C, "result > 0"])
_c("wavelength2frequency", params=dict(wavelength="real"), requires=["wavelength > 0"],
   ensures=["result == %s / wavelength" % C, "result > 0"])
_c("wavelength2wavenumber", params=dict(wavelength="real"), requires=["wavelength > 0"],
   ensures=["result == 1 / wavelength", "result > 0"])
_c("wavenumber2frequency", params=dict(wavenumber="real"), requires=["wavenumber > 0"],
   ensures=["result == %s * wavenumber" % C, "result > 0"])
_c("wavenumber2wavelength", params=dict(wavenumber="real"), requires=["wavenumber > 0"],
   ensures=["result == 1 / wavenumber", "result > 0"])
for _n in ("frequency2wavelength", "frequency2wavenumber", "wavelength2frequency", "wavelength2wavenumber",
           "wavenumber2frequency", "wavenumber2wavelength"):
    REG.by_label[M + _n].domain = {"frequency": (1e8, 1e15), "wavelength": (1e-7, 1.0), "wavenumber": (1.0, 1e7)}


@theorem(P, "tb-inverse")
def thm_tb_inverse(f: "real", T: "real"):
    requires(f > 0, T > 0)
    B = E.planck(f, T)
    Tb = E.radiance2planckTb(f, B)
    ensures(Tb == T, id="radiance2planckTb(f, planck(f,T)) == T")
    R = E.rayleighjeans(f, T)
    Trj = E.radiance2rayleighjeansTb(f, R)
    ensures(Trj == T, id="radiance2rayleighjeansTb(f, rayleighjeans(f,T)) == T")


thm_tb_inverse.domain = DOM


@theorem(P, "planck-shape")
def thm_planck_shape(f: "real", T: "real", T2: "real"):
    requires(f > 0, T > 0, T2 > T)
    B = E.planck(f, T)
    B2 = E.planck(f, T2)
    R = E.rayleighjeans(f, T)
    x = constants.planck * f / (constants.boltzmann * T)
    ensures(B > 0, id="positive")
    ensures(B2 > B, id="strictly increasing in T")
    ensures(B < R, id="below Rayleigh-Jeans")
    ensures(implies(x < 1, B >= (1 - x) * R), id="approaches Rayleigh-Jeans: B >= (1 - hf/kT) RJ")


thm_planck_shape.domain = DOM


@theorem(P, "spectral-forms")
def thm_forms(f: "real", T: "real"):
    requires(f > 0, T > 0)
    c = constants.speed_of_light
    B = E.planck(f, T)
    Bl = E.planck_wavelength(c / f, T)
    Bn = E.planck_wavenumber(f / c, T)
    ensures(Bl == B * f**2 / c, id="planck_wavelength(c/f,T) == planck(f,T) f^2/c")
    ensures(Bn == c * B, id="planck_wavenumber(f/c,T) == c planck(f,T)")


thm_forms.domain = DOM


@theorem(P, "unit-converters-inverse")
def thm_units(v: "real"):
    requires(v > 0)
    ensures(E.wavelength2frequency(E.frequency2wavelength(v)) == v, id="f->l->f")
    ensures(E.frequency2wavelength(E.wavelength2frequency(v)) == v, id="l->f->l")
    ensures(E.wavenumber2frequency(E.frequency2wavenumber(v)) == v, id="f->n->f")
    ensures(E.frequency2wavenumber(E.wavenumber2frequency(v)) == v, id="n->f->n")
    ensures(E.wavenumber2wavelength(E.wavelength2wavenumber(v)) == v, id="l->n->l")
    ensures(E.wavelength2wavenumber(E.wavenumber2wavelength(v)) == v, id="n->l->n")
    ensures(E.wavelength2wavenumber(E.frequency2wavelength(v)) == E.frequency2wavenumber(v), id="f->l->n == f->n")
    ensures(E.wavenumber2wavelength(E.frequency2wavenumber(v)) == E.frequency2wavelength(v), id="f->n->l == f->l")


thm_units.domain = {"v": (1.0, 1e6)}


# ---------------------------------------------------------------- spectral-density converters (grids)
from pyvc.contracts import fresh_array as _fa


def _setup_grid(a, b):
    def setup(ctx, cfg):
        n = ctx.fresh("n", "int")
        ctx.assume(n >= 1)
        if cfg.get("ndim", 1) == 1:
            return {a: _fa(ctx, a, (n,)), b: _fa(ctx, b, (n,))}
        m = ctx.fresh("m", "int")
        ctx.assume(m >= 1)
        return {a: _fa(ctx, a, (n, m)), b: _fa(ctx, b, (n,))}
    return setup


def _res_grid(a, b):
    def res(ctx, env):
        return (_fa(ctx, "res_spec", env[a].shape), _fa(ctx, "res_grid", env[b].shape))
    return res


GRID_POS = "forall(0, len(%s), lambda i: %s[i] > 0)"
contract(M + "perfrequency2perwavelength", prop=P, setup=_setup_grid("perhz", "f_grid"), configs=[{"ndim": 1}, {"ndim": 2}],
         requires=[GRID_POS % ("f_grid", "f_grid"), "len(perhz) == len(f_grid)"],
         result=_res_grid("perhz", "f_grid"), pure=False,
         ensures=["forall(0, len(perhz), lambda i: result[0][i] == perhz[len(perhz) - 1 - i] * f_grid[len(perhz) - 1 - i]**2 / %s)" % C
                  if False else
                  "forall(0, len(f_grid), lambda i: result[1][i] == %s / f_grid[len(f_grid) - 1 - i])" % C,
                  "spec_rev_scaled(result[0], perhz, f_grid, %s)" % C])
contract(M + "perwavelength2perfrequency", prop=P, setup=_setup_grid("perm", "lam_grid"), configs=[{"ndim": 1}, {"ndim": 2}],
         requires=[GRID_POS % ("lam_grid", "lam_grid"), "len(perm) == len(lam_grid)"],
         result=_res_grid("perm", "lam_grid"), pure=False,
         ensures=["forall(0, len(lam_grid), lambda i: result[1][i] == %s / lam_grid[len(lam_grid) - 1 - i])" % C,
                  "spec_rev_scaled(result[0], perm, lam_grid, %s)" % C])
contract(M + "perfrequency2perwavenumber", prop=P, setup=_setup_grid("perhz", "f_grid"), configs=[{"ndim": 1}, {"ndim": 2}],
         requires=[GRID_POS % ("f_grid", "f_grid")],
         result=_res_grid("perhz", "f_grid"), pure=False,
         ensures=["forall(0, len(f_grid), lambda i: result[1][i] == f_grid[i] / %s)" % C,
                  "spec_scaled(result[0], perhz, %s)" % C])
contract(M + "perwavenumber2perfrequency", prop=P, setup=_setup_grid("perwn", "wn_grid"), configs=[{"ndim": 1}, {"ndim": 2}],
         requires=[GRID_POS % ("wn_grid", "wn_grid")],
         result=_res_grid("perwn", "wn_grid"), pure=False,
         ensures=["forall(0, len(wn_grid), lambda i: result[1][i] == %s * wn_grid[i])" % C,
                  "spec_scaled(result[0], perwn, 1 / %s)" % C])


def spec_rev_scaled(out, spec, grid, c):
    """out[i, ...] == spec[n-1-i, ...] * grid[n-1-i]**2 / c  for every index (leading axis reversed)"""
    n = len(spec)
    if spec.ndim == 1:
        return forall(0, n, lambda i: out[i] == spec[n - 1 - i] * grid[n - 1 - i]**2 / c)
    m = spec.shape[1]
    return forall(0, n, lambda i: forall(0, m, lambda j: out[i, j] == spec[n - 1 - i, j] * grid[n - 1 - i]**2 / c))


def spec_scaled(out, spec, c):
    n = len(spec)
    if spec.ndim == 1:
        return forall(0, n, lambda i: out[i] == spec[i] * c)
    m = spec.shape[1]
    return forall(0, n, lambda i: forall(0, m, lambda j: out[i, j] == spec[i, j] * c))


for _n in ("perfrequency2perwavelength", "perwavelength2perfrequency", "perfrequency2perwavenumber", "perwavenumber2perfrequency"):
    REG.by_label[M + _n].env.update(spec_rev_scaled=spec_rev_scaled, spec_scaled=spec_scaled)
spec_rev_scaled.__pyvc_thm__ = True
spec_scaled.__pyvc_thm__ = True


@theorem(P, "perunit-inverse")
def thm_perunit(n: "int"):
    requires(n >= 1)
    spec = fresh_array("spec", n)
    grid = fresh_array("grid", n)
    requires(forall(0, n, lambda i: grid[i] > 0))
    k = fresh("k", "int")
    requires(0 <= k, k < n)
    perm, lam = E.perfrequency2perwavelength(spec, grid)
    back, g2 = E.perwavelength2perfrequency(perm, lam)
    ensures(back[k] == spec[k], g2[k] == grid[k], id="perwavelength2perfrequency(perfrequency2perwavelength) == id")
    ensures(lam[k] == constants.speed_of_light / grid[n - 1 - k], id="wavelength grid is c/f reversed")
    perhz, f = E.perwavelength2perfrequency(spec, grid)
    back2, g3 = E.perfrequency2perwavelength(perhz, f)
    ensures(back2[k] == spec[k], g3[k] == grid[k], id="perfrequency2perwavelength(perwavelength2perfrequency) == id")
    pwn, wn = E.perfrequency2perwavenumber(spec, grid)
    back3, g4 = E.perwavenumber2perfrequency(pwn, wn)
    ensures(back3[k] == spec[k], g4[k] == grid[k], id="perwavenumber2perfrequency(perfrequency2perwavenumber) == id")
    ph, fg = E.perwavenumber2perfrequency(spec, grid)
    back4, g5 = E.perfrequency2perwavenumber(ph, fg)
    ensures(back4[k] == spec[k], g5[k] == grid[k], id="perfrequency2perwavenumber(perwavenumber2perfrequency) == id")


@theorem(P, "perunit-maps-planck-forms")
def thm_perunit_planck(n: "int", T: "real"):
    # the converters map the per-frequency Planck spectrum onto the per-wavelength / per-wavenumber one
    requires(n >= 1, T > 0)
    f = fresh_array("f", n)
    requires(forall(0, n, lambda i: f[i] > 0))
    k = fresh("k", "int")
    requires(0 <= k, k < n)
    B = E.planck(f, T)
    perm, lam = E.perfrequency2perwavelength(B, f)
    ensures(perm[k] == E.planck_wavelength(lam[k], T), id="perfrequency2perwavelength(planck) == planck_wavelength on the new grid")
    pwn, wn = E.perfrequency2perwavenumber(B, f)
    ensures(pwn[k] == E.planck_wavenumber(wn[k], T), id="perfrequency2perwavenumber(planck) == planck_wavenumber on the new grid")


# ---------------------------------------------------------------- Snell / Fresnel (real refractive indices)
RAD = "PI / 180"
c_snell = contract(M + "snell", prop=P, params=dict(n1="real", n2="real", theta1="real"),
                   requires=["n1 > 0", "n2 > 0", "0 <= theta1", "theta1 <= 90", "n1 * sin(theta1 * %s) <= n2" % RAD],
                   ensures=["n1 * sin(theta1 * %s) == n2 * sin(result * %s)" % (RAD, RAD), "0 <= result", "result <= 90"])
c_snell.domain = {"n1": (0.5, 3.0), "n2": (3.0, 6.0), "theta1": (0.0, 90.0)}
c_fres = contract(M + "fresnel", prop=P, params=dict(n1="real", n2="real", theta1="real"),
                  requires=["n1 > 0", "n2 > 0", "0 <= theta1", "theta1 < 90", "n1 * sin(theta1 * %s) <= n2" % RAD],
                  result=lambda ctx, env: (ctx.fresh("Rv", "real"), ctx.fresh("Rh", "real")), pure=False,
                  ensures=["-1 <= result[0]", "result[0] <= 1", "-1 <= result[1]", "result[1] <= 1",
                           "implies(theta1 == 0, result[0] == -result[1])",
                           "implies(n1 * sin(theta1 * %s) == n2 * cos(theta1 * %s), result[0] == 0)" % (RAD, RAD)])
c_fres.domain = c_snell.domain


@theorem(P, "fresnel")
def thm_fresnel(n1: "real", n2: "real", theta1: "real"):
    requires(n1 > 0, n2 > 0, 0 <= theta1, theta1 < 90, n1 * sin(theta1 * PI / 180) <= n2)
    Rv, Rh = E.fresnel(n1, n2, theta1)
    ensures(abs(Rv) <= 1, abs(Rh) <= 1, id="|Rv|,|Rh| <= 1")
    ensures(implies(theta1 == 0, abs(Rv) == abs(Rh)), id="|Rv| == |Rh| at normal incidence")
    # Brewster angle: tan(theta1) = n2/n1
    ensures(implies(n1 * sin(theta1 * PI / 180) == n2 * cos(theta1 * PI / 180), Rv == 0), id="Rv == 0 at the Brewster angle")


# samplers for the refutation search / differential test of the array contracts
import numpy as _np


def _grid_sampler(a, b):
    def sampler(rng):
        n = rng.randint(1, 5)
        grid = _np.sort(_np.array([rng.uniform(0.5, 50.0) for _ in range(n)]))
        if rng.random() < 0.5:
            spec = _np.array([rng.uniform(-3, 3) for _ in range(n)])
        else:
            spec = _np.array([[rng.uniform(-3, 3) for _ in range(rng.randint(1, 3))] for _ in range(n)])
            spec = _np.array([row[:min(len(r) for r in spec.tolist())] if False else row for row in spec])
        return {a: spec, b: grid}
    return sampler


def _grid_sampler2(a, b):
    def sampler(rng):
        n = rng.randint(1, 5)
        m = rng.randint(1, 3)
        grid = _np.sort(_np.array([rng.uniform(0.5, 50.0) for _ in range(n)]))
        spec = _np.array([[rng.uniform(-3, 3) for _ in range(m)] for _ in range(n)]) if rng.random() < 0.5 else \
            _np.array([rng.uniform(-3, 3) for _ in range(n)])
        return {a: spec, b: grid}
    return sampler


REG.by_label[M + "perfrequency2perwavelength"].sampler = _grid_sampler2("perhz", "f_grid")
REG.by_label[M + "perwavelength2perfrequency"].sampler = _grid_sampler2("perm", "lam_grid")
REG.by_label[M + "perfrequency2perwavenumber"].sampler = _grid_sampler2("perhz", "f_grid")
REG.by_label[M + "perwavenumber2perfrequency"].sampler = _grid_sampler2("perwn", "wn_grid")


# ------------------------------------------------------------------ bounded: complex refractive index of the second medium
# (complex values are outside the real-number encoding of the proved tier; the formula of Liou is compared with the refraction
# angle of the transmitted wave vector, computed independently with cmath)
@bounded(P, "snell-fresnel-complex-n2", "snell() / fresnel() for real n1 in [1, 3] and complex n2 = nr + i ni (nr in [0.8, 9], ni in [1e-3, 4]), "
         "incidence 0..89.9 degrees, scalar and array forms: refraction angle == atan2(n1 sin t1, Re sqrt(n2^2 - n1^2 sin^2 t1)), invariance "
         "snell(n1, n2, t) == snell(1, n2 / n1, t), |Rv|, |Rh| <= 1, |Rv| == |Rh| at normal incidence; 400 (quick) / 4000 (thorough) cases")
def bounded_snell_complex(rng, tier):
    import cmath
    import math
    rounds = 400 if tier == "quick" else 4000
    evals, failures, samples, distinct = 0, [], [], set()
    for r in range(rounds):
        n1 = rng.choice([1.0, 1.33, rng.uniform(1.0, 3.0)])
        n2 = complex(rng.uniform(0.8, 9.0), rng.choice([1e-3, 0.2, rng.uniform(0.01, 4.0)]))
        t1 = rng.choice([0.0, 5.0, 45.0, 89.9, rng.uniform(0.0, 89.9)])
        evals += 1
        distinct.add((round(n1, 2), round(n2.real, 1), round(n2.imag, 1), round(t1)))
        case = {"n1": n1, "n2": [n2.real, n2.imag], "theta1": t1}
        try:
            got = float(E.snell(n1, n2, t1))
            scaled = float(E.snell(1.0, n2 / n1, t1))
            arr = E.snell(n1, _np.array([n2, n2]), t1)
            Rv, Rh = E.fresnel(n1, n2, t1)
            Rv0, Rh0 = E.fresnel(n1, n2, 0.0)
        except Exception as exc:
            failures.append(dict(case, problem="exception %r" % (exc,)))
            continue
        s = n1 * math.sin(math.radians(t1))
        want = math.degrees(math.atan2(s, cmath.sqrt(n2 * n2 - s * s).real))
        problems = []
        if abs(got - want) > 1e-7 * (1 + abs(want)):
            problems.append("refraction angle %r, wave-vector value %r" % (got, want))
        if abs(got - scaled) > 1e-7 * (1 + abs(want)):
            problems.append("snell(n1, n2, t) = %r but snell(1, n2/n1, t) = %r" % (got, scaled))
        if _np.any(_np.abs(_np.asarray(arr, dtype=float) - got) > 1e-9 * (1 + abs(got))):
            problems.append("array form differs from the scalar form")
        if abs(Rv) > 1 + 1e-9 or abs(Rh) > 1 + 1e-9:
            problems.append("|R| > 1: %r %r" % (Rv, Rh))
        if abs(abs(Rv0) - abs(Rh0)) > 1e-9:
            problems.append("|Rv| != |Rh| at normal incidence")
        if problems:
            failures.append(dict(case, problem="; ".join(problems)))
        elif len(samples) < 3:
            samples.append(dict(case, theta2=got))
    return {"evaluations": evals, "distinct_nontrivial": len(distinct), "failures": failures[:5], "samples": samples}
