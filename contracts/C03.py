"""C03 -- IntervalTree queries and FileSet.match (typhon/trees.py, typhon/files/fileset.py).

Abstract view.  The stored intervals are rows (lo_i, hi_i, i), i in [0, n); LO, HI are functions of the
row id.  A collection of rows (the 2-d arrays the tree code shuffles around) is a *set of row ids*
(class RowSet): boolean-mask selection keeps rows intact, so every array the code derives from the input
is a subset of the same rows.  A tree node has a centre point cp, a row set C and two children; ghost
sub(node) = C + sub(left) + sub(right).  wf(node): rows of C contain cp, rows of sub(left) end < cp,
rows of sub(right) start > cp.  Endpoints are reals (any totally ordered type without NaN, A2).
Query results are bags of ids (count function).
"""
import numpy as _np
import z3 as _z3
from pyvc.dsl import *
from pyvc import sym as _sym
from pyvc.sym import Sym as _Sym, SArr as _SArr, OutsideSubset as _Outside, lift as _lift, mk as _mk
from pyvc.models import model as _model
from pyvc.contracts import fresh_array as _fa
from typhon import trees as TR
from typhon.trees import IntervalTree, IntervalTreeNode

P = "C03"
M = "typhon.trees:"
NOT_DECIDED = []
ASSUMPTIONS = [
    "NumPy on row collections: boolean-mask selection and fancy indexing by a permutation keep rows intact; "
    "np.hstack([intervals, arange column]) appends the row number; x[:, c] is column c; np.min/np.max are the extreme entries",
    "interval endpoints are totally ordered values without NaN (reals); datetime endpoints are covered as an order only",
]
I_ = _z3.IntSort()
R_ = _z3.RealSort()
B_ = _z3.BoolSort()


def _ctx():
    return _sym.ctx()


class Table:
    """the stored rows: id -> (lo, hi)"""

    def __init__(self, ctx, n):
        nm = ctx.fresh_name("T")
        self.n = n
        self.LO = _z3.Function(nm + "_lo", I_, R_)
        self.HI = _z3.Function(nm + "_hi", I_, R_)

    def lo(self, i):
        return _Sym(self.LO(_lift(i)))

    def hi(self, i):
        return _Sym(self.HI(_lift(i)))


class RowSet:
    """a 2-d array whose rows are rows (lo, hi, id) of a Table: represented by the set of ids it holds"""
    __pyvc_symbolic__ = True

    def __init__(self, table, member, size=None):
        self.table = table
        self.member = member            # python callable: id (Sym/int) -> Sym bool
        ctx = _ctx()
        if size is None:
            size = ctx.fresh("rows", "int")
            ctx.assume(size >= 0)
            # size = number of member ids: only its zero-ness matters
            q = _z3.Int(ctx.fresh_name("q"))
            anym = _z3.Exists([q], _z3.And(q >= 0, q < _lift(table.n), _sym.truth(member(_Sym(q)))))
            ctx.assume((size.e > 0) == anym)
        self.size = size

    @property
    def shape(self):
        return (self.size, 3)

    def mem(self, i):
        t = self.table
        return _mk(_z3.And(_lift(i) >= 0, _lift(i) < _lift(t.n), _sym.truth(self.member(i))))

    def any(self):
        """ndarray.any(): some entry is non-zero"""
        ctx = _ctx()
        t = self.table
        q = _z3.Int(ctx.fresh_name("q"))
        body = _z3.And(_sym.truth(self.mem(_Sym(q))), _z3.Or(t.LO(q) != 0, t.HI(q) != 0, q != 0))
        return _mk(_z3.Exists([q], body))

    def __getitem__(self, key):
        ctx = _ctx()
        t = self.table
        if isinstance(key, RowMask):
            m, k = self.member, key.pred
            sub = RowSet(t, lambda i: _mk(_z3.And(_sym.truth(m(i)), _sym.truth(k(i)))))
            # finite-set cardinality: a subset is no larger, and strictly smaller if some row is left out
            q = _z3.Int(ctx.fresh_name("q"))
            left_out = _z3.Exists([q], _z3.And(_sym.truth(self.mem(_Sym(q))), _z3.Not(_sym.truth(sub.mem(_Sym(q))))))
            ctx.assume(_z3.And(_lift(sub.size) <= _lift(self.size), _z3.Implies(left_out, _lift(sub.size) < _lift(self.size))))
            return sub
        if isinstance(key, RowPerm) and key.rows is self:
            return RowSet(t, self.member, self.size)          # re-ordering keeps the rows
        if isinstance(key, tuple) and len(key) == 2:
            r, c = key
            if isinstance(r, slice) and r == slice(None) and c in (0, 1, 2):
                return Col(self, c)
            if c in (0, 1, 2) and not isinstance(r, slice):
                if isinstance(r, int) and r < 0:
                    r = self.size + r           # NumPy negative index
                # element of the row at some position r in [0, size): the row of SOME member id
                ctx.oblige_safe("index-in-bounds", _z3.And(_lift(r) >= 0, _lift(r) < _lift(self.size)))
                w = ctx.fresh("rowid", "int")
                ctx.assume(self.mem(w))
                return [t.lo(w), t.hi(w), w][c]
        raise _Outside("indexing a row collection with %r" % (key,))

    def __pyvc_comprehension__(self, interp, node, frame):
        """[int(row[2]) for row in rows if cond(row)] -> bag of ids"""
        import ast
        from pyvc.interp import Frame
        g = node.generators
        if len(g) != 1 or not isinstance(g[0].target, ast.Name):
            raise _Outside("comprehension over a row collection of this shape")
        name = g[0].target.id
        t = self.table
        me = self

        def count(i):
            row = (t.lo(i), t.hi(i), i)
            fr = Frame({name: row}, frame.globals, frame, frame.label)
            c = interp.ctx
            c.spec_mode += 1
            try:
                conds = [_sym.truth(interp.eval(cnd, fr)) for cnd in g[0].ifs]
                val = interp.eval(node.elt, fr)
            finally:
                c.spec_mode -= 1
            same = _sym.truth(val == i) if _sym.is_sym(val) or _sym.is_sym(i) else _z3.BoolVal(val == i)
            return _z3.And(_sym.truth(me.mem(i)), *conds), same
        # the element must be the row's own id
        probe = interp.ctx.fresh("rowid", "int")
        cond, same = count(probe)
        interp.ctx.oblige_safe("element-is-row-id", _z3.Implies(cond, same))
        return Bag(t, lambda i: _sym.ite(_mk(count(i)[0]), 1, 0))

    def __pyvc_iter__(self, interp):
        raise _Outside("plain iteration over a row collection")


class Col:
    def __init__(self, rows, c):
        self.rows, self.c = rows, c

    def val(self, i):
        t = self.rows.table
        return [t.lo(i), t.hi(i), i][self.c]

    def _cmp(self, other, op):
        return RowMask(lambda i: op(self.val(i), other))

    def __le__(self, o):
        return self._cmp(o, lambda a, b: a <= b)

    def __lt__(self, o):
        return self._cmp(o, lambda a, b: a < b)

    def __ge__(self, o):
        return self._cmp(o, lambda a, b: a >= b)

    def __gt__(self, o):
        return self._cmp(o, lambda a, b: a > b)

    def argsort(self, *a, **k):
        return RowPerm(self.rows)

    __pyvc_symbolic__ = True


class RowPerm:
    """np.argsort of a column: a permutation of the row positions"""
    __pyvc_symbolic__ = True

    def __init__(self, rows):
        self.rows = rows


class RowMask:
    __pyvc_symbolic__ = True

    def __init__(self, pred):
        self.pred = pred

    def __and__(self, o):
        a, b = self.pred, o.pred
        return RowMask(lambda i: _mk(_z3.And(_sym.truth(a(i)), _sym.truth(b(i)))))

    def __or__(self, o):
        a, b = self.pred, o.pred
        return RowMask(lambda i: _mk(_z3.Or(_sym.truth(a(i)), _sym.truth(b(i)))))


class Bag:
    """list of row ids as a count function id -> multiplicity"""
    __pyvc_symbolic__ = True

    def __init__(self, table, count):
        self.table, self.count = table, count

    def extend(self, other):
        if isinstance(other, list) and not other:
            return
        a, b = self.count, other.count
        self.count = lambda i: a(i) + b(i)

    def __bool__(self):
        ctx = _ctx()
        q = _z3.Int(ctx.fresh_name("q"))
        return ctx.branch(_z3.Exists([q], _z3.And(q >= 0, q < _lift(self.table.n), _lift(self.count(_Sym(q))) > 0)))

    def __pyvc_len__(self):
        raise _Outside("len of a bag")


def bag_count(bag, i):
    if isinstance(bag, list):
        return sum(1 for x in bag if x == i)
    return bag.count(i)


bag_count.__pyvc_native__ = True


# ------------------------------------------------------------------ NumPy on row collections (trusted models, A3)
@_model(_np.asarray, _np.array)
def _asarray(interp, v, *a, **k):
    from pyvc.models import np_asarray2 as np_asarray
    if isinstance(v, RowSet):
        return v
    return np_asarray(interp, v, *a, **k)


@_model(_np.sort)
def _sort(interp, a, axis=-1, **k):
    if isinstance(a, RowSet) and axis == 0:
        # column-wise sort: every column is sorted on its own, the rows are torn apart.  The result is a
        # collection of n NEW rows (fresh table) about which nothing row-wise is known.
        ctx = interp.ctx
        t2 = Table(ctx, a.table.n)
        interp.trusted_used.add("model:np.sort(axis=0) sorts each column independently (rows are not preserved)")
        return RowSet(t2, lambda i: True, a.size)
    raise _Outside("np.sort of this argument")


class IntervalsIn:
    """the (n, 2) input array of __init__"""
    __pyvc_symbolic__ = True

    def __init__(self, table):
        self.table = table

    @property
    def shape(self):
        return (self.table.n, 2)


@_model(_np.min)
def _min(interp, a, *args, **k):
    if isinstance(a, IntervalsIn):
        return _extreme(interp, a.table, True)
    return _np.min(a, *args, **k)


@_model(_np.max)
def _max(interp, a, *args, **k):
    if isinstance(a, IntervalsIn):
        return _extreme(interp, a.table, False)
    return _np.max(a, *args, **k)


def _extreme(interp, t, is_min):
    ctx = interp.ctx
    m = ctx.fresh("min" if is_min else "max", "real")
    q = _z3.Int(ctx.fresh_name("q"))
    rng = _z3.And(q >= 0, q < _lift(t.n))
    if is_min:
        ctx.assume(_z3.ForAll([q], _z3.Implies(rng, _z3.And(m.e <= t.LO(q), m.e <= t.HI(q)))))
    else:
        ctx.assume(_z3.ForAll([q], _z3.Implies(rng, _z3.And(m.e >= t.LO(q), m.e >= t.HI(q)))))
    w = ctx.fresh("attained", "int")
    ctx.assume(_z3.And(w.e >= 0, w.e < _lift(t.n), _z3.Or(m.e == t.LO(w.e), m.e == t.HI(w.e))))
    return m


@_model(_np.hstack)
def _hstack(interp, parts, *a, **k):
    if len(parts) == 2 and isinstance(parts[0], IntervalsIn) and isinstance(parts[1], _SArr):
        t = parts[0].table
        col = parts[1]
        # the appended column must be the row number
        p = interp.ctx.fresh("p", "int")
        interp.ctx.assume(_z3.And(p.e >= 0, p.e < _lift(t.n)))
        interp.ctx.oblige_safe("index-column-is-row-number", col.fn(p, 0) == p)
        return RowSet(t, lambda i: True, t.n)
    from pyvc.models import np_hstack
    return np_hstack(interp, parts, *a, **k)


@_model(isinstance)
def _isinstance(interp, obj, cls):
    from pyvc.models import py_isinstance2
    if isinstance(obj, (IntervalsIn, RowSet)):
        return isinstance(_np.zeros(0), cls)
    return py_isinstance2(interp, obj, cls)


# ------------------------------------------------------------------ ghost view of nodes
def in_sub(node, i):
    """row id i is stored in the subtree of node"""
    if node is None:
        return False
    if hasattr(node, "_sub"):
        return node._sub(i)
    return _mk(_z3.Or(_sym.truth(node.center.mem(i)), _sym.truth(in_sub(node.left, i)), _sym.truth(in_sub(node.right, i))))


def wf(node, table):
    """well-formedness of a node whose structure is visible (children may be abstract with ghost _wf)"""
    if node is None:
        return True
    if hasattr(node, "_sub"):
        return node._wf
    ctx = _ctx()
    q = _z3.Int(ctx.fresh_name("q"))
    cp = _sym.to_real(_lift(node.center_point))
    i = _Sym(q)
    inC, inL, inR = (_sym.truth(node.center.mem(i)), _sym.truth(in_sub(node.left, i)), _sym.truth(in_sub(node.right, i)))
    body = _z3.And(
        _z3.Implies(inC, _z3.And(table.LO(q) <= cp, cp <= table.HI(q))),
        _z3.Implies(inL, table.HI(q) < cp),
        _z3.Implies(inR, table.LO(q) > cp),
        _z3.Not(_z3.And(inC, inL)), _z3.Not(_z3.And(inC, inR)), _z3.Not(_z3.And(inL, inR)))
    return _mk(_z3.And(_z3.ForAll([q], body), _sym.truth(wf(node.left, table)), _sym.truth(wf(node.right, table))))


def abstract_node(ctx, table, name):
    """a node known only through its ghost view"""
    node = IntervalTreeNode.__new__(IntervalTreeNode)
    f = _z3.Function(ctx.fresh_name(name + "_sub"), I_, B_)
    node._sub = lambda i: _mk(_z3.And(_lift(i) >= 0, _lift(i) < _lift(table.n), f(_lift(i))))
    node._wf = ctx.fresh(name + "_wf", "bool")
    node._table = table
    node._height = ctx.fresh(name + "_height", "int")
    ctx.assume(node._height >= 0)
    return node


def overlaps(table, i, q):
    return _mk(_z3.And(table.LO(_lift(i)) <= _sym.to_real(_lift(q[1])), table.HI(_lift(i)) >= _sym.to_real(_lift(q[0]))))


def contains(table, i, x):
    return _mk(_z3.And(table.LO(_lift(i)) <= _sym.to_real(_lift(x)), _sym.to_real(_lift(x)) <= table.HI(_lift(i))))


def forall_ids(table, body):
    ctx = _ctx()
    q = _z3.Int(ctx.fresh_name("q"))
    ctx.bound_depth = getattr(ctx, "bound_depth", 0) + 1
    try:
        b = body(_Sym(q))
    finally:
        ctx.bound_depth -= 1
    return _mk(_z3.ForAll([q], _z3.Implies(_z3.And(q >= 0, q < _lift(table.n)), _sym.truth(b))))


for _f in (in_sub, wf, overlaps, contains, forall_ids):
    _f.__pyvc_native__ = True
ENV = dict(in_sub=in_sub, wf=wf, overlaps=overlaps, contains=contains, forall_ids=forall_ids, bag_count=bag_count)


def _bag_result(ctx, env):
    t = env["node"]._table if hasattr(env["node"], "_table") else env["self"]._table
    f = _z3.Function(ctx.fresh_name("res_count"), I_, I_)
    return Bag(t, lambda i: _Sym(f(_lift(i))))


def _make_tree_self(ctx, t):
    self = IntervalTree.__new__(IntervalTree)
    self._table = t
    self.left = ctx.fresh("tree_left", "real")
    self.right = ctx.fresh("tree_right", "real")
    return self


def _visible_node(ctx, t, with_children):
    node = IntervalTreeNode.__new__(IntervalTreeNode)
    node._table = t
    node.center_point = ctx.fresh("cp", "real")
    cf = _z3.Function(ctx.fresh_name("inC"), I_, B_)
    node.center = RowSet(t, lambda i: _Sym(cf(_lift(i))))
    node.left = abstract_node(ctx, t, "L") if with_children[0] else None
    node.right = abstract_node(ctx, t, "R") if with_children[1] else None
    node._height = ctx.fresh("height", "int")       # ghost: the tree is finite, a node is higher than its children
    for ch in (node.left, node.right):
        if ch is not None:
            ctx.assume(node._height > ch._height)
    ctx.assume(node._height >= 0)
    return node


CHILD_CFGS = [{"children": (a, b), "check_extreme": ce} for a in (True, False) for b in (True, False) for ce in (True, False)]


def _setup_query(ctx, cfg):
    n = ctx.fresh("n", "int")
    ctx.assume(n >= 1)
    t = Table(ctx, n)
    self = _make_tree_self(ctx, t)
    node = _visible_node(ctx, t, cfg["children"])
    q = (ctx.fresh("q0", "real"), ctx.fresh("q1", "real"))
    return dict(self=self, query_interval=q, node=node, check_extreme=cfg["check_extreme"])


TREE_BOUNDS = "forall_ids(node._table, lambda i: implies(in_sub(node, i), self.left <= node._table.lo(i) and node._table.hi(i) <= self.right))"
ROWS_VALID = "forall_ids(node._table, lambda i: implies(in_sub(node, i), node._table.lo(i) <= node._table.hi(i)))"
c_query = contract(
    M + "IntervalTree._query", prop=P, setup=_setup_query, configs=CHILD_CFGS, pure=False, env=ENV, result=_bag_result,
    requires=["wf(node, node._table)", "query_interval[0] <= query_interval[1]", ROWS_VALID, TREE_BOUNDS],
    ensures=["forall_ids(node._table, lambda i: bag_count(result, i) == "
             "ite(in_sub(node, i) and overlaps(node._table, i, query_interval), 1, 0))"],
    variant="node._height",
    canaries=["forall_ids(node._table, lambda i: bag_count(result, i) == 0)"])


def _setup_query_point(ctx, cfg):
    d = _setup_query(ctx, cfg)
    d["point"] = ctx.fresh("x", "real")
    del d["query_interval"]
    return d


c_qpoint = contract(
    M + "IntervalTree._query_point", prop=P, setup=_setup_query_point, configs=CHILD_CFGS, pure=False, env=ENV, result=_bag_result,
    requires=["wf(node, node._table)", ROWS_VALID, TREE_BOUNDS],
    ensures=["forall_ids(node._table, lambda i: bag_count(result, i) == "
             "ite(in_sub(node, i) and contains(node._table, i, point), 1, 0))"],
    canaries=["forall_ids(node._table, lambda i: bag_count(result, i) == 0)"])


# interval_overlaps / interval_contains are small pure helpers: inlined at their call sites, and contracted here
def _pair(prefix):
    return lambda ctx, n: (ctx.fresh(prefix + "0", "real"), ctx.fresh(prefix + "1", "real"))


c_ov = contract(M + "IntervalTree.interval_overlaps", prop=P, params=dict(interval1=_pair("a"), interval2=_pair("b")),
                result="bool", pure=False, inline=True,
                ensures=["result == (interval1[0] <= interval2[1] and interval1[1] >= interval2[0])",
                         # closed intervals: overlap  <=>  non-empty intersection
                         "implies(interval1[0] <= interval1[1] and interval2[0] <= interval2[1], "
                         "result == (max(interval1[0], interval2[0]) <= min(interval1[1], interval2[1])))"])
c_ct = contract(M + "IntervalTree.interval_contains", prop=P, params=dict(interval=_pair("a"), point="real"),
                result="bool", pure=False, inline=True,
                ensures=["result == (interval[0] <= point and point <= interval[1])"])


# ------------------------------------------------------------------ _build_tree / __init__
def _setup_build(ctx, cfg):
    n = ctx.fresh("n", "int")
    ctx.assume(n >= 1)
    t = Table(ctx, n)
    self = _make_tree_self(ctx, t)
    mf = _z3.Function(ctx.fresh_name("inRows"), I_, B_)
    rows = RowSet(t, lambda i: _Sym(mf(_lift(i))))
    return dict(self=self, intervals=rows)


def _build_result(ctx, env):
    rows = env["intervals"]
    t = rows.table
    node = abstract_node(ctx, t, "built")
    return node


def is_none(x):
    return x is None


is_none.__pyvc_native__ = True
ENV["is_none"] = is_none


def _build_post(interp, env2):
    """the result of _build_tree may be None: model it as a fork at the call site"""
    return None


c_build = contract(
    M + "IntervalTree._build_tree", prop=P, setup=_setup_build, pure=False, env=ENV,
    requires=["forall_ids(intervals.table, lambda i: implies(intervals.mem(i), intervals.table.lo(i) <= intervals.table.hi(i)))"],
    result=lambda ctx, env: _build_fresh(ctx, env),
    ensures=["(result is None) == (not rows_nonempty(intervals))",
             "implies_node(result, lambda: wf(result, intervals.table))",
             "implies_node(result, lambda: forall_ids(intervals.table, lambda i: in_sub(result, i) == intervals.mem(i)))"],
    variant="intervals.size")


def _build_fresh(ctx, env):
    rows = env["intervals"]
    if ctx.choose(2, "build-none") == 0:
        return None
    return abstract_node(ctx, rows.table, "built")


def rows_nonempty(rows):
    ctx = _ctx()
    q = _z3.Int(ctx.fresh_name("q"))
    return _mk(_z3.Exists([q], _sym.truth(rows.mem(_Sym(q)))))


def implies_node(node, thunk):
    if node is None:
        return True
    return thunk()


rows_nonempty.__pyvc_native__ = True
implies_node.__pyvc_native__ = True
ENV.update(rows_nonempty=rows_nonempty, implies_node=implies_node)

REG.inline_ok.add(M + "IntervalTree._get_center")
REG.inline_ok.add(M + "IntervalTreeNode.__init__")

c_build.canaries = ["result is None",
                    "implies_node(result, lambda: forall_ids(intervals.table, lambda i: not in_sub(result, i)))"]


# ------------------------------------------------------------------ __init__
def _setup_init(ctx, cfg):
    n = ctx.fresh("n", "int")
    ctx.assume(n >= 1)
    t = Table(ctx, n)
    self = IntervalTree.__new__(IntervalTree)
    self._table = t
    return dict(self=self, intervals=IntervalsIn(t))


def _init_effects(interp, env):
    ctx = interp.ctx
    self, t = env["self"], env["intervals"].table
    self._table = t
    self.left, self.right = ctx.fresh("tree_left", "real"), ctx.fresh("tree_right", "real")
    self.root = abstract_node(ctx, t, "root")


VALID_IN = "forall_ids(intervals.table, lambda i: intervals.table.lo(i) <= intervals.table.hi(i))"
c_init = contract(
    M + "IntervalTree.__init__", prop=P, setup=_setup_init, pure=False, env=ENV, effects=_init_effects, result="real",
    requires=[VALID_IN],
    ensures=["self.root is not None",
             "self.root._table is intervals.table",           # the tree stores the caller's rows, not other rows
             "wf(self.root, intervals.table)",
             "forall_ids(intervals.table, lambda i: in_sub(self.root, i))",     # every input row is stored
             "forall_ids(intervals.table, lambda i: self.left <= intervals.table.lo(i) and intervals.table.hi(i) <= self.right)"],
    canaries=["self.left == self.right"])


# ------------------------------------------------------------------ the property over the public API
def _sym_or_real_intervals(ctx, name):
    n = ctx.fresh("n", "int")
    ctx.assume(n >= 1)
    return IntervalsIn(Table(ctx, n))


def lo_of(data, i):
    return data.table.lo(i) if isinstance(data, IntervalsIn) else data[i][0]


def hi_of(data, i):
    return data.table.hi(i) if isinstance(data, IntervalsIn) else data[i][1]


def n_of(data):
    return data.table.n if isinstance(data, IntervalsIn) else len(data)


def count_in(result, i):
    return bag_count(result, i)


def valid(data):
    if isinstance(data, IntervalsIn):
        return forall_ids(data.table, lambda i: data.table.lo(i) <= data.table.hi(i))
    return all(r[0] <= r[1] for r in data)


@theorem(P, "query", data=_sym_or_real_intervals)
def thm_query(data, q0: "real", q1: "real", x: "real"):
    requires(valid(data), q0 <= q1)
    tree = IntervalTree(data)
    res = tree.query([(q0, q1)])
    pts = tree.query_points([x])
    i = fresh("i", "int")
    requires(0 <= i, i < n_of(data))
    ensures(len(res) == 1, len(pts) == 1, id="one answer per query")
    ensures(count_in(res[0], i) == ite(lo_of(data, i) <= q1 and hi_of(data, i) >= q0, 1, 0),
            id="query: exactly the intersecting intervals, each once")
    ensures(count_in(pts[0], i) == ite(lo_of(data, i) <= x and x <= hi_of(data, i), 1, 0),
            id="query_points: exactly the intervals containing the point, each once")


@theorem(P, "contains", data=_sym_or_real_intervals)
def thm_contains(data, q0: "real", q1: "real", x: "real"):
    requires(valid(data), q0 <= q1)
    tree = IntervalTree(data)
    hit_interval = (q0, q1) in tree
    hit_point = x in tree
    ensures(hit_interval == exists(0, n_of(data), lambda i: lo_of(data, i) <= q1 and hi_of(data, i) >= q0),
            id="interval in tree  <=>  some stored interval intersects it")
    ensures(hit_point == exists(0, n_of(data), lambda i: lo_of(data, i) <= x and x <= hi_of(data, i)),
            id="point in tree  <=>  some stored interval contains it")


def _data_sampler(rng):
    n = rng.randint(1, 6)
    pool = [0, 0.0, 1, 2.5, -3, 5, 6, 7, 8, 10]
    rows = []
    for _ in range(n):
        a, b = rng.choice(pool), rng.choice(pool)
        rows.append([min(a, b), max(a, b)])
    q = sorted([rng.choice(pool + [-100, 100]), rng.choice(pool + [-100, 100])])
    return dict(data=rows, q0=q[0], q1=q[1], x=rng.choice(pool + [-100, 100, 0.5]))


thm_query.sampler = _data_sampler
thm_contains.sampler = _data_sampler
for _t in REG.theorems:
    if _t.fn in (thm_query, thm_contains):
        _t.sampler = _data_sampler


@bounded(P, "brute-force-small-trees", "all interval sets of 1..4 intervals with endpoints in {0,1,2,3} (incl. [0,0], duplicates, nesting) "
         "plus 300 random float/negative sets; every query interval / point on the half-integer lattice -1..4")
def bounded_trees(rng, tier):
    import itertools
    pts = [0, 1, 2, 3]
    ivs = [(a, b) for a in pts for b in pts if a <= b]
    qpts = [x / 2 for x in range(-2, 9)]
    evals, failures, samples, distinct = 0, [], [], set()
    sets = []
    for n in (1, 2, 3) if tier == "quick" else (1, 2, 3, 4):
        sets += list(itertools.combinations_with_replacement(ivs, n))
    for _ in range(300):
        n = rng.randint(1, 7)
        sets.append(tuple(tuple(sorted((round(rng.uniform(-5, 5), 1), round(rng.uniform(-5, 5), 1)))) for _ in range(n)))
    for data in sets:
        perm = list(data)
        rng.shuffle(perm)
        try:
            tree = IntervalTree(_np.array(perm))
        except Exception as exc:
            failures.append({"data": perm, "error": repr(exc)})
            continue
        for a in qpts[::2]:
            for b in qpts[::3]:
                if a > b:
                    continue
                evals += 1
                distinct.add((data, a, b))
                want = sorted(i for i, (lo, hi) in enumerate(perm) if lo <= b and hi >= a)
                try:
                    got = sorted(tree.query([(a, b)])[0])
                    inside = (a, b) in tree
                except Exception as exc:
                    got, inside = repr(exc), None
                if got != want or inside != bool(want):
                    failures.append({"data": perm, "query": (a, b), "got": got, "want": want, "in": inside})
        for x in qpts:
            evals += 1
            want = sorted(i for i, (lo, hi) in enumerate(perm) if lo <= x <= hi)
            try:
                got = sorted(tree.query_points([x])[0])
                inside = x in tree
            except Exception as exc:
                got, inside = repr(exc), None
            if got != want or inside != bool(want):
                failures.append({"data": perm, "point": x, "got": got, "want": want, "in": inside})
        if len(samples) < 3:
            samples.append({"data": perm, "query": (0, 1), "answer": sorted(tree.query([(0, 1)])[0])})
        if len(failures) > 20:
            break
    return {"evaluations": evals, "distinct_nontrivial": len(distinct), "failures": failures[:5], "samples": samples}

for _n in ("IntervalTree.query", "IntervalTree.query_points", "IntervalTree.__contains__"):
    REG.inline_ok.add(M + _n)


# =============================================================================
# FileSet.match: the glue around the tree.  find() of both filesets is a GIVEN (its contract is C01: the files of the
# period, in time order) -- the theorem supplies 'what find returned' as lists of files with SYMBOLIC coverage; the
# IntervalTree is replaced by the contract proved above (query: exactly the intersecting stored intervals, each once).
# =============================================================================
from datetime import datetime as _datetime, timedelta as _timedelta      # noqa: E402
from typhon.files.fileset import FileSet as _FileSet                     # noqa: E402
from typhon.files.handlers.common import FileInfo as _FileInfo           # noqa: E402
import contracts.C02 as _c02                                             # noqa: E402
from pyvc import timesym as _ts                                          # noqa: E402

REG.inline_ok.add("typhon.files.fileset:FileSet.match")
REG.inline_ok.add("typhon.utils.timeutils:to_timedelta")
REG.inline_ok.add("typhon.utils.timeutils:to_datetime")
for _n in ("FileInfo.__init__", "FileInfo.path", "FileInfo.times"):
    REG.inline_ok.add("typhon.files.handlers.common:" + _n)
_dtk = _c02._fresh_dt


class ListedFileSet(_FileSet):
    """a FileSet whose find() returns a given list (the assumed result of the real find, C01)"""

    def find(self, start=None, end=None, **kwargs):
        self.find_calls.append((start, end))
        return iter(self.listed)


ListedFileSet.find.__pyvc_thm__ = True


class GhostTree:
    """IntervalTree by its contract (theorem thm/C03/query): query(q) returns for each query interval the indices of exactly
    the stored closed intervals that intersect it, each once.  The membership of every index is decided by forking."""
    __pyvc_symbolic__ = True

    def __init__(self, intervals):
        self.intervals = intervals

    def query(self, queries):
        ctx = _sym.ctx()
        n = self.intervals.shape[0]
        out = []
        for q in queries:
            hits = []
            for j in range(n):
                lo, hi = self.intervals[j, 0], self.intervals[j, 1]
                if ctx.branch(_sym.truth((lo <= q[1]) & (hi >= q[0]))):
                    hits.append(j)
            # the tree returns them in no particular order: match() sorts them, so a reversed list is as good a representative
            out.append(list(reversed(hits)))
        return out


@_model(IntervalTree)
def _ghost_tree(interp, intervals):
    if not interp.ctx.ghost.get("c03_ghost_tree"):
        return interp.models.construct(interp, IntervalTree, [intervals], {}, None, None)      # the real class (other theorems)
    interp.trusted_used.add("contract:IntervalTree(...).query == exactly the intersecting intervals (proved: thm/C03/query)")
    return GhostTree(intervals)


def _mk_files(prefix, times):
    return [_FileInfo("/%s/f%d.nc" % (prefix, i), [a, b], {}) for i, (a, b) in enumerate(times)]


def _us(x):
    """a (symbolic) timedelta in microseconds"""
    return _ts.td_us(x)


def _mk_td(us):
    """timedelta of `us` microseconds (symbolic in a proof, a real timedelta in a replay)"""
    return _ts.STimedelta(us) if isinstance(us, _Sym) else _timedelta(microseconds=int(us))


_mk_td.__pyvc_native__ = True


_us.__pyvc_native__ = True


def _usd(d):
    """a (symbolic) datetime as its microsecond count"""
    if isinstance(d, _datetime):
        return (d - _datetime(1, 1, 1)) // _timedelta(microseconds=1)
    return _Sym(d.us())


_usd.__pyvc_native__ = True


def _thm_match(k1, k2, with_interval):
    kinds = {}
    for i in range(k1):
        kinds["a%d" % i], kinds["b%d" % i] = _dtk("a%d" % i, 6), _dtk("b%d" % i, 6)
    for j in range(k2):
        kinds["c%d" % j], kinds["d%d" % j] = _dtk("c%d" % j, 6), _dtk("d%d" % j, 6)
    if with_interval:
        kinds["mi_us"] = "int"

    @theorem(P, "match[%d x %d,%s]" % (k1, k2, "max_interval" if with_interval else "no max_interval"), **kinds)
    def thm(**t):
        ctx = _sym.ctx()
        p_times = [(t["a%d" % i], t["b%d" % i]) for i in range(k1)]
        s_times = [(t["c%d" % j], t["d%d" % j]) for j in range(k2)]
        for lo, hi in p_times + s_times:
            requires(lo <= hi, lo.year >= 1971, hi.year >= 1971, hi.year <= 2200)
        if with_interval:
            requires(t["mi_us"] >= 0, t["mi_us"] <= 10 * 86400 * 10**6)
            mi = _mk_td(t["mi_us"])
        else:
            mi = None
        ctx.ghost["c03_ghost_tree"] = True
        one = ListedFileSet(path="/p/{year}{month}{day}{hour}{minute}{second}.nc", name="one")
        two = ListedFileSet(path="/s/{year}{month}{day}{hour}{minute}{second}.nc", name="two")
        one.listed, two.listed = _mk_files("p", p_times), _mk_files("s", s_times)
        one.find_calls, two.find_calls = [], []
        got = list(one.match(two, _datetime(1971, 1, 1), _datetime(2200, 1, 1), max_interval=mi))
        w = 0 if mi is None else _us(mi)
        pos = 0
        for i in range(k1):
            partners = [j for j in range(k2)
                        if (_usd(s_times[j][0]) - w <= _usd(p_times[i][1])) and (_usd(s_times[j][1]) + w >= _usd(p_times[i][0]))]
            if partners:
                ensures(len(got) > pos and got[pos][0] is one.listed[i], id="primary %d is yielded (it has a partner), in find() order" % i)
                ensures(got[pos][1] == [two.listed[j] for j in partners],
                        id="primary %d comes with exactly the files whose (widened) coverage intersects its own, in time order" % i)
                pos += 1
        ensures(len(got) == pos, id="primaries without partner are omitted, nothing else is yielded")
    return thm


import os as _os                                                          # noqa: E402
_SIZES = ((1, 1), (1, 2), (2, 1)) if _os.environ.get("VERIF_TIER_EFFECTIVE", "quick") == "quick" else ((1, 1), (1, 2), (2, 1), (2, 2))
for _k1, _k2 in _SIZES:
    _thm_match(_k1, _k2, False)
    _thm_match(_k1, _k2, True)
