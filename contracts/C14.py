"""C14 -- column integrals and hydrostatic conversions (typhon/math/common.py, typhon/physics/atmosphere.py)."""
import numpy as _np
from pyvc.dsl import *
from pyvc.contracts import fresh_array as _fa
from typhon.math import common as MC
from typhon.physics import atmosphere as A
from typhon import constants
import contracts.C09 as _c09          # converter / saturation-pressure contracts are reused (they belong to C09)

P = "C14"
MM = "typhon.math.common:"
MA = "typhon.physics.atmosphere:"
NOT_DECIDED = [
    "convergence of the hydrostatic and the general IWV form to the same value (a limit statement about refinement)",
    "z = (R T / g) ln(p0 / p) for an isothermal column (the layer-mean density scheme is a second-order approximation of it)",
    "scipy.interpolate.interp1d (standard_atmosphere): only the tabulated levels are checked, exhaustively, in the bounded tier",
    "arrays of rank > 1 and axis != 0 (np.trapezoid's axis handling is the library's)",
]
ASSUMPTIONS = [
    "np.trapezoid(y, x) == sum_k (x[k+1]-x[k]) (y[k]+y[k+1])/2, np.cumsum(a)[k] == SUM(a, k+1), np.diff(a)[k] == a[k+1]-a[k] (trusted NumPy models)",
    "induction principle for the sum lemmas (their base/step obligations are discharged in this run)",
]


def trap(y, x, n):
    """integral of the piecewise-linear interpolant of (x, y): the trapezoid sum"""
    if x is None:
        return ssum(n - 1, lambda k: (y[k] + y[k + 1]) / 2)
    return ssum(n - 1, lambda k: (x[k + 1] - x[k]) * (y[k] + y[k + 1]) / 2)


trap.__pyvc_thm__ = True


def _setup_ic(ctx, cfg):
    n = ctx.fresh("n", "int")
    ctx.assume(n >= 2)
    if cfg.get("ndim", 1) == 1:
        d = dict(y=_fa(ctx, "y", (n,)))
        d["x"] = _fa(ctx, "x", (n,)) if cfg["x"] else None
        return d
    m = ctx.fresh("m", "int")
    ctx.assume(m >= 1)
    axis = cfg["axis"]
    d = dict(y=_fa(ctx, "y", (n, m) if axis == 0 else (m, n)), axis=axis)
    d["x"] = _fa(ctx, "x", (n,)) if cfg["x"] else None
    return d


def trap_nd(result, y, x, axis):
    """1-d: the trapezoid sum; 2-d: the trapezoid sum along `axis` for every index j of the other axis"""
    if y.ndim == 1:
        return result == trap(y, x, len(y))
    n = y.shape[axis]
    m = y.shape[1 - axis]
    return forall(0, m, lambda j: result[j] == trap(array_of(n, lambda k: y[k, j] if axis == 0 else y[j, k]), x, n))


trap_nd.__pyvc_thm__ = True
c_ic = contract(MM + "integrate_column", prop=P, setup=_setup_ic, pure=False,
                configs=[{"x": True}, {"x": False}, {"ndim": 2, "axis": 0, "x": True}, {"ndim": 2, "axis": 1, "x": True},
                         {"ndim": 2, "axis": 0, "x": False}, {"ndim": 2, "axis": 1, "x": False}],
                result=lambda ctx, env: ctx.fresh("col_int", "real") if env["y"].ndim == 1 else _fa(ctx, "col_int", (env["y"].shape[1 - env["axis"]],)),
                env={"trap": trap, "trap_nd": trap_nd},
                ensures=["trap_nd(result, y, x, axis)"],
                canaries=["trap_nd(result, y * 0, x, axis)"])


def _ic_sampler(rng):
    n = rng.randint(2, 6)
    x = _np.cumsum([rng.uniform(0.1, 2) for _ in range(n)]) if rng.random() < 0.7 else None
    if rng.random() < 0.5:
        return dict(y=_np.array([rng.uniform(-3, 3) for _ in range(n)]), x=x)
    m = rng.randint(1, 4)
    axis = rng.randint(0, 1)
    y = _np.array([[rng.uniform(-3, 3) for _ in range(m)] for _ in range(n)])
    return dict(y=y if axis == 0 else y.T.copy(), x=x, axis=axis)


c_ic.sampler = _ic_sampler


# ------------------------------------------------------------------ the defining-integral clauses (lemmas about the trapezoid sum)
@theorem(P, "integral-linear")
def thm_linear(n: "int", a: "real", b: "real"):
    requires(n >= 2)
    x = fresh_array("x", n)
    y1 = fresh_array("y1", n)
    y2 = fresh_array("y2", n)
    I1 = MC.integrate_column(y1, x)
    I2 = MC.integrate_column(y2, x)
    I = MC.integrate_column(a * y1 + b * y2, x)
    t1 = array_of(n - 1, lambda k: (x[k + 1] - x[k]) * (y1[k] + y1[k + 1]) / 2)
    t2 = array_of(n - 1, lambda k: (x[k + 1] - x[k]) * (y2[k] + y2[k + 1]) / 2)
    s1 = array_of(n - 1, lambda k: a * ((x[k + 1] - x[k]) * (y1[k] + y1[k + 1]) / 2))
    s2 = array_of(n - 1, lambda k: b * ((x[k + 1] - x[k]) * (y2[k] + y2[k + 1]) / 2))
    t = array_of(n - 1, lambda k: (x[k + 1] - x[k]) * ((a * y1[k] + b * y2[k]) + (a * y1[k + 1] + b * y2[k + 1])) / 2)
    pointwise(n - 1, lambda k: t[k] == s1[k] + s2[k], id="term of the combination = combination of the terms")
    use_lemma("sum_scale", t1, s1, a, n - 1)
    use_lemma("sum_scale", t2, s2, b, n - 1)
    use_lemma("sum_add", s1, s2, t, n - 1)
    S1 = ssum(n - 1, lambda k: a * ((x[k + 1] - x[k]) * (y1[k] + y1[k + 1]) / 2))
    S2 = ssum(n - 1, lambda k: b * ((x[k + 1] - x[k]) * (y2[k] + y2[k + 1]) / 2))
    ST = ssum(n - 1, lambda k: (x[k + 1] - x[k]) * ((a * y1[k] + b * y2[k]) + (a * y1[k + 1] + b * y2[k + 1])) / 2)
    ensures(S1 == a * I1, id="step: scaled terms sum to a I(y1)")
    ensures(S2 == b * I2, id="step: scaled terms sum to b I(y2)")
    ensures(ST == S1 + S2, id="step: sum of the combined terms")
    ensures(I == ST, id="step: the code integrates the combined terms")
    ensures(I == a * I1 + b * I2, id="integrate_column(a y1 + b y2, x) == a I(y1) + b I(y2)")


@theorem(P, "integral-additive")
def thm_additive(n: "int", m: "int"):
    # splitting the range at grid point m: I(y[0..m], x[0..m]) + I(y[m..], x[m..]) == I(y, x)
    requires(n >= 3, 1 <= m, m <= n - 2)
    x = fresh_array("x", n)
    y = fresh_array("y", n)
    whole = MC.integrate_column(y, x)
    left = MC.integrate_column(y[:m + 1], x[:m + 1])
    right = MC.integrate_column(y[m:], x[m:])
    t = array_of(n - 1, lambda k: (x[k + 1] - x[k]) * (y[k] + y[k + 1]) / 2)
    tl = array_of(m, lambda k: (x[k + 1] - x[k]) * (y[k] + y[k + 1]) / 2)
    tr = array_of(n - 1 - m, lambda k: (x[m + k + 1] - x[m + k]) * (y[m + k] + y[m + k + 1]) / 2)
    use_lemma("sum_ext", tl, t, m)                   # the first m terms are the same terms
    use_lemma("sum_shift", t, tr, m, n - 1 - m)      # the last n-1-m terms are the shifted terms
    ensures(left + right == whole, id="additive when the range is split at a grid point")


@theorem(P, "integral-reversal")
def thm_reversal(n: "int"):
    requires(n >= 2)
    x = fresh_array("x", n)
    y = fresh_array("y", n)
    fwd = MC.integrate_column(y, x)
    bwd = MC.integrate_column(y[::-1], x[::-1])
    t = array_of(n - 1, lambda k: (x[k + 1] - x[k]) * (y[k] + y[k + 1]) / 2)
    neg = array_of(n - 1, lambda k: -1 * ((x[k + 1] - x[k]) * (y[k] + y[k + 1]) / 2))
    r = array_of(n - 1, lambda k: (x[n - 1 - (k + 1)] - x[n - 1 - k]) * (y[n - 1 - k] + y[n - 1 - (k + 1)]) / 2)
    pointwise(n - 1, lambda k: r[k] == neg[(n - 1) - 1 - k], id="reversed term k is minus forward term n-2-k")
    use_lemma("sum_reverse", neg, r, n - 1)
    use_lemma("sum_scale", t, neg, -1, n - 1)
    ensures(bwd == -fwd, id="changes sign when the coordinate is reversed")


@theorem(P, "integral-unit-spacing")
def thm_unit(n: "int"):
    requires(n >= 2)
    y = fresh_array("y", n)
    d = MC.integrate_column(y)
    e = MC.integrate_column(y, array_of(n, lambda k: k))
    pointwise(n - 1, lambda k: ((k + 1) - k) * (y[k] + y[k + 1]) / 2 == (y[k] + y[k + 1]) / 2, id="unit spacing")
    ensures(d == e, id="x=None means unit spacing")


# ------------------------------------------------------------------ integrate_water_vapor
def _setup_iwv(ctx, cfg):
    n = ctx.fresh("n", "int")
    ctx.assume(n >= 2)
    d = dict(vmr=_fa(ctx, "vmr", (n,)), p=_fa(ctx, "p", (n,)))
    if cfg["T"]:
        d["T"] = _fa(ctx, "T", (n,))
    if cfg["z"]:
        d["z"] = _fa(ctx, "z", (n,))
    return d


VMR_OK = "forall(0, len(vmr), lambda i: 0 <= vmr[i] and vmr[i] < 1)"
ENV14 = {"trap": trap}
c_iwv_h = contract(MA + "integrate_water_vapor", prop=P, setup=_setup_iwv, pure=False, result="real", env=ENV14,
                   configs=[{"T": False, "z": False}, {"T": True, "z": True}, {"T": True, "z": False}, {"T": False, "z": True}],
                   requires=[VMR_OK, "T is None or forall(0, len(vmr), lambda i: T[i] > 0)"],
                   raises=[("(T is None) != (z is None)", ValueError)],
                   ensures=["implies_(T is None and z is None, lambda: result == "
                            "-trap(array_of(len(vmr), lambda i: vmr2specific_humidity(vmr[i])), p, len(vmr)) / constants.earth_standard_gravity)",
                            "implies_(T is not None and z is not None, lambda: result == "
                            "trap(array_of(len(vmr), lambda i: vmr[i] * (p[i] / (constants.gas_constant_water_vapor * T[i]))), z, len(vmr)))"])


def implies_(cond, thunk):
    return thunk() if cond else True


ENV14["implies_"] = implies_


def _iwv_sampler(rng):
    n = rng.randint(2, 6)
    p = _np.sort(_np.array([rng.uniform(100, 1000e2) for _ in range(n)]))[::-1].copy()
    d = dict(vmr=_np.array([rng.uniform(0, 0.04) for _ in range(n)]), p=p)
    if rng.random() < 0.5:
        d["T"] = _np.array([rng.uniform(200, 300) for _ in range(n)])
        d["z"] = _np.cumsum([rng.uniform(100, 2000) for _ in range(n)])
    return d


c_iwv_h.sampler = _iwv_sampler


@theorem(P, "iwv-nonnegative")
def thm_iwv(n: "int"):
    requires(n >= 2)
    vmr = fresh_array("vmr", n)
    p = fresh_array("p", n)
    requires(forall(0, n, lambda i: 0 <= vmr[i] and vmr[i] < 1))
    requires(forall(0, n - 1, lambda i: p[i + 1] < p[i]))          # pressure decreases along the profile
    iwv = A.integrate_water_vapor(vmr, p)
    g = constants.earth_standard_gravity
    terms = array_of(n - 1, lambda k: (p[k + 1] - p[k]) * (A.vmr2specific_humidity(vmr[k]) + A.vmr2specific_humidity(vmr[k + 1])) / 2)
    neg = array_of(n - 1, lambda k: -1 * ((p[k + 1] - p[k]) * (A.vmr2specific_humidity(vmr[k]) + A.vmr2specific_humidity(vmr[k + 1])) / 2))
    pointwise(n - 1, lambda k: neg[k] >= 0, id="every layer contributes a non-negative amount")
    use_lemma("sum_scale", terms, neg, -1, n - 1)
    use_lemma("sum_nonneg", neg, n - 1)
    ensures(iwv >= 0, id="IWV >= 0 for non-negative vmr and decreasing pressure")


# ------------------------------------------------------------------ pressure2height
def _setup_p2h(ctx, cfg):
    n = ctx.fresh("n", "int")
    ctx.assume(n >= 2)
    return dict(p=_fa(ctx, "p", (n,)), T=_fa(ctx, "T", (n,)))


c_p2h = contract(MA + "pressure2height", prop=P, setup=_setup_p2h, pure=False,
                 result=lambda ctx, env: _fa(ctx, "z", env["p"].shape),
                 requires=["forall(0, len(p), lambda i: p[i] > 0 and T[i] > 0)"],
                 ensures=["len(result) == len(p)", "result[0] == 0",
                          # each layer adds -dp / (rho_layer g), rho = p / (R_d T): the discrete hydrostatic equation
                          "forall(0, len(p) - 1, lambda k: result[k + 1] - result[k] == -(p[k + 1] - p[k]) / "
                          "(0.5 * (density(p[k], T[k]) + density(p[k + 1], T[k + 1])) * constants.g))"],
                 canaries=["result[1] == 0"])


def _p2h_sampler(rng):
    n = rng.randint(2, 6)
    r = rng.random()
    if r < 0.35:
        # pressures stored as whole Pascals (integer dtype), coarse and fine (layers thinner than a metre) grids
        step = rng.choice([5, 40, 2500, 15000])
        p = (101325 - step * _np.arange(n)).astype(rng.choice(["int64", "int32"]))
        T = _np.array([rng.uniform(200, 300) for _ in range(n)]) if rng.random() < 0.5 else _np.array([rng.randint(200, 300) for _ in range(n)])
        return dict(p=p, T=T)
    return dict(p=_np.sort(_np.array([rng.uniform(100, 1000e2) for _ in range(n)]))[::-1].copy(),
                T=_np.array([rng.uniform(200, 300) for _ in range(n)]))


c_p2h.sampler = _p2h_sampler


@theorem(P, "height-monotone")
def thm_height(n: "int"):
    requires(n >= 2)
    p = fresh_array("p", n)
    T = fresh_array("T", n)
    requires(forall(0, n, lambda i: p[i] > 0 and T[i] > 0))
    requires(forall(0, n - 1, lambda i: p[i + 1] < p[i]))
    z = A.pressure2height(p, T)
    k = fresh("k", "int")
    requires(0 <= k, k < n - 1)
    ensures(z[0] == 0, id="starts at 0")
    ensures(z[k + 1] > z[k], id="strictly increasing with decreasing pressure")

c_dens = contract(MA + "density", prop=P, params=dict(p="real", T="real", R="real"), elementwise=True,
                  requires=["T != 0", "R != 0"], ensures=["result == p / (R * T)"])
c_dens.domain = {"p": (1.0, 1e5), "T": (150.0, 350.0), "R": (100.0, 500.0)}


# ------------------------------------------------------------------ column_relative_humidity (1-d profile)
c_wvp = contract(MA + "water_vapor_pressure2specific_humidity", prop=P, params=dict(e="real", p="real"), elementwise=True,
                 requires=["0 <= e", "e < p"],
                 ensures=["result == 0.622 * e / (p - 0.378 * e)", "0 <= result", "result < 1"])
c_wvp.domain = {"e": (0.0, 5000.0), "p": (6000.0, 1.1e5)}


def _setup_crh(ctx, cfg):
    n = ctx.fresh("n", "int")
    ctx.assume(n >= 2)
    return dict(q=_fa(ctx, "q", (n,)), p=_fa(ctx, "p", (n,)), t=_fa(ctx, "t", (n,)))


def qsat(t, p, i):
    return A.water_vapor_pressure2specific_humidity(A.e_eq_mixed_mk(t[i]), p[i])


def roundtrip(q, i):
    # what the code integrates: q -> vmr (column_relative_humidity) -> q (integrate_water_vapor)
    return A.vmr2specific_humidity(A.specific_humidity2vmr(q[i]))


qsat.__pyvc_thm__ = True
roundtrip.__pyvc_thm__ = True
ENV14.update(qsat=qsat, roundtrip=roundtrip)
CRH_REQ = ["forall(0, len(q), lambda i: 0 <= q[i] and q[i] < 1 and t[i] > 0 and e_eq_mixed_mk(t[i]) < p[i])",
           # the saturated column integral is not zero (true for strictly decreasing pressure, see thm crh)
           "trap(array_of(len(q), lambda i: roundtrip(array_of(len(q), lambda j: qsat(t, p, j)), i)), p, len(q)) != 0"]
c_crh = contract(
    MA + "column_relative_humidity", prop=P, setup=_setup_crh, pure=False, result="real", env=ENV14,
    requires=CRH_REQ,
    loops={0: dict(modifies=["i", "qs"],
                   invariant=["forall(0, _k, lambda j: qs[j] == qsat(t, p, j))"],
                   define_after={"qs": "lambda j: qsat(t, p, j)"})},
    ensures=[
        "result == (-trap(array_of(len(q), lambda i: roundtrip(q, i)), p, len(q)) / constants.earth_standard_gravity) / "
        "(-trap(array_of(len(q), lambda i: roundtrip(array_of(len(q), lambda j: qsat(t, p, j)), i)), p, len(q)) / constants.earth_standard_gravity)"])


def _crh_sampler(rng):
    n = rng.randint(2, 5)
    return dict(q=_np.array([rng.uniform(0.0001, 0.01) for _ in range(n)]),
                p=_np.sort(_np.array([rng.uniform(300e2, 1000e2) for _ in range(n)]))[::-1].copy(),
                # whole-Kelvin soundings typed in as integers are admissible profiles, too (integer dtype)
                t=_np.array([rng.uniform(230, 300) for _ in range(n)]) if rng.random() < 0.6
                else _np.array([rng.randint(230, 300) for _ in range(n)], dtype=rng.choice([_np.int64, _np.int32])))


c_crh.sampler = _crh_sampler


from pyvc.sumtheory import algebraic_lemma as _alg
import z3 as _z3
_alg("ratio_scale", 5, lambda s1, s2, den, a, g: _z3.Implies(_z3.And(den != 0, g != 0, s2 == a * s1),
                                                              (-s2 / g) / (-den / g) == a * ((-s1 / g) / (-den / g))))


@theorem(P, "crh")
def thm_crh(n: "int", a: "real"):
    requires(n >= 2, a > 0)
    p = fresh_array("p", n)
    t = fresh_array("t", n)
    q = fresh_array("q", n)
    requires(forall(0, n, lambda i: t[i] > 0 and A.e_eq_mixed_mk(t[i]) < p[i]))
    requires(forall(0, n, lambda i: 0 <= q[i] and q[i] < 1 and 0 <= a * q[i] and a * q[i] < 1))
    qs = array_of(n, lambda j: qsat(t, p, j))
    den = trap(array_of(n, lambda i: roundtrip(qs, i)), p, n)
    requires(den != 0)
    # the q -> vmr -> q round trip inside the code is the identity (inverse pair of C09), level by level
    pointwise(n, lambda i: roundtrip(qs, i) == qs[i], id="round trip of the saturated profile")
    pointwise(n, lambda i: roundtrip(q, i) == q[i], id="round trip of q")
    pointwise(n, lambda i: roundtrip(array_of(n, lambda j: a * q[j]), i) == a * q[i], id="round trip of a q")
    # saturated profile: CRH == 1
    one = A.column_relative_humidity(qs, p, t)
    ensures(one == 1, id="CRH == 1 for a profile saturated w.r.t. the mixed phase")
    # linear in q
    c1 = A.column_relative_humidity(q, p, t)
    c2 = A.column_relative_humidity(array_of(n, lambda j: a * q[j]), p, t)
    aq = array_of(n, lambda j: a * q[j])
    T1 = array_of(n - 1, lambda k: (p[k + 1] - p[k]) * (roundtrip(q, k) + roundtrip(q, k + 1)) / 2)
    T2 = array_of(n - 1, lambda k: (p[k + 1] - p[k]) * (roundtrip(aq, k) + roundtrip(aq, k + 1)) / 2)
    U1 = array_of(n - 1, lambda k: (p[k + 1] - p[k]) * (q[k] + q[k + 1]) / 2)
    U2 = array_of(n - 1, lambda k: (p[k + 1] - p[k]) * (a * q[k] + a * q[k + 1]) / 2)
    pointwise(n - 1, lambda k: T1[k] == U1[k], id="layer terms of q without the round trip")
    pointwise(n - 1, lambda k: T2[k] == U2[k], id="layer terms of a q without the round trip")
    pointwise(n - 1, lambda k: U2[k] == a * U1[k], id="each layer scales with a")
    use_lemma("sum_ext", T1, U1, n - 1)
    use_lemma("sum_ext", T2, U2, n - 1)
    use_lemma("sum_scale", U1, U2, a, n - 1)
    ensures(ssum(n - 1, lambda k: (p[k + 1] - p[k]) * (roundtrip(aq, k) + roundtrip(aq, k + 1)) / 2)
            == a * ssum(n - 1, lambda k: (p[k + 1] - p[k]) * (roundtrip(q, k) + roundtrip(q, k + 1)) / 2),
            id="step: the column integral scales with a")
    S1 = ssum(n - 1, lambda k: (p[k + 1] - p[k]) * (roundtrip(q, k) + roundtrip(q, k + 1)) / 2)
    S2 = ssum(n - 1, lambda k: (p[k + 1] - p[k]) * (roundtrip(aq, k) + roundtrip(aq, k + 1)) / 2)
    use_lemma("ratio_scale", S1, S2, den, a, constants.earth_standard_gravity)
    ensures(c2 == a * c1, id="CRH scales linearly with q")


@bounded(P, "standard-atmosphere-nodes", "the 8 tabulated levels of the standard atmosphere (exhaustive): height and pressure addressing agree")
def bounded_isa(rng, tier):
    h = [-610, 11000, 20000, 32000, 47000, 51000, 71000, 84852]
    p = [108_900, 22_632, 5474.9, 868.02, 110.91, 66.939, 3.9564, 0.3734]
    failures, samples = [], []
    for hk, pk in zip(h, p):
        a = float(A.standard_atmosphere(hk))
        b = float(A.standard_atmosphere(pk, coordinates="pressure"))
        if abs(a - b) > 1e-9:
            failures.append({"h": hk, "p": pk, "T(h)": a, "T(p)": b})
        samples.append({"h": hk, "p": pk, "T": a})
    return {"evaluations": 8, "distinct_nontrivial": 8, "failures": failures, "samples": samples[:3], "exhaustive": True}


@bounded(P, "standard-atmosphere-beyond-the-table", "standard_atmosphere in height (-2 .. 120 km) and pressure (1300 hPa .. 1e-3 Pa) addressing against "
         "an independent piecewise-linear evaluation of the table with its outermost layers continued linearly (the documented behaviour "
         "outside 0-85 km); pressure2height(p) without a temperature on log-spaced grids reaching beyond both ends of the table: starts at "
         "0, strictly increasing, equal to the layer-wise hydrostatic sum over that temperature; 40 (quick) / 400 (thorough) grids")
def bounded_isa_beyond(rng, tier):
    import math
    h = [-610.0, 11000.0, 20000.0, 32000.0, 47000.0, 51000.0, 71000.0, 84852.0]
    pt = [108900.0, 22632.0, 5474.9, 868.02, 110.91, 66.939, 3.9564, 0.3734]
    tk = [19.0 + 273.15, -56.5 + 273.15, -56.5 + 273.15, -44.5 + 273.15, -2.5 + 273.15, -2.5 + 273.15, -58.5 + 273.15, -86.28 + 273.15]

    def lin(xs, ys, x):
        """piecewise linear through (xs, ys), xs increasing; the first / last segment continued beyond the ends"""
        k = 0
        while k < len(xs) - 2 and x > xs[k + 1]:
            k += 1
        return ys[k] + (ys[k + 1] - ys[k]) * (x - xs[k]) / (xs[k + 1] - xs[k])
    lp = [math.log(v) for v in pt]
    T_of_h = lambda z: lin(h, tk, z)
    T_of_p = lambda p_: lin(lp[::-1], tk[::-1], math.log(p_))
    evals, failures, samples, distinct = 0, [], [], set()
    for r in range(40 if tier == "quick" else 400):
        z = rng.choice([-2000.0, -610.0, 0.0, 84852.0, 90000.0, 120000.0, rng.uniform(-2000, 120000)])
        p_ = rng.choice([130000.0, 108900.0, 0.3734, 0.1, 0.005, 0.001, math.exp(rng.uniform(math.log(1e-3), math.log(1.3e5)))])
        evals += 2
        a, b = float(A.standard_atmosphere(z)), float(A.standard_atmosphere(p_, coordinates="pressure"))
        if abs(a - T_of_h(z)) > 1e-7:
            failures.append({"height": z, "T": a, "expected": T_of_h(z)})
        if abs(b - T_of_p(p_)) > 1e-7:
            failures.append({"pressure": p_, "T": b, "expected": T_of_p(p_)})
        # pressure2height without a temperature, grids beyond both ends of the table
        n = rng.choice([5, 30, 200])
        p_hi, p_lo = rng.choice([101325.0, 108900.0, 125000.0]), rng.choice([10.0, 0.3734, 0.05, 0.001])
        grid = _np.exp(_np.linspace(math.log(p_hi), math.log(p_lo), n))
        evals += 1
        distinct.add((n, p_hi, p_lo))
        zz = A.pressure2height(grid)
        Tg = [T_of_p(float(v)) for v in grid]
        want = [0.0]
        for k in range(n - 1):
            rho = 0.5 * (grid[k] / (constants.gas_constant_dry_air * Tg[k]) + grid[k + 1] / (constants.gas_constant_dry_air * Tg[k + 1]))
            want.append(want[-1] - (grid[k + 1] - grid[k]) / (rho * constants.g))
        if zz.shape != (n,) or zz[0] != 0 or _np.any(_np.diff(zz) <= 0) or not _np.allclose(zz, want, rtol=1e-9, atol=1e-6):
            failures.append({"grid": [p_hi, p_lo, n], "problem": "pressure2height(p) without T: z[0] = %r, min step %r, top %r (expected %r)"
                             % (float(zz[0]), float(_np.diff(zz).min()), float(zz[-1]), want[-1])})
        elif len(samples) < 3:
            samples.append({"grid": [p_hi, p_lo, n], "top_m": float(zz[-1])})
    return {"evaluations": evals, "distinct_nontrivial": len(distinct), "failures": failures[:5], "samples": samples}


@bounded(P, "integrate-column-nd", "arrays of rank 1..4 with sides 2..5, EVERY axis (positive and negative), x = None / 1-d / n-d, "
         "compared element by element with a per-column trapezoid sum (rank > 2 is outside the proved tier)")
def bounded_nd(rng, tier):
    import itertools
    evals, failures, samples, distinct = 0, [], [], set()
    shapes = [(4,), (3, 5), (5, 3), (4, 3, 5), (3, 4, 4), (2, 3, 4, 5)] + ([(5, 4, 3), (3, 3, 3, 3)] if tier == "thorough" else [])
    for shape in shapes:
        y = _np.array([rng.uniform(-2, 2) for _ in range(int(_np.prod(shape)))]).reshape(shape)
        for axis in list(range(len(shape))) + [-k for k in range(1, len(shape) + 1)]:
            n = shape[axis]
            x1 = _np.cumsum([rng.uniform(0.2, 1.5) for _ in range(n)])
            for x in (None, x1):
                evals += 1
                distinct.add((shape, axis, x is None))
                got = MC.integrate_column(y, x, axis=axis)
                ym = _np.moveaxis(y, axis, -1)
                xs = _np.arange(n) if x is None else x
                want = _np.zeros(ym.shape[:-1])
                for idx in itertools.product(*[range(s) for s in ym.shape[:-1]]):
                    col = ym[idx]
                    want[idx] = sum((xs[k + 1] - xs[k]) * (col[k] + col[k + 1]) / 2 for k in range(n - 1))
                if _np.shape(got) != want.shape or not _np.allclose(got, want, rtol=1e-10, atol=1e-12):
                    failures.append({"shape": shape, "axis": axis, "x": None if x is None else x.tolist(),
                                     "got_shape": list(_np.shape(got)), "want_shape": list(want.shape)})
                elif len(samples) < 3:
                    samples.append({"shape": shape, "axis": axis, "x_given": x is not None})
    return {"evaluations": evals, "distinct_nontrivial": len(distinct), "failures": failures[:5], "samples": samples}
