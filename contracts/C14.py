"""C14 -- column integrals and hydrostatic conversions (typhon/math/common.py, typhon/physics/atmosphere.py)."""
import numpy as _np
from pyvc.dsl import *
from pyvc.contracts import fresh_array as _fa
from typhon.math import common as MC
from typhon.physics import atmosphere as A
from typhon import constants
import contracts.C09 as _c09          # converter / saturation-pressure contracts are reused (they belong to C09)

P = "C14"
MM = "typhon.math.common:"
MA = "typhon.physics.atmosphere:"
NOT_DECIDED = [
    "convergence of the hydrostatic and the general IWV form to the same value (a limit statement about refinement)",
    "z = (R T / g) ln(p0 / p) for an isothermal column (the layer-mean density scheme is a second-order approximation of it)",
    "scipy.interpolate.interp1d (standard_atmosphere): only the tabulated levels are checked, exhaustively, in the bounded tier",
    "arrays of rank > 1 and axis != 0 (np.trapezoid's axis handling is the library's)",
]
ASSUMPTIONS = [
    "np.trapezoid(y, x) == sum_k (x[k+1]-x[k]) (y[k]+y[k+1])/2, np.cumsum(a)[k] == SUM(a, k+1), np.diff(a)[k] == a[k+1]-a[k] (trusted NumPy models)",
    "induction principle for the sum lemmas (their base/step obligations are discharged in this run)",
]


def trap(y, x, n):
    """integral of the piecewise-linear interpolant of (x, y): the trapezoid sum"""
    if x is None:
        return ssum(n - 1, lambda k: (y[k] + y[k + 1]) / 2)
    return ssum(n - 1, lambda k: (x[k + 1] - x[k]) * (y[k] + y[k + 1]) / 2)


trap.__pyvc_thm__ = True


def _setup_ic(ctx, cfg):
    n = ctx.fresh("n", "int")
    ctx.assume(n >= 2)
    d = dict(y=_fa(ctx, "y", (n,)))
    d["x"] = _fa(ctx, "x", (n,)) if cfg["x"] else None
    return d


c_ic = contract(MM + "integrate_column", prop=P, setup=_setup_ic, configs=[{"x": True}, {"x": False}], pure=False, result="real",
                env={"trap": trap},
                ensures=["result == trap(y, x, len(y))"],
                canaries=["result == 0"])


def _ic_sampler(rng):
    n = rng.randint(2, 6)
    y = _np.array([rng.uniform(-3, 3) for _ in range(n)])
    x = _np.cumsum([rng.uniform(0.1, 2) for _ in range(n)]) if rng.random() < 0.7 else None
    return dict(y=y, x=x)


c_ic.sampler = _ic_sampler
