"""C13 -- compact collocation data under expand / collapse / concat (typhon/collocations/common.py, collocator.py)."""
import numpy as _np
from pyvc.dsl import *
from pyvc.contracts import fresh_array as _fa
from typhon.collocations import common as CC

P = "C13"
M = "typhon.collocations.common:"
NOT_DECIDED = ["xarray isel/concat/merge and np.nanmean/nanstd semantics (assumed contracts)",
               "the numba-compiled row assignment (numba is absent from this environment; the pure-python function is the one that runs)"]
ASSUMPTIONS = []


# ------------------------------------------------------------------ _rows_for_secondaries
def _setup_rows(ctx, cfg):
    n = ctx.fresh("n", "int")
    ctx.assume(n >= 0)
    return dict(primary=_fa(ctx, "primary", (n,), "int"))


c_rows = contract(
    M + "_rows_for_secondaries", prop=P, setup=_setup_rows, pure=False,
    requires=["forall(0, len(primary), lambda k: 0 <= primary[k] and primary[k] < len(primary))"],
    result=lambda ctx, env: _fa(ctx, "rows", env["primary"].shape, "int"),
    loops={0: dict(
        modifies=["i", "rows", "current_row", "p"],
        invariant=["i == _k",
                   "forall(0, len(primary), lambda v: current_row[v] == cnt(primary, _k, v))",
                   "forall(0, _k, lambda j: rows[j] == cnt(primary, j, primary[j]))"],
        unfold=["count_def(primary, _k)"])},
    lemmas=[("count_mono", "primary"), ("count_bound", "primary"), ("count_nondec", "primary")],
    ensures=[
        # the row of pair k is the number of earlier pairs with the same reference point ...
        "forall(0, len(primary), lambda k: result[k] == cnt(primary, k, primary[k]))",
        # ... hence the slots (row, column) of the bin matrix are pairwise distinct (no value overwritten) ...
        "forall(0, len(primary), lambda a: forall(0, len(primary), lambda b: "
        "implies(a != b and primary[a] == primary[b], result[a] != result[b])))",
        # ... and every row is below the multiplicity of its reference point (fits the matrix height)
        "forall(0, len(primary), lambda k: 0 <= result[k] and result[k] < cnt(primary, len(primary), primary[k]))",
    ],
    canaries=["forall(0, len(primary), lambda k: result[k] == 0)"])


def _rows_sampler(rng):
    n = rng.randint(0, 7)
    return dict(primary=_np.array([rng.randint(0, max(0, n - 1)) for _ in range(n)], dtype=int))


c_rows.sampler = _rows_sampler
