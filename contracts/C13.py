"""C13 -- compact collocation data under expand / collapse / concat (typhon/collocations/common.py, collocator.py)."""
import numpy as _np
from pyvc.dsl import *
from pyvc.contracts import fresh_array as _fa
from typhon.collocations import common as CC

P = "C13"
M = "typhon.collocations.common:"
NOT_DECIDED = ["xarray isel/concat/merge and np.nanmean/nanstd semantics (assumed contracts)",
               "the numba-compiled row assignment (numba is absent from this environment; the pure-python function is the one that runs)"]
ASSUMPTIONS = []


# ------------------------------------------------------------------ _rows_for_secondaries
def _setup_rows(ctx, cfg):
    n = ctx.fresh("n", "int")
    ctx.assume(n >= 0)
    return dict(primary=_fa(ctx, "primary", (n,), "int"))


c_rows = contract(
    M + "_rows_for_secondaries", prop=P, setup=_setup_rows, pure=False,
    requires=["forall(0, len(primary), lambda k: 0 <= primary[k] and primary[k] < len(primary))"],
    result=lambda ctx, env: _fa(ctx, "rows", env["primary"].shape, "int"),
    loops={0: dict(
        modifies=["i", "rows", "current_row", "p"],
        invariant=["i == _k",
                   "forall(0, len(primary), lambda v: current_row[v] == cnt(primary, _k, v))",
                   "forall(0, _k, lambda j: rows[j] == cnt(primary, j, primary[j]))"],
        unfold=["count_def(primary, _k)"])},
    lemmas=[("count_mono", "primary"), ("count_bound", "primary"), ("count_nondec", "primary")],
    ensures=[
        # the row of pair k is the number of earlier pairs with the same reference point ...
        "forall(0, len(primary), lambda k: result[k] == cnt(primary, k, primary[k]))",
        # ... hence the slots (row, column) of the bin matrix are pairwise distinct (no value overwritten) ...
        "forall(0, len(primary), lambda a: forall(0, len(primary), lambda b: "
        "implies(a != b and primary[a] == primary[b], result[a] != result[b])))",
        # ... and every row is below the multiplicity of its reference point (fits the matrix height)
        "forall(0, len(primary), lambda k: 0 <= result[k] and result[k] < cnt(primary, len(primary), primary[k]))",
    ],
    canaries=["forall(0, len(primary), lambda k: result[k] == 0)"])


def _rows_sampler(rng):
    n = rng.randint(0, 7)
    return dict(primary=_np.array([rng.randint(0, max(0, n - 1)) for _ in range(n)], dtype=int))


c_rows.sampler = _rows_sampler


# ------------------------------------------------------------------ expand() on a ghost dataset (assumed xarray contract)
from pyvc import sym as _sym                  # noqa: E402
from pyvc.sym import SArr as _SArr, Sym as _Sym, lift as _lift      # noqa: E402
from pyvc import models as _models            # noqa: E402
import z3 as _z3                               # noqa: E402


class GVar:
    """a variable: dimension names and values (a symbolic vector / matrix or a concrete array)"""
    __pyvc_symbolic__ = True
    __pyvc_native__ = True

    def __init__(self, dims, values):
        self.dims, self.values = tuple(dims), values

    @property
    def shape(self):
        return self.values.shape

    def item(self, *index):
        return self.values.item(*index)

    def __getitem__(self, key):
        return self.values[key]             # (a view: stores through it reach the variable, as with a DataArray)

    def __setitem__(self, key, val):
        self.values[key] = val

    def min(self):
        return self.values.min()

    def max(self):
        return self.values.max()

    def copy(self, deep=True):
        return GVar(self.dims, self.values.copy() if deep else self.values)


class GDataset:
    """ASSUMED xarray.Dataset contract, restricted to what expand() uses:
      isel(**{dim: idx})   every variable along `dim` becomes v[idx] (idx within the dimension), the others are unchanged;
      ds[name] = dim, vals a new variable along `dim`, whose length must be the size of `dim` (else ValueError);
      swap_dims({a: b})    b must be a variable along a alone; every variable along a is along b afterwards;
      drop_vars(name), rename({old: new}) (variables and dimensions; `old` must exist), variables, sizes / dims, ds[name];
      ds[[names]] is a dataset of those variables SHARING their data; copy(deep=True) has private data.
    Every operation but item assignment returns a new dataset."""
    __pyvc_symbolic__ = True
    __pyvc_native__ = True

    def __init__(self, variables):
        self.variables = dict(variables)

    @property
    def sizes(self):
        out = {}
        for v in self.variables.values():
            for d, n in zip(v.dims, v.shape):
                out.setdefault(d, n)
        return out

    def __getitem__(self, name):
        if isinstance(name, list):
            # a sub-dataset of the listed variables; it SHARES their data with this dataset (xarray does not copy)
            return GDataset({n: self.variables[n] for n in name})
        return self.variables[name]

    @property
    def dims(self):
        return self.sizes

    def copy(self, deep=False):
        return GDataset({n: v.copy(deep=deep) for n, v in self.variables.items()})

    def __contains__(self, name):
        return name in self.variables

    def isel(self, **indexers):
        new = dict(self.variables)
        for dim, idx in indexers.items():
            if dim not in self.sizes:
                raise ValueError("Dimensions %r do not exist" % (dim,))
            for name, v in list(new.items()):
                if dim not in v.dims:
                    continue
                if v.dims != (dim,):
                    raise _sym.OutsideSubset("ghost isel of a multi-dimensional variable")
                new[name] = GVar(v.dims, _models.getitem(v.values, idx))       # (bounds of idx: a safety obligation)
        return GDataset(new)

    def __setitem__(self, name, value):
        if isinstance(value, GVar):
            self.variables[name] = value
            return
        dim, vals = value
        size = self.sizes.get(dim)
        n = vals.shape[0]
        if size is not None:
            c = _sym.ctx()
            if isinstance(size, _Sym) or isinstance(n, _Sym):
                if c.branch(_lift(size) != _lift(n)):
                    from pyvc.interp import PyRaise
                    raise PyRaise(ValueError("conflicting sizes for dimension %r" % (dim,)))
            elif size != n:
                raise ValueError("conflicting sizes for dimension %r" % (dim,))
        self.variables[name] = GVar((dim,), vals)

    def swap_dims(self, mapping):
        new = dict(self.variables)
        for old, to in mapping.items():
            if to not in new or new[to].dims != (old,):
                raise ValueError("replacement dimension %r is not a 1D variable along the old dimension %r" % (to, old))
            for name, v in list(new.items()):
                if old in v.dims:
                    new[name] = GVar([to if d == old else d for d in v.dims], v.values)
        return GDataset(new)

    def drop_vars(self, name):
        if name not in self.variables:
            raise ValueError("variable %r not in the dataset" % (name,))
        new = dict(self.variables)
        del new[name]
        return GDataset(new)

    def rename(self, mapping):
        for old in mapping:
            if old not in self.variables and old not in self.sizes:
                raise ValueError("cannot rename %r because it is not a variable or dimension in this dataset" % (old,))
        new = {}
        for name, v in self.variables.items():
            new[mapping.get(name, name)] = GVar([mapping.get(d, d) for d in v.dims], v.values)
        return GDataset(new)


REG.inline_ok.add(M + "expand")
REG.inline_ok.add("typhon.collocations.collocator:check_collocation_data")
ASSUMPTIONS.append("xarray.Dataset.isel / item assignment / swap_dims / drop_vars / rename behave as the ghost dataset GDataset states "
                   "(contracts/C13.py), xarray.concat / merge as modelled there; the real library is exercised in the bounded check expand-collapse-concat")


def _expand_setup():
    ctx = _sym.ctx()
    nA, nB, N = fresh("nA", "int"), fresh("nB", "int"), fresh("N", "int")
    requires(nA >= 1, nB >= 1, N >= 1)
    pairs = _fa(ctx, "pairs", (2, N), "int")
    x, y, itv = _fa(ctx, "x", (nA,)), _fa(ctx, "y", (nB,)), _fa(ctx, "interval", (N,))
    requires(forall(0, N, lambda k: 0 <= pairs[0][k] and pairs[0][k] < nA and 0 <= pairs[1][k] and pairs[1][k] < nB))
    ds = GDataset({
        "Collocations/pairs": GVar(("Collocations/group", "Collocations/collocation"), pairs),
        "Collocations/group": GVar(("Collocations/group",), _np.array(["A", "B"])),
        "Collocations/interval": GVar(("Collocations/collocation",), itv),
        "A/x": GVar(("A/collocation",), x),
        "B/y": GVar(("B/collocation",), y),
    })
    k = fresh("k", "int")
    requires(0 <= k, k < N)
    return ds, pairs, x, y, itv, N, k


_expand_setup.__pyvc_thm__ = True


@theorem(P, "expand-aligns-pairs")
def thm_expand():
    """expand(): row k of every group's data is the data of that group's point of pair k -- for every number of stored points
    and pairs (also when a group has as many points as there are pairs) and every order of the pairs"""
    ds, pairs, x, y, itv, N, k = _expand_setup()
    out = CC.expand(ds)
    ensures(out["A/x"].dims == ("collocation",) and out["B/y"].dims == ("collocation",) and out["Collocations/interval"].dims == ("collocation",),
            id="all data share the dimension 'collocation'")
    ensures(out["A/x"].shape[0] == N and out["B/y"].shape[0] == N, id="one row per pair")
    a, b, c = out["A/x"].values[k], out["B/y"].values[k], out["Collocations/interval"].values[k]
    ensures(a == x[pairs[0][k]], id="row k of the primary group is the primary point of pair k")
    ensures(b == y[pairs[1][k]], id="row k of the secondary group is the secondary point of pair k")
    ensures(c == itv[k], id="the per-pair metadata keep their order")
    ensures("Collocations/pairs" not in out.variables, id="the pairs variable is dropped")


@theorem(P, "expand-aligns-pairs-CANARY", canary=True)
def thm_expand_canary():
    ds, pairs, x, y, itv, N, k = _expand_setup()
    out = CC.expand(ds)
    a = out["A/x"].values[k]
    ensures(a == x[k], id="CANARY: expanded rows are the stored rows (must fail)")


# ------------------------------------------------------------------ concat_collocations() on ghost datasets
import xarray as _xr                           # noqa: E402
import contracts.pdghost as _pdg               # noqa: E402,F401   (pandas.Timestamp / Timedelta on symbolic instants)
from pyvc.models import model as _model        # noqa: E402


def _cat_arrays(arrs, axis):
    """concatenation of symbolic arrays along `axis` (vectors: axis 0; matrices: axis 1), lengths may be symbolic"""
    out = arrs[0]
    for nxt in arrs[1:]:
        a, b = out, nxt
        if a.ndim == 1 and axis == 0:
            n1 = a.shape[0]
            fa_, fb_ = a.fn, b.fn
            out = _SArr((n1 + b.shape[0],), (lambda i, fa_=fa_, fb_=fb_, n1=n1: _sym.ite(_sym.mk(_lift(i) < _lift(n1)), fa_(i), fb_(i - n1))), a.dtype)
        elif a.ndim == 2 and axis == 1:
            n1 = a.shape[1]
            fa_, fb_ = a.fn, b.fn
            if not _sym.same_dim(a.shape[0], b.shape[0]):
                raise ValueError("concat: the other dimension differs")
            out = _SArr((a.shape[0], n1 + b.shape[1]),
                        (lambda r, i, fa_=fa_, fb_=fb_, n1=n1: _sym.ite(_sym.mk(_lift(i) < _lift(n1)), fa_(r, i), fb_(r, i - n1))), a.dtype)
        else:
            raise _sym.OutsideSubset("ghost concat of rank-%d arrays along axis %d" % (a.ndim, axis))
    return out


@_model(_xr.concat, always=True)
def _xr_concat(interp, objs, dim=None, **kw):
    """ASSUMED xarray.concat contract (datasets with the same variables): a variable along `dim` is the concatenation of the
    inputs' values along that dimension, in the order given; variables not along `dim` are taken from the first dataset"""
    objs = list(objs)
    if not objs or not all(isinstance(o, GDataset) for o in objs):
        return _xr.concat(objs, dim=dim, **kw)
    names = list(objs[0].variables)
    for o in objs[1:]:
        if set(o.variables) != set(names):
            raise _sym.OutsideSubset("ghost concat of datasets with different variables")
    new = {}
    for name in names:
        v = objs[0].variables[name]
        if dim in v.dims:
            new[name] = GVar(v.dims, _cat_arrays([o.variables[name].values for o in objs], v.dims.index(dim)))
        else:
            new[name] = v
    return GDataset(new)


@_model(_xr.merge, always=True)
def _xr_merge(interp, objs, **kw):
    """ASSUMED xarray.merge contract for datasets with disjoint variables: the union"""
    objs = list(objs)
    if not objs or not all(isinstance(o, GDataset) for o in objs):
        return _xr.merge(objs, **kw)
    new = {}
    for o in objs:
        for name, v in o.variables.items():
            if name in new:
                raise _sym.OutsideSubset("ghost merge of datasets sharing the variable %r" % (name,))
            new[name] = v
    return GDataset(new)


for _n in ("concat_collocations",):
    REG.inline_ok.add("typhon.collocations.collocator:" + _n)
for _n in ("get_xarray_groups", "get_xarray_group"):
    REG.inline_ok.add("typhon.utils.common:" + _n)
    REG.inline_ok.add("typhon.utils:" + _n)


def _ghost_result(tag, group_names=("A", "B")):
    """a compact collocation result with symbolic numbers of stored points and pairs and valid pair indices"""
    ctx = _sym.ctx()
    nA, nB, N = fresh("nA" + tag, "int"), fresh("nB" + tag, "int"), fresh("N" + tag, "int")
    requires(nA >= 1, nB >= 1, N >= 1)
    pairs = _fa(ctx, "pairs" + tag, (2, N), "int")
    requires(forall(0, N, lambda k: 0 <= pairs[0][k] and pairs[0][k] < nA and 0 <= pairs[1][k] and pairs[1][k] < nB))
    x, y, itv = _fa(ctx, "x" + tag, (nA,)), _fa(ctx, "y" + tag, (nB,)), _fa(ctx, "interval" + tag, (N,))
    tA = _fa(ctx, "timeA" + tag, (nA,), "int")
    tA.time_unit = "ns"
    A, B = group_names
    ds = GDataset({
        "Collocations/pairs": GVar(("Collocations/group", "Collocations/collocation"), pairs),
        "Collocations/group": GVar(("Collocations/group",), _np.array([A, B])),
        "Collocations/interval": GVar(("Collocations/collocation",), itv),
        A + "/x": GVar((A + "/collocation",), x),
        A + "/time": GVar((A + "/collocation",), tA),
        B + "/y": GVar((B + "/collocation",), y),
    })
    return dict(ds=ds, nA=nA, nB=nB, N=N, pairs=pairs.copy(), x=x, y=y, itv=itv)


_ghost_result.__pyvc_thm__ = True


@theorem(P, "concat-shifts-pair-indices")
def thm_concat():
    """concat_collocations([a, b]): the stored points and the pairs of a are followed by those of b, b's pair indices shifted
    by a's numbers of stored points -- so that it expands to expand(a) followed by expand(b) -- and a, b are left as they were"""
    from typhon.collocations.collocator import concat_collocations
    a, b = _ghost_result("1"), _ghost_result("2")
    m = concat_collocations([a["ds"], b["ds"]])
    N1, N = a["N"], a["N"] + b["N"]
    k = fresh("k", "int")
    requires(0 <= k, k < N)
    mp = m["Collocations/pairs"].values
    ensures(m["Collocations/pairs"].shape[1] == N and m["A/x"].shape[0] == a["nA"] + b["nA"] and m["B/y"].shape[0] == a["nB"] + b["nB"],
            id="sizes add up")
    p0, p1 = mp[0][k], mp[1][k]
    ensures(0 <= p0 and p0 < a["nA"] + b["nA"] and 0 <= p1 and p1 < a["nB"] + b["nB"], id="pair indices of the result are valid")
    k2 = k - N1
    ex, ey = m["A/x"].values[p0], m["B/y"].values[p1]
    if k < N1:
        ensures(ex == a["x"][a["pairs"][0][k]] and ey == a["y"][a["pairs"][1][k]], id="pair k < N(a) carries the data of pair k of a")
    else:
        ensures(ex == b["x"][b["pairs"][0][k2]] and ey == b["y"][b["pairs"][1][k2]], id="pair k >= N(a) carries the data of pair k - N(a) of b")
    # the same through expand(): expand(concat(a, b)) is expand(a) followed by expand(b)
    out = CC.expand(m)
    ox, oy, oi = out["A/x"].values[k], out["B/y"].values[k], out["Collocations/interval"].values[k]
    ensures(ox == ex and oy == ey, id="expand(concat(a, b)) row k is that pair's data")
    ensures(oi == (a["itv"][k] if k < N1 else b["itv"][k2]), id="... and its metadata")
    # frame: the arguments still are the collocation results they were
    j = fresh("j", "int")
    requires(0 <= j, j < b["N"])
    bp = b["ds"]["Collocations/pairs"].values
    ensures(bp[0][j] == b["pairs"][0][j] and bp[1][j] == b["pairs"][1][j], id="the second argument's pair indices are unchanged")
    i = fresh("i", "int")
    requires(0 <= i, i < a["N"])
    ap = a["ds"]["Collocations/pairs"].values
    ensures(ap[0][i] == a["pairs"][0][i] and ap[1][i] == a["pairs"][1][i], id="the first argument's pair indices are unchanged")
    ensures(list(m["Collocations/group"].values) == ["A", "B"], id="the group names are kept")


# ------------------------------------------------------------------ bounded: expand / collapse / concat_collocations on real xarray data
def _compact(nprng, rng, n1, n2, npairs, channels=3):
    """a compact collocation dataset built directly: every stored point takes part in at least one pair"""
    import xarray as xr
    p0 = list(range(n1)) + [rng.randrange(n1) for _ in range(max(0, npairs - n1))]
    p1 = list(range(n2)) + [rng.randrange(n2) for _ in range(max(0, npairs - n2))]
    while len(p0) < len(p1):
        p0.append(rng.randrange(n1))
    while len(p1) < len(p0):
        p1.append(rng.randrange(n2))
    rng.shuffle(p0)
    rng.shuffle(p1)
    pairs = sorted(set(zip(p0, p1)), key=lambda _: rng.random())           # unsorted, each pair once
    for i in range(n1):                                                      # (re-)cover every stored point
        if i not in {a for a, _ in pairs}:
            pairs.append((i, rng.randrange(n2)))
    for j in range(n2):
        if j not in {b for _, b in pairs}:
            pairs.append((rng.randrange(n1), j))
    pairs = _np.array(pairs, dtype=int).T
    n = pairs.shape[1]
    t0 = _np.datetime64("2020-01-01T00:00:00", "ns")

    def group(name, k):
        x = nprng.normal(size=k)
        if k > 1 and rng.random() < 0.5:
            x[rng.randrange(k)] = _np.nan
        return {name + "/time": (name + "/collocation", t0 + (nprng.uniform(0, 100, size=k) * 1e9).astype("int64").astype("timedelta64[ns]")),
                name + "/lat": (name + "/collocation", nprng.uniform(-80, 80, size=k)),
                name + "/lon": (name + "/collocation", nprng.uniform(-170, 170, size=k)),
                name + "/x": (name + "/collocation", x),
                name + "/bt": ((name + "/collocation", name + "/channel"), nprng.normal(size=(k, channels)))}
    d = {}
    d.update(group("A", n1))
    d.update(group("B", n2))
    d["Collocations/pairs"] = (("Collocations/group", "Collocations/collocation"), pairs)
    d["Collocations/interval"] = ("Collocations/collocation", nprng.randint(0, 100, size=n).astype("timedelta64[s]"))
    d["Collocations/distance"] = ("Collocations/collocation", nprng.uniform(0, 5, size=n))
    d["Collocations/group"] = ("Collocations/group", _np.array(["A", "B"]))
    return xr.Dataset(d)


def _same(a, b):
    a, b = _np.asarray(a), _np.asarray(b)
    if a.shape != b.shape:
        return False
    if a.dtype.kind in "mM" or b.dtype.kind in "mM":
        return bool((a == b).all())
    return bool(_np.allclose(a, b, rtol=1e-9, atol=1e-12, equal_nan=True))


@bounded(P, "expand-collapse-concat", "compact collocation datasets built directly (1..12 stored points per group, 1..40 pairs, one-to-many and "
         "many-to-one, unsorted pairs, a channel dimension, NaNs, plus one dataset of 45 x 60 points with more than 1000 pairs in shuffled order in either tier), either group "
         "as reference, lists of 1..4 datasets to concatenate; oracle: the definitions in the property statement; 40 (quick) / 300 (thorough) rounds")
def bounded_ecc(rng, tier):
    import warnings
    from typhon.collocations import collapse, expand
    from typhon.collocations.collocator import concat_collocations
    rounds = 40 if tier == "quick" else 300
    evals, failures, samples, distinct = 0, [], [], set()

    def expanded_rows(ds):
        p = ds["Collocations/pairs"].values
        out = {}
        for v in ("time", "lat", "lon", "x", "bt"):
            out["A/" + v] = ds["A/" + v].values[p[0]]
            out["B/" + v] = ds["B/" + v].values[p[1]]
        out["Collocations/interval"] = ds["Collocations/interval"].values
        out["Collocations/distance"] = ds["Collocations/distance"].values
        return out
    for r in range(rounds):
        nprng = _np.random.RandomState(rng.randint(0, 2**31 - 1))
        big = r == 0                     # the alternative row-assignment path of collapse() needs >= 1000 pairs (each pair once: 45 x 60 points)
        sets = [_compact(nprng, rng, rng.randint(1, 12), rng.randint(1, 12), rng.randint(1, 40)) for _ in range(rng.randint(1, 4))]
        while big and sets[0]["Collocations/pairs"].shape[1] < 1000:
            sets[0] = _compact(nprng, rng, 45, 60, 2000)
        with warnings.catch_warnings():
            warnings.simplefilter("ignore")
            # expand: one row per pair carrying the values of that pair
            ds = sets[0]
            evals += 1
            distinct.add((r, "expand"))
            try:
                ex = expand(ds.copy(deep=True))
                want = expanded_rows(ds)
                bad = [k for k, v in want.items() if k not in ex.variables or not _same(ex[k].values, v)]
                if bad:
                    failures.append({"round": r, "check": "expand", "problem": "rows differ for %s" % bad[:3], "pairs": ds["Collocations/pairs"].values.tolist()[:1]})
            except Exception as exc:
                failures.append({"round": r, "check": "expand", "problem": "exception %r" % (exc,)})
            # collapse: one row per reference point with nan-ignoring mean / std / count over its partners
            for ref, oth, ri in (("A", "B", 0), ("B", "A", 1), (None, "B", 0)):
                evals += 1
                distinct.add((r, "collapse", ref))
                try:
                    col = collapse(ds.copy(deep=True), reference=ref)
                    p = ds["Collocations/pairs"].values
                    nref = ds[("A" if ri == 0 else "B") + "/x"].size
                    probs = []
                    for var in ("x", "bt"):
                        vals = ds[oth + "/" + var].values
                        for q in range(nref):
                            part = vals[p[1 - ri][p[ri] == q]]
                            with _np.errstate(all="ignore"):
                                m, s, c = _np.nanmean(part, axis=0), _np.nanstd(part, axis=0), _np.count_nonzero(~_np.isnan(part), axis=0)
                            if not (_same(col["%s/%s_mean" % (oth, var)].values[q], m) and _same(col["%s/%s_std" % (oth, var)].values[q], s)
                                    and _same(col["%s/%s_number" % (oth, var)].values[q], c)):
                                probs.append((var, q))
                    if col["lat"].size != nref or not _same(col["lat"].values, ds[("A" if ri == 0 else "B") + "/lat"].values):
                        probs.append("reference rows")
                    if probs:
                        failures.append({"round": r, "check": "collapse(reference=%r)" % ref, "problem": "statistics differ at %s" % probs[:3]})
                except Exception as exc:
                    failures.append({"round": r, "check": "collapse(reference=%r)" % ref, "problem": "exception %r" % (exc,)})
            # concat: expands to the concatenation of the expansions
            evals += 1
            distinct.add((r, "concat", len(sets)))
            try:
                parts = [expanded_rows(s) for s in sets]
                given = [s.copy(deep=True) for s in sets]
                cat = concat_collocations(given)
                got = expanded_rows(cat)
                bad = [k for k in got if not _same(got[k], _np.concatenate([pt[k] for pt in parts], axis=0))]
                # frame: the datasets handed in still are the collocation results they were
                for gi, (g, s0) in enumerate(zip(given, sets)):
                    if not all(_np.array_equal(g[v].values, s0[v].values, equal_nan=s0[v].dtype.kind == "f") for v in s0.variables if s0[v].dtype.kind in "iuf"):
                        bad.append("argument %d was modified (pairs %s -> %s)" % (gi, s0["Collocations/pairs"].values.tolist(), g["Collocations/pairs"].values.tolist()))
                p = cat["Collocations/pairs"].values
                if p.min() < 0 or p[0].max() >= cat["A/x"].size or p[1].max() >= cat["B/x"].size:
                    bad.append("pair indices out of range")
                if bad:
                    failures.append({"round": r, "check": "concat of %d" % len(sets), "problem": "expand(concat) differs from concat(expand) for %s" % bad[:3]})
                elif len(samples) < 3:
                    samples.append({"round": r, "datasets": len(sets), "pairs": [int(s["Collocations/pairs"].shape[1]) for s in sets]})
            except Exception as exc:
                failures.append({"round": r, "check": "concat of %d" % len(sets), "problem": "exception %r" % (exc,)})
    return {"evaluations": evals, "distinct_nontrivial": len(distinct), "failures": failures[:5], "samples": samples}
