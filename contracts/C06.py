"""C06 -- GeoIndex.query returns exactly the points within the radius (typhon/geographical.py).

The spatial tree (sklearn BallTree/KDTree) is an assumed contract (STree below): query_radius returns,
as a jagged array in query order, exactly the build positions within the radius, each once, with
their distances.  What is proved is everything typhon adds: metric conversion, radius/unit algebra,
flattening of the jagged result, the translation of shuffled build positions back to the caller's
indices -- for EVERY permutation the random shuffle can draw -- and the distance unit.
"""
import numpy as _np
import z3 as _z3
from pyvc.dsl import *
from pyvc import sym as _sym
from pyvc.sym import Sym as _Sym, SArr as _SArr, OutsideSubset as _Outside, lift as _lift
from pyvc.models import model as _model
from pyvc.contracts import fresh_array as _fa
from contracts.geodesy_shared import *      # contract of geocentric2cart
import typhon.geographical as GEO
from typhon.constants import earth_radius
from sklearn.neighbors import BallTree as _BallTree, KDTree as _KDTree

P = "C06"
M = "typhon.geographical:"
NOT_DECIDED = ["the neighbour search of sklearn's BallTree / KDTree itself (assumed contract STree.query_radius)",
               "float rounding of distances at the radius threshold (A2)"]
ASSUMPTIONS = [
    "sklearn BallTree/KDTree.query_radius(points, r, return_distance): for each query row, exactly the build rows with "
    "metric distance <= r, each once, distances aligned (STree model); tree class and leaf size do not appear in that contract",
    "np.random.shuffle yields SOME bijection of the positions (all permutations covered)",
    "the tree metrics: 'minkowski' = Euclidean distance of the cartesian rows, 'haversine' = great-circle angle of (lat,lon) rows in radians",
]

_R = _z3.RealSort()
_MD = {"minkowski": _z3.Function("euclid3", *([_R] * 7)), "haversine": _z3.Function("haversine_angle", *([_R] * 5))}
_DIM = {"minkowski": 3, "haversine": 2}


def coords(metric, la, lo):
    """row of the metric array for one (lat, lon): what GeoIndex._to_metric computes"""
    if metric == "minkowski":
        R = earth_radius
        return (R * cos(la * PI / 180) * cos(lo * PI / 180), R * cos(la * PI / 180) * sin(lo * PI / 180),
                R * sin(la * PI / 180))
    return (la * PI / 180, lo * PI / 180)


coords.__pyvc_thm__ = True


def md(metric, p, q):
    """distance of two metric rows in the unit of the tree (metres / radians); uninterpreted"""
    args = [_sym.to_real(_lift(x)) for x in list(p) + list(q)]
    return _Sym(_MD[metric](*args))


md.__pyvc_native__ = True


def unit_km(metric):
    """kilometres per tree unit"""
    return 1 / 1000 if metric == "minkowski" else earth_radius / 1000


unit_km.__pyvc_thm__ = True


def km(self, lat, lon, b, q):
    """true distance in km between build point b (caller's index) and query point q"""
    return md(self.metric, coords(self.metric, self.lat[b], self.lon[b]), coords(self.metric, lat[q], lon[q])) \
        * unit_km(self.metric)


km.__pyvc_thm__ = True


# ------------------------------------------------------------------ assumed contract of the sklearn trees
class SJagged:
    """jagged result of query_radius kept flat: N entries j with query row Q(j), build row B(j), value val(j)"""
    __pyvc_symbolic__ = True

    def __init__(self, N, Q, B, val, dtype):
        self.N, self.Q, self.B, self.val, self.dtype = N, Q, B, val, dtype

    def __pyvc_enumerate__(self, interp, start=0):
        if start != 0:
            raise _Outside("enumerate(start != 0) of a jagged array")
        return SJaggedEnum(self)

    def __pyvc_comprehension__(self, interp, node, frame):
        import ast
        g = node.generators
        if len(g) == 1 and not g[0].ifs and isinstance(node.elt, ast.Name) and isinstance(g[0].target, ast.Name) \
                and node.elt.id == g[0].target.id:
            return self                      # [row for row in jagged] : the same rows
        raise _Outside("comprehension over a jagged array of this shape")

    def __pyvc_hstack__(self, interp):
        v = self.val
        return _SArr((self.N,), lambda j: v(j), self.dtype)


class SJaggedEnum:
    __pyvc_symbolic__ = True

    def __init__(self, jag):
        self.jag = jag

    def __pyvc_comprehension__(self, interp, node, frame):
        """[elt for q, row in enumerate(jagged) for x in row]: element j of the flat list is elt[q:=Q(j), x:=val(j)]"""
        import ast
        from pyvc.interp import Frame
        g = node.generators
        if not (len(g) == 2 and not g[0].ifs and not g[1].ifs and isinstance(g[0].target, ast.Tuple)
                and len(g[0].target.elts) == 2 and all(isinstance(e, ast.Name) for e in g[0].target.elts)
                and isinstance(g[1].iter, ast.Name) and g[1].iter.id == g[0].target.elts[1].id
                and isinstance(g[1].target, ast.Name)):
            raise _Outside("comprehension over enumerate(jagged) of this shape")
        qname, xname = g[0].target.elts[0].id, g[1].target.id
        jag = self.jag

        def elt(j):
            fr = Frame({qname: jag.Q(j), xname: jag.val(j)}, frame.globals, frame, frame.label)
            return interp.eval(node.elt, fr)
        return SRows(jag.N, elt)


class SRows:
    """list of N rows given by a function of the flat index"""
    __pyvc_symbolic__ = True

    def __init__(self, N, elt):
        self.N, self.elt = N, elt

    def __pyvc_array__(self, interp):
        probe = self.elt(0)
        k = len(probe)
        elt = self.elt

        def fn(j, c):
            row = elt(j)
            if isinstance(c, _Sym):
                r = row[-1]
                for t in range(k - 2, -1, -1):
                    r = _sym.ite(c == t, row[t], r)
                return r
            return row[c]
        return _SArr((self.N, k), fn, "int")


class STree:
    """assumed contract of sklearn.neighbors.BallTree / KDTree (A4)"""
    __pyvc_symbolic__ = True

    def __init__(self, points, kind, metric):
        self.build, self.kind, self.metric = points, kind, metric

    def query_radius(self, points, r, return_distance=False):
        ctx = _sym.ctx()
        nb, nq = self.build.shape[0], points.shape[0]
        d = _DIM[self.metric]
        nm = ctx.fresh_name("J")
        I = _z3.IntSort()
        Qf, Bf = _z3.Function(nm + "_q", I, I), _z3.Function(nm + "_b", I, I)
        Jf = _z3.Function(nm + "_idx", I, I, I)
        N = ctx.fresh(nm + "_N", "int")
        build, metric = self.build, self.metric

        def dist(b, q):
            return md(metric, [build.fn(b, c) for c in range(d)], [points.fn(q, c) for c in range(d)])
        j, b, q = _z3.Ints("j!t b!t q!t")
        ctx.assume(N >= 0)
        ctx.assume(_z3.ForAll([j], _z3.Implies(_z3.And(j >= 0, j < N.e), _z3.And(
            Qf(j) >= 0, Qf(j) < _lift(nq), Bf(j) >= 0, Bf(j) < _lift(nb),
            _lift(dist(_Sym(Bf(j)), _Sym(Qf(j)))) <= _sym.to_real(_lift(r)),
            Jf(Bf(j), Qf(j)) == j))))                                   # each pair once
        ctx.assume(_z3.ForAll([b, q], _z3.Implies(
            _z3.And(b >= 0, b < _lift(nb), q >= 0, q < _lift(nq), _lift(dist(_Sym(b), _Sym(q))) <= _sym.to_real(_lift(r))),
            _z3.And(Jf(b, q) >= 0, Jf(b, q) < N.e, Bf(Jf(b, q)) == b, Qf(Jf(b, q)) == q))))   # every pair within r
        Q = lambda t: _Sym(Qf(_lift(t)))
        B = lambda t: _Sym(Bf(_lift(t)))
        pairs = SJagged(N, Q, B, B, "int")
        if not return_distance:
            return pairs
        return pairs, SJagged(N, Q, B, lambda t: dist(B(t), Q(t)), "real")


@_model(_BallTree)
def _ball(interp, points, *a, **kw):
    return STree(points, "Ball", kw.get("metric", "minkowski"))


@_model(_KDTree)
def _kd(interp, points, *a, **kw):
    return STree(points, "KD", kw.get("metric", "minkowski"))


# ------------------------------------------------------------------ unit table / to_kilometers
# SI values of the advertised units in kilometres (exact rationals; statute mile = 1609.344 m, yard = 0.9144 m, foot = 0.3048 m)
SI_KM = {"cm": "1/100000", "centimeter": "1/100000", "centimeters": "1/100000",
         "m": "1/1000", "meter": "1/1000", "meters": "1/1000",
         "km": "1", "kilometer": "1", "kilometers": "1",
         "mi": "1609344/1000000", "mile": "1609344/1000000", "miles": "1609344/1000000",
         "yd": "9144/10000000", "yds": "9144/10000000", "yard": "9144/10000000", "yards": "9144/10000000",
         "ft": "3048/10000000", "foot": "3048/10000000", "feet": "3048/10000000"}


def _split_units_model(interp, value):
    # split_units is string code (bounded tier); the proof of to_kilometers takes its documented contract:
    # "<number><blanks><unit>" -> (number, unit)
    raise _Outside("split_units on symbolic strings")


def _setup_tokm(ctx, cfg):
    x = ctx.fresh("x", "real")
    ctx.assume(x > 0)
    return dict(distance=SUnitString(x, cfg["unit"]))


class SUnitString(str):
    """the string '<x> <unit>' for a symbolic positive number x and a concrete unit"""
    __pyvc_symbolic__ = True
    __pyvc_native__ = True

    def __new__(cls, x, unit):
        o = str.__new__(cls, "<x> %s" % unit)
        o.x, o.unit = x, unit
        return o


from typhon.utils import common as _common


@_model(GEO.split_units, _common.split_units)
def _split_units(interp, value):
    if isinstance(value, SUnitString):
        interp.trusted_used.add("contract:split_units('<x> <unit>') == (x, unit)  [string loop: bounded tier only]")
        return value.x, value.unit
    return _common.split_units(value)


def si_km(unit):
    import fractions
    return fractions.Fraction(SI_KM[unit])


si_km.__pyvc_native__ = True
c_tokm = contract(M + "to_kilometers", prop=P, setup=_setup_tokm, configs=[{"unit": u} for u in sorted(SI_KM)],
                  pure=False, env={"si_km": si_km}, inline=True,
                  ensures=["result == distance.x * si_km(distance.unit)"])
c_tokm_num = None
REG.inline_ok.add(M + "to_kilometers")


# ------------------------------------------------------------------ GeoIndex._to_metric
def _setup_tometric(ctx, cfg):
    n = ctx.fresh("n", "int")
    ctx.assume(n >= 1)
    self = object.__new__(GEO.GeoIndex)
    self.metric = cfg["metric"]
    return dict(self=self, lat=_fa(ctx, "lat", (n,)), lon=_fa(ctx, "lon", (n,)))


def rows_are_coords(result, metric, lat, lon):
    n = len(lat)
    d = 3 if metric == "minkowski" else 2
    return forall(0, n, lambda i: forall(0, d, lambda c: result[i, c] == coords(metric, lat[i], lon[i])[c]))


rows_are_coords.__pyvc_thm__ = True
ENV = dict(coords=coords, md=md, km=km, unit_km=unit_km, rows_are_coords=rows_are_coords)
c_tm = contract(M + "GeoIndex._to_metric", prop=P, setup=_setup_tometric, pure=False,
                configs=[{"metric": "minkowski"}, {"metric": "haversine"}], env=ENV,
                result=lambda ctx, env: _fa(ctx, "points", (env["lat"].shape[0], 3 if env["self"].metric == "minkowski" else 2)),
                ensures=["rows_are_coords(result, self.metric, lat, lon)"])


# ------------------------------------------------------------------ GeoIndex.__init__
def _setup_init(ctx, cfg):
    n = ctx.fresh("n", "int")
    ctx.assume(n >= 1)
    self = object.__new__(GEO.GeoIndex)
    return dict(self=self, lat=_fa(ctx, "lat", (n,)), lon=_fa(ctx, "lon", (n,)), metric=cfg["metric"],
                tree_class=cfg["tree_class"], shuffle=cfg["shuffle"])


def index_invariant(self, lat, lon):
    """what query() relies on: shuffler is None or a bijection of the positions (ghost: its inverse), and the
    tree was built on the metric rows of (lat, lon) re-ordered by it"""
    n = len(lat)
    d = 3 if self.metric == "minkowski" else 2
    sh = self.shuffler
    if sh is None:
        return forall(0, n, lambda p: forall(0, d, lambda c: self.tree.build[p, c] == coords(self.metric, lat[p], lon[p])[c]))
    inv = sh.ghost_inverse
    return (forall(0, n, lambda p: 0 <= sh[p] and sh[p] < n and inv[sh[p]] == p)
            and forall(0, n, lambda b: 0 <= inv[b] and inv[b] < n and sh[inv[b]] == b)
            and forall(0, n, lambda p: forall(0, d, lambda c:
                                              self.tree.build[p, c] == coords(self.metric, lat[sh[p]], lon[sh[p]])[c])))


index_invariant.__pyvc_thm__ = True
ENV["index_invariant"] = index_invariant
_init_cfgs = [{"metric": m, "tree_class": t, "shuffle": s} for m in (None, "minkowski", "haversine")
              for t in (None, "Ball", "KD") for s in (True, False)]
c_init = contract(M + "GeoIndex.__init__", prop=P, setup=_setup_init, configs=_init_cfgs, pure=False, env=ENV, result="real",
                  ensures=["self.metric == ('minkowski' if metric is None else metric)",
                           "(self.shuffler is None) == (not shuffle)",
                           "self.tree.kind == ('KD' if tree_class == 'KD' else 'Ball')",
                           "self.tree.metric == self.metric",
                           "self.lat is lat and self.lon is lon",
                           "len(self.tree.build) == len(lat)",
                           "index_invariant(self, lat, lon)"])


# ------------------------------------------------------------------ GeoIndex.query
def _setup_query(ctx, cfg):
    nb = ctx.fresh("nb", "int")
    nq = ctx.fresh("nq", "int")
    ctx.assume(nb >= 1)
    ctx.assume(nq >= 1)
    self = object.__new__(GEO.GeoIndex)
    self.metric = cfg["metric"]
    self.lat, self.lon = _fa(ctx, "blat", (nb,)), _fa(ctx, "blon", (nb,))
    d = _DIM[cfg["metric"]]
    self.shuffler = _fa(ctx, "shuffler", (nb,), "int") if cfg["shuffle"] else None
    if cfg["shuffle"]:
        self.shuffler.ghost_inverse = _fa(ctx, "shuffler_inv", (nb,), "int")
    self.tree = STree(_fa(ctx, "build", (nb, d)), "Ball", cfg["metric"])
    r = ctx.fresh("r", "real")
    ctx.assume(r > 0)
    return dict(self=self, lat=_fa(ctx, "lat", (nq,)), lon=_fa(ctx, "lon", (nq,)), r=r,
                return_distance=cfg["return_distance"])


def pairs_of(result, return_distance):
    return result[0] if return_distance else result


pairs_of.__pyvc_thm__ = True


def npairs(pairs):
    return pairs.shape[1] if pairs.ndim == 2 else 0


npairs.__pyvc_thm__ = True


def sound(self, lat, lon, r, pairs):
    nb, nq = len(self.lat), len(lat)
    return forall(0, npairs(pairs), lambda j: 0 <= pairs[0, j] and pairs[0, j] < nb and 0 <= pairs[1, j] and pairs[1, j] < nq
                  and km(self, lat, lon, pairs[0, j], pairs[1, j]) <= r)


def orig(self, p):
    """caller's index of the build point at tree position p"""
    return p if self.shuffler is None else self.shuffler[p]


orig.__pyvc_thm__ = True


def complete(self, lat, lon, r, pairs):
    # stated over tree positions p (orig(p) runs over all caller indices because the shuffler is a bijection;
    # theorem thm/C06/pairs turns this into the caller-index form of the property)
    nb, nq = len(self.lat), len(lat)
    return forall(0, nb, lambda p: forall(0, nq, lambda q: implies(
        km(self, lat, lon, orig(self, p), q) <= r,
        exists(0, npairs(pairs), lambda j: pairs[0, j] == orig(self, p) and pairs[1, j] == q))))


def once(pairs):
    n = npairs(pairs)
    return forall(0, n, lambda j: forall(0, n, lambda j2: implies(j != j2, not (pairs[0, j] == pairs[0, j2] and pairs[1, j] == pairs[1, j2]))))


def distances_km(self, lat, lon, pairs, dist):
    if dist.ndim != 1:
        return npairs(pairs) == 0
    return len(dist) == npairs(pairs) and forall(0, npairs(pairs), lambda j: dist[j] == km(self, lat, lon, pairs[0, j], pairs[1, j]))


for _f in (sound, complete, once, distances_km):
    _f.__pyvc_thm__ = True
    ENV[_f.__name__] = _f
ENV.update(pairs_of=pairs_of, npairs=npairs, orig=orig)
_q_cfgs = [{"metric": m, "shuffle": s, "return_distance": rd} for m in ("minkowski", "haversine")
           for s in (True, False) for rd in (True, False)]
c_query = contract(M + "GeoIndex.query", prop=P, setup=_setup_query, configs=_q_cfgs, pure=False, env=ENV,
                   requires=["index_invariant(self, self.lat, self.lon)"],
                   ensures=["sound(self, lat, lon, r, pairs_of(result, return_distance))",
                            "complete(self, lat, lon, r, pairs_of(result, return_distance))",
                            "once(pairs_of(result, return_distance))",
                            "(not return_distance) or distances_km(self, lat, lon, result[0], result[1])"])

c_query.canaries = ["npairs(pairs_of(result, return_distance)) == 0",
                    "forall(0, npairs(pairs_of(result, return_distance)), lambda j: pairs_of(result, return_distance)[0, j] == 0)"]
c_init.canaries = ["self.shuffler is None and shuffle"]


# ------------------------------------------------------------------ modular use of the constructor
def _init_effects(interp, env):
    """what __init__ assigns (havoc'd; the ensures of c_init are assumed afterwards)"""
    ctx = interp.ctx
    self, lat = env["self"], env["lat"]
    n = lat.shape[0]
    self.metric = "minkowski" if env["metric"] is None else env["metric"]
    self.lat, self.lon = env["lat"], env["lon"]
    if env["shuffle"]:
        self.shuffler = _fa(ctx, "shuffler", (n,), "int")
        self.shuffler.ghost_inverse = _fa(ctx, "shuffler_inv", (n,), "int")
    else:
        self.shuffler = None
    self.tree = STree(_fa(ctx, "build", (n, _DIM[self.metric])), "KD" if env["tree_class"] == "KD" else "Ball", self.metric)


c_init.effects = _init_effects


def _query_result(ctx, env):
    n = ctx.fresh("npairs", "int")
    ctx.assume(n >= 0)
    pairs = _fa(ctx, "pairs", (2, n), "int")
    if env["return_distance"]:
        return pairs, _fa(ctx, "distances", (n,), "real")
    return pairs


c_query.result = _query_result


def _thm_pairs(metric, shuffle, tree_class):
    @theorem(P, "pairs[%s,%s,%s]" % (metric, "shuffle" if shuffle else "noshuffle", tree_class))
    def thm(nb: "int", nq: "int", r: "real"):
        # the property's own wording: exactly the (build index, query index) pairs within r, each once,
        # indices referring to the arrays as passed in, distance in km alongside -- whatever permutation was drawn
        requires(nb >= 1, nq >= 1, r > 0)
        blat = fresh_array("blat", nb)
        blon = fresh_array("blon", nb)
        lat = fresh_array("lat", nq)
        lon = fresh_array("lon", nq)
        index = GEO.GeoIndex(blat, blon, metric=metric, tree_class=tree_class, shuffle=shuffle)
        pairs, dist = index.query(lat, lon, r)
        n = npairs(pairs)
        b = fresh("b", "int")
        q = fresh("q", "int")
        requires(0 <= b, b < nb, 0 <= q, q < nq)
        # ghost step: the tree position that holds caller index b
        p = b if index.shuffler is None else index.shuffler.ghost_inverse[b]
        assume(orig(index, p) == orig(index, p))
        ensures(orig(index, p) == b, id="every caller index is some tree position (shuffler is a bijection)")
        ensures(implies(km(index, lat, lon, b, q) <= r, exists(0, n, lambda j: pairs[0, j] == b and pairs[1, j] == q)),
                id="every pair within r is reported")
        j = fresh("j", "int")
        j2 = fresh("j2", "int")
        requires(0 <= j, j < n, 0 <= j2, j2 < n, j != j2)
        ensures(0 <= pairs[0, j], pairs[0, j] < nb, 0 <= pairs[1, j], pairs[1, j] < nq,
                id="indices refer to the arrays as passed in")
        ensures(km(index, lat, lon, pairs[0, j], pairs[1, j]) <= r, id="nothing beyond r is reported")
        ensures(not (pairs[0, j] == pairs[0, j2] and pairs[1, j] == pairs[1, j2]), id="each pair once")
        ensures(dist[j] == km(index, lat, lon, pairs[0, j], pairs[1, j]), id="distance of each pair in km")
    return thm


for _m in ("minkowski", "haversine"):
    for _s in (True, False):
        for _t in ("Ball", "KD"):
            _thm_pairs(_m, _s, _t)


@theorem(P, "radius-units")
def thm_units(x: "real"):
    # the radius may be written in any advertised unit: equal lengths give the same radius in km
    requires(x > 0)
    km_ = GEO.to_kilometers(SUnitString(x, "km"))
    m_ = GEO.to_kilometers(SUnitString(x * 1000, "m"))
    mi_ = GEO.to_kilometers(SUnitString(x, "mi"))
    mi_m = GEO.to_kilometers(SUnitString(x * 1609.344, "m"))
    cm_ = GEO.to_kilometers(SUnitString(x * 100000, "cm"))
    ft_ = GEO.to_kilometers(SUnitString(x * 3, "ft"))
    yd_ = GEO.to_kilometers(SUnitString(x, "yd"))
    num = GEO.to_kilometers(x)
    ensures(m_ == km_, id="x km == 1000 x m")
    ensures(mi_ == mi_m, id="x mi == 1609.344 x m")
    ensures(cm_ == km_, id="x km == 100000 x cm")
    ensures(ft_ == yd_, id="x yd == 3 x ft")
    ensures(num == x, km_ == x, id="numbers are kilometres")


# ------------------------------------------------------------------ bounded stand-ins (real sklearn trees, real strings)
@bounded(P, "end-to-end-real-trees", "<= 5 build and <= 4 query points from a fixed pool (poles, date line, duplicates), "
         "both metrics, both tree classes, ALL permutations injected through np.random.shuffle, and an unshuffled index asked four times in a row "
         "(also with exactly as many query points as it holds), radii 1 km .. 20000 km")
def bounded_real(rng, tier):
    import itertools
    from unittest import mock
    from typhon.geodesy import great_circle_distance
    pool = [(0.0, 0.0), (0.0, 0.001), (89.9, 10.0), (89.9, -170.0), (-45.0, 179.999), (-45.0, -179.999), (0.0, 0.0), (10.0, 20.0)]
    evals, distinct, failures, samples = 0, set(), [], []
    nbs = (1, 2, 3) if tier == "quick" else (1, 2, 3, 4, 5)
    for nb in nbs:
        for start in range(0, len(pool) - nb + 1, 2):
            B = pool[start:start + nb]
            Qp = [pool[(start + 3 * k) % len(pool)] for k in range(min(nb + 1, 4))]
            blat, blon = _np.array([p[0] for p in B]), _np.array([p[1] for p in B])
            qlat, qlon = _np.array([p[0] for p in Qp]), _np.array([p[1] for p in Qp])
            for metric in ("minkowski", "haversine"):
                for tree_class in ("Ball", "KD"):
                    if metric == "haversine" and tree_class == "KD":
                        continue    # sklearn's KDTree does not offer the haversine metric
                    for r in (1.0, 200.0, 20000.0):
                        # oracle: chord / arc in km
                        def d(i, j):
                            if metric == "haversine":
                                return float(_np.deg2rad(great_circle_distance(B[i][0], B[i][1], Qp[j][0], Qp[j][1]))) * earth_radius / 1000
                            a = _np.array(G.geocentric2cart(earth_radius, B[i][0], B[i][1]))
                            c = _np.array(G.geocentric2cart(earth_radius, Qp[j][0], Qp[j][1]))
                            return float(_np.linalg.norm(a - c)) / 1000
                        want = {(i, j): d(i, j) for i in range(nb) for j in range(len(Qp))}
                        if any(abs(v - r) < 1e-6 * max(1.0, r) for v in want.values()):
                            continue   # exactly on the threshold: float rounding decides (A2)
                        expect = sorted(k for k, v in want.items() if v <= r)
                        for perm in itertools.permutations(range(nb)):
                            def fake_shuffle(a, perm=perm):
                                a[:] = _np.array(perm)
                            with mock.patch.object(_np.random, "shuffle", fake_shuffle):
                                idx = GEO.GeoIndex(blat, blon, metric=metric, tree_class=tree_class, shuffle=True)
                            for rd in (True, False):
                                evals += 1
                                distinct.add((nb, start, metric, tree_class, r, perm, rd))
                                got = None
                                try:
                                    res = idx.query(qlat, qlon, r, return_distance=rd)
                                    pairs = res[0] if rd else res
                                    got = sorted(zip(pairs[0].tolist(), pairs[1].tolist())) if pairs.size else []
                                    ok = got == expect
                                    if ok and rd and pairs.size:
                                        ok = all(abs(dd - want[(int(a), int(b))]) <= 1e-6 * max(1.0, want[(int(a), int(b))]) + 1e-9
                                                 for a, b, dd in zip(pairs[0], pairs[1], res[1]))
                                except Exception as exc:
                                    ok, got = False, "exception %r" % (exc,)
                                if not ok:
                                    failures.append({"build": B, "query": Qp, "metric": metric, "tree": tree_class, "r": r,
                                                     "perm": list(perm), "return_distance": rd, "got": got, "expect": expect})
                                elif len(samples) < 3 and expect:
                                    samples.append({"build": B, "query": Qp, "metric": metric, "r": r, "perm": list(perm), "pairs": got})
                        # an index built WITHOUT shuffling (the tree then sits on the very array _to_metric returned) and a
                        # history of queries on it: exactly as many points as the index holds (first thing after the build), all query points, and both again
                        idx0 = GEO.GeoIndex(blat, blon, metric=metric, tree_class=tree_class, shuffle=False)
                        for step, off, cnt in ((0, 1, nb), (1, 0, len(Qp)), (2, 1, nb), (3, 0, len(Qp))):
                            evals += 1
                            distinct.add((nb, start, metric, tree_class, r, "noshuffle", step))
                            ql, qn = qlat[off:off + cnt], qlon[off:off + cnt]
                            exp_s = sorted((i, j - off) for (i, j) in expect if off <= j < off + len(ql))
                            try:
                                pairs, dist = idx0.query(ql, qn, r, return_distance=True)
                                got = sorted(zip(pairs[0].tolist(), pairs[1].tolist())) if pairs.size else []
                                ok = got == exp_s and (not pairs.size or all(
                                    abs(dd - want[(int(a), int(b) + off)]) <= 1e-6 * max(1.0, want[(int(a), int(b) + off)]) + 1e-9
                                    for a, b, dd in zip(pairs[0], pairs[1], dist)))
                            except Exception as exc:
                                ok, got = False, "exception %r" % (exc,)
                            if not ok:
                                failures.append({"build": B, "query": [Qp[off + t] for t in range(len(ql))], "metric": metric, "tree": tree_class, "r": r,
                                                 "shuffle": False, "query_number_on_this_index": step + 1, "got": got, "expect": exp_s})
    return {"evaluations": evals, "distinct_nontrivial": len(distinct), "failures": failures[:5], "samples": samples}


@bounded(P, "unit-strings-real", "to_kilometers on real strings: every advertised unit x 14 number spellings accepted by float() (leading/trailing dot, sign, exponent, "
         "leading zeros and blanks, digit separator) x {'', ' ', '  ', tab} spacing")
def bounded_units(rng, tier):
    import fractions
    evals, failures, samples, distinct = 0, [], [], set()
    for unit, si in SI_KM.items():
        # every spelling float() accepts: leading dot, trailing dot, sign, exponent forms, leading zeros / blanks, digit separator
        for num in ("5", "3.5", "1e3", "0.25", ".5", "5.", "+2.5", "5e-1", "2.5E+2", ".25e1", "007", " 4", "1_0", "5.e1"):
            for sp in ("", " ", "  ", "\t"):
                s = "%s%s%s" % (num, sp, unit)
                want = float(num) * float(fractions.Fraction(si))
                evals += 1
                distinct.add(s)
                try:
                    got = GEO.to_kilometers(s)
                except Exception as exc:
                    failures.append({"string": s, "raised": repr(exc), "want_km": want})
                    continue
                if abs(got - want) > 1e-12 * max(1.0, abs(want)):
                    failures.append({"string": s, "got": got, "want_km": want})
                elif len(samples) < 3:
                    samples.append({"string": s, "km": got})
    for s in ("5 km", "5000 m", "3.10685596 mi"):
        evals += 1
        if abs(GEO.to_kilometers(s) - 5.0) > 1e-6:
            failures.append({"string": s, "got": GEO.to_kilometers(s), "want_km": 5.0})
    return {"evaluations": evals, "distinct_nontrivial": len(distinct), "failures": failures[:5], "samples": samples}
