"""Shared ghost for instants held by pandas.Timestamp / numpy.datetime64[ns]: a symbolic integer count of nanoseconds.

ASSUMED library contracts (listed in the evidence of the checks that use them):
  pandas.Timestamp(<int>) is the instant that many nanoseconds after the epoch; Timestamp +- Timedelta is exact;
  pandas.Timedelta(<timedelta>) is that timedelta; numpy.datetime64(<Timestamp>) compares with datetime64[ns] values by
  the nanosecond count.
"""
import numpy as _np
import pandas as _pd
from datetime import timedelta as _timedelta
from pyvc import sym as _sym
from pyvc.sym import Sym as _Sym
from pyvc.models import model as _model
from pyvc import timesym as _ts


def td_us(td):
    """a (symbolic or real) timedelta in microseconds"""
    if isinstance(td, _timedelta):
        return (td.days * 86400 + td.seconds) * 10**6 + td.microseconds
    return td.total_us


class NsTime:
    """an instant as a symbolic integer count of nanoseconds.  Ordered by the count; a (symbolic or real) timedelta --
    microsecond resolution -- is added exactly."""
    __pyvc_symbolic__ = True
    __pyvc_native__ = True

    def __init__(self, ns):
        self.ns = ns

    def _o(self, o):
        if isinstance(o, NsTime):
            return o.ns
        raise _sym.OutsideSubset("NsTime compared with %r" % (type(o).__name__,))

    def __lt__(self, o):
        return self.ns < self._o(o)

    def __le__(self, o):
        return self.ns <= self._o(o)

    def __gt__(self, o):
        return self.ns > self._o(o)

    def __ge__(self, o):
        return self.ns >= self._o(o)

    def __add__(self, td):
        return NsTime(self.ns + td_us(td) * 1000)

    def __sub__(self, td):
        return NsTime(self.ns - td_us(td) * 1000)

    def tz_localize(self, tz):
        return self

    def __str__(self):
        return "<instant>"          # (its spelling is not modelled)

    __repr__ = __str__


@_model(_pd.Timestamp)
def _pd_timestamp(interp, v=None, *a, **k):
    if isinstance(v, NsTime):
        return v
    if isinstance(v, _Sym):
        return NsTime(v)
    return _pd.Timestamp(v, *a, **k)


@_model(_pd.Timedelta)
def _pd_timedelta(interp, v=None, *a, **k):
    if isinstance(v, _ts.STimedelta):
        return v
    return _pd.Timedelta(v, *a, **k)


@_model(_np.datetime64)
def _np_datetime64(interp, v=None, *a):
    if isinstance(v, NsTime):
        return v.ns           # compared with the integer nanosecond counts of a datetime64[ns] array
    return _np.datetime64(v, *a) if v is not None else _np.datetime64()
