"""C04 -- Collocator.collocate finds exactly the point pairs within distance and interval (typhon/collocations/collocator.py).

What is under contract here are the numerical cores that collocate() is built from and that carry the property:
  * spatial_search (+ _choose_points_to_build_index, _build_spatial_index, _spatial_is_cached) for a Collocator with an
    ARBITRARY history (no cached index, or any well-formed cached GeoIndex built from either side), against the GeoIndex
    contracts of C06: exactly the pairs within max_distance, primary index first, each once, distances in km;
  * _temporal_check / _get_intervals on symbolic time stamps (integer nanoseconds): passed <=> |t1 - t2| < max_interval;
  * _to_original (index translation after NaN filtering) and to_timedelta for numeric thresholds.
The xarray / pandas glue of collocate() (_prepare_data, _flat_to_main_coord, _create_return) is NOT interpreted; it is
exercised end-to-end against a brute-force oracle in the bounded tier only.
"""
import numpy as _np
import z3 as _z3
from datetime import timedelta
from pyvc.dsl import *
from pyvc import sym as _sym
from pyvc.sym import Sym as _Sym, SArr as _SArr, lift as _lift
from pyvc.models import model as _model
from pyvc.contracts import fresh_array as _fa
import contracts.C06 as _c06
from contracts.C06 import coords, md, unit_km, index_invariant, STree
import typhon.geographical as GEO
from typhon.collocations.collocator import Collocator
from typhon.utils import timeutils as TU

P = "C04"
M = "typhon.collocations.collocator:"
NOT_DECIDED = [
    "the xarray / pandas glue of collocate(): common time window (_prepare_data), flattening of gridded data, NaN filtering, compaction "
    "in _create_return -- exercised only in the bounded tier against a brute-force oracle",
    "spatial_search_with_temporal_binning (needs > 10^6 candidate pairs; its per-bin search is spatial_search)",
    "great-circle vs chord threshold (C06/C07), float rounding at the thresholds (A2)",
]
ASSUMPTIONS = list(_c06.ASSUMPTIONS) + [
    "the tree metric is symmetric: d(p, q) == d(q, p)",
    "np.allclose(a, b): shapes broadcastable (else ValueError) and |a - b| <= 1e-8 + 1e-5 |b| element-wise; np.array_equal: same shape and equal elements",
    "time stamps are integer nanosecond counts; astype('timedelta64[s]') truncates a non-negative difference to whole seconds",
]
for _n in ("Collocator.spatial_search", "Collocator.no_pairs", "Collocator.no_distances", "Collocator._debug", "Collocator._temporal_check", "Collocator._get_intervals",
           "Collocator._to_original"):
    REG.inline_ok.add(M + _n)
METRIC = "minkowski"          # GeoIndex default, the one Collocator uses


def dkm(lat1, lon1, lat2, lon2, i, k):
    """distance in km between primary point i and secondary point k (the tree metric of C06 on both rows)"""
    return md(METRIC, coords(METRIC, lat1[i], lon1[i]), coords(METRIC, lat2[k], lon2[k])) * unit_km(METRIC)


def npairs(pairs):
    return pairs.shape[1] if pairs.ndim == 2 else 0


def sound(lat1, lon1, lat2, lon2, r, pairs):
    return forall(0, npairs(pairs), lambda j: 0 <= pairs[0, j] and pairs[0, j] < len(lat1) and 0 <= pairs[1, j] and pairs[1, j] < len(lat2)
                  and dkm(lat1, lon1, lat2, lon2, pairs[0, j], pairs[1, j]) <= r)


def complete(lat1, lon1, lat2, lon2, r, pairs):
    return forall(0, len(lat1), lambda i: forall(0, len(lat2), lambda k: implies(
        dkm(lat1, lon1, lat2, lon2, i, k) <= r, exists(0, npairs(pairs), lambda j: pairs[0, j] == i and pairs[1, j] == k))))


def once(pairs):
    n = npairs(pairs)
    return forall(0, n, lambda j: forall(0, n, lambda j2: implies(j != j2, not (pairs[0, j] == pairs[0, j2] and pairs[1, j] == pairs[1, j2]))))


def distances_km(lat1, lon1, lat2, lon2, pairs, dist):
    return len(dist) == npairs(pairs) and forall(0, npairs(pairs), lambda j: dist[j] == dkm(lat1, lon1, lat2, lon2, pairs[0, j], pairs[1, j]))


for _f in (dkm, npairs, sound, complete, once, distances_km):
    _f.__pyvc_thm__ = True
ENV = dict(dkm=dkm, npairs=npairs, sound=sound, complete=complete, once=once, distances_km=distances_km,
           index_invariant=index_invariant, coords=coords, md=md, unit_km=unit_km)


# ------------------------------------------------------------------ library models used by the cache test
@_model(_np.allclose)
def _np_allclose(interp, a, b, rtol=1e-5, atol=1e-8, **kw):
    from pyvc.models import to_sarr, deep_sym
    from pyvc.interp import PyRaise
    if not deep_sym(a) and not deep_sym(b):
        return _np.allclose(a, b, rtol=rtol, atol=atol, **kw)
    a, b = to_sarr(a), to_sarr(b)
    if a.ndim != 1 or b.ndim != 1:
        raise _sym.OutsideSubset("allclose of non 1-d symbolic arrays")
    na, nb = a.shape[0], b.shape[0]
    ctx = interp.ctx
    same = ctx.branch(_lift(na) == _lift(nb))
    if not same:
        if ctx.branch(_z3.And(_lift(na) != 1, _lift(nb) != 1)):
            raise PyRaise(ValueError("operands could not be broadcast together with shapes (%s,) (%s,)" % (na, nb)))
    q = _z3.Int(ctx.fresh_name("qa"))
    ctx.bound_depth = getattr(ctx, "bound_depth", 0) + 1
    try:
        if same:
            ai, bi, n = a.fn(_Sym(q)), b.fn(_Sym(q)), na
        elif ctx.branch(_lift(na) == 1):
            ai, bi, n = a.fn(0), b.fn(_Sym(q)), nb
        else:
            ai, bi, n = a.fn(_Sym(q)), b.fn(0), na
        d = _lift(abs(ai - bi))
        lim = _lift(atol + rtol * abs(bi))
    finally:
        ctx.bound_depth -= 1
    interp.trusted_used.add("model:np.allclose(a, b) <=> |a-b| <= atol + rtol |b| element-wise (broadcast 1-d), ValueError for incompatible shapes")
    return _Sym(_z3.ForAll([q], _z3.Implies(_z3.And(q >= 0, q < _lift(n)), d <= lim)))


@_model(_np.array_equal)
def _np_array_equal(interp, a, b, **kw):
    from pyvc.models import to_sarr, deep_sym
    if not deep_sym(a) and not deep_sym(b):
        return _np.array_equal(a, b, **kw)
    a, b = to_sarr(a), to_sarr(b)
    if a.ndim != b.ndim:
        return False
    if a.ndim != 1:
        raise _sym.OutsideSubset("array_equal of non 1-d symbolic arrays")
    ctx = interp.ctx
    q = _z3.Int(ctx.fresh_name("qa"))
    ctx.bound_depth = getattr(ctx, "bound_depth", 0) + 1
    try:
        eq = _lift(a.fn(_Sym(q))) == _lift(b.fn(_Sym(q)))
    finally:
        ctx.bound_depth -= 1
    interp.trusted_used.add("model:np.array_equal(a, b) <=> same shape and equal elements")
    return _Sym(_z3.And(_lift(a.shape[0]) == _lift(b.shape[0]),
                        _z3.ForAll([q], _z3.Implies(_z3.And(q >= 0, q < _lift(a.shape[0])), eq))))


# ------------------------------------------------------------------ spatial_search for an arbitrary history of the Collocator
def _setup_ss(ctx, cfg):
    n1, n2 = ctx.fresh("n1", "int"), ctx.fresh("n2", "int")
    ctx.assume(n1 >= 1)
    ctx.assume(n2 >= 1)
    self = object.__new__(Collocator)
    self.name, self.leaf_size, self.threads = "verif", 40, None
    mf = ctx.fresh("magnitude_factor", "int")
    ctx.assume(mf >= 1)
    self.magnitude_factor = mf
    if cfg["history"] == "fresh":
        self.index, self.index_with_primary = None, False
    else:
        nb = ctx.fresh("nb_cached", "int")
        ctx.assume(nb >= 1)
        idx = object.__new__(GEO.GeoIndex)
        idx.metric = METRIC
        idx.lat, idx.lon = _fa(ctx, "clat", (nb,)), _fa(ctx, "clon", (nb,))
        idx.shuffler = _fa(ctx, "cshuffler", (nb,), "int")
        idx.shuffler.ghost_inverse = _fa(ctx, "cshuffler_inv", (nb,), "int")
        idx.tree = STree(_fa(ctx, "cbuild", (nb, 3)), "Ball", METRIC)
        self.index = idx
        self.index_with_primary = cfg["history"] == "cached-primary"
    r = ctx.fresh("max_distance", "real")
    ctx.assume(r > 0)
    # the tree metric is symmetric (trusted fact about the Euclidean metric of sklearn's trees)
    p = [_z3.Real("p!%d" % i) for i in range(6)]
    f = _c06._MD[METRIC]
    ctx.assume(_z3.ForAll(p, f(*p) == f(*(p[3:] + p[:3]))))
    return dict(self=self, lat1=_fa(ctx, "lat1", (n1,)), lon1=_fa(ctx, "lon1", (n1,)), lat2=_fa(ctx, "lat2", (n2,)),
                lon2=_fa(ctx, "lon2", (n2,)), max_distance=r)


def cached_ok(self):
    """class invariant of a Collocator between calls: no index, or a well-formed GeoIndex (of whatever points)"""
    return True if self.index is None else index_invariant(self.index, self.index.lat, self.index.lon)


cached_ok.__pyvc_thm__ = True
ENV["cached_ok"] = cached_ok


def same_points(index, lat, lon):
    """the index was built from exactly these points"""
    return (len(index.lat) == len(lat) and len(index.lon) == len(lon)
            and forall(0, len(lat), lambda i: index.lat[i] == lat[i] and index.lon[i] == lon[i]))


same_points.__pyvc_thm__ = True
ENV["same_points"] = same_points


def _setup_helper(ctx, cfg):
    d = _setup_ss(ctx, cfg)
    return dict(self=d["self"], lat=d["lat1"], lon=d["lon1"])


_HIST = [{"history": h} for h in ("fresh", "cached-primary", "cached-secondary")]
# the cache test may only say yes if the cached index was built from exactly the points it is asked about
c_cached = contract(M + "Collocator._spatial_is_cached", prop=P, setup=_setup_helper, pure=False, env=ENV, configs=_HIST,
                    result="bool",
                    requires=["cached_ok(self)", "len(lat) == len(lon)"],
                    ensures=["implies(result, self.index is not None and same_points(self.index, lat, lon))"])


def _build_effects(interp, env):
    pass


def _build_result(ctx, env):
    n = env["lat"].shape[0]
    idx = object.__new__(GEO.GeoIndex)
    idx.metric = METRIC
    idx.lat, idx.lon = _fa(ctx, "ilat", (n,)), _fa(ctx, "ilon", (n,))
    idx.shuffler = _fa(ctx, "ishuffler", (n,), "int")
    idx.shuffler.ghost_inverse = _fa(ctx, "ishuffler_inv", (n,), "int")
    idx.tree = STree(_fa(ctx, "ibuild", (n, 3)), "Ball", METRIC)
    return idx


c_build = contract(M + "Collocator._build_spatial_index", prop=P, setup=_setup_helper, pure=False, env=ENV, configs=_HIST,
                   result=_build_result,
                   requires=["cached_ok(self)", "len(lat) == len(lon)", "len(lat) >= 1"],
                   ensures=["result.metric == 'minkowski'",
                            "same_points(result, lat, lon)",
                            "index_invariant(result, result.lat, result.lon)"])


def _setup_choose(ctx, cfg):
    d = _setup_ss(ctx, cfg)
    return dict(self=d["self"], primary=[d["lat1"], d["lon1"]], secondary=[d["lat2"], d["lon2"]])


# which side the tree is built from is a pure performance decision: any answer is acceptable, but it must be a bool and
# must not raise
c_choose = contract(M + "Collocator._choose_points_to_build_index", prop=P, setup=_setup_choose, pure=False, env=ENV, configs=_HIST,
                    result="bool",
                    requires=["cached_ok(self)", "len(primary[0]) == len(primary[1])", "len(secondary[0]) == len(secondary[1])"],
                    ensures=["result == True or result == False"])


# ------------------------------------------------------------------ spatial_search as the property states it, for every history
def _thm_ss(history):
    @theorem(P, "spatial-search[%s]" % history)
    def thm():
        ctx = _sym.ctx()
        d = _setup_ss(ctx, {"history": history})
        self, lat1, lon1, lat2, lon2, r = d["self"], d["lat1"], d["lon1"], d["lat2"], d["lon2"], d["max_distance"]
        requires(cached_ok(self))
        pairs, dist = self.spatial_search(lat1, lon1, lat2, lon2, r)
        n = npairs(pairs)
        index = self.index
        ensures(cached_ok(self), id="the Collocator is left with a well-formed cached index")
        # an ARBITRARY primary point i and secondary point k (fresh constants: universally quantified)
        i, k = fresh("i", "int"), fresh("k", "int")
        requires(0 <= i, i < len(lat1), 0 <= k, k < len(lat2))
        b = i if self.index_with_primary else k           # the build-side index of the pair, the other is the query side
        p = index.shuffler.ghost_inverse[b]
        assume(_c06.orig(index, p) == _c06.orig(index, p))      # (introduces the term; no content)
        ensures(_c06.orig(index, p) == b, id="step: every build index is some tree position (the shuffler is a bijection)")
        ensures(implies(dkm(lat1, lon1, lat2, lon2, i, k) <= r, exists(0, n, lambda j: pairs[0, j] == i and pairs[1, j] == k)),
                id="every pair within max_distance is reported, primary index first")
        j, j2 = fresh("j", "int"), fresh("j2", "int")
        requires(0 <= j, j < n, 0 <= j2, j2 < n, j != j2)
        ensures(0 <= pairs[0, j], pairs[0, j] < len(lat1), 0 <= pairs[1, j], pairs[1, j] < len(lat2),
                id="indices refer to the primary / secondary arrays as passed in")
        ensures(dkm(lat1, lon1, lat2, lon2, pairs[0, j], pairs[1, j]) <= r, id="nothing beyond max_distance is reported")
        ensures(not (pairs[0, j] == pairs[0, j2] and pairs[1, j] == pairs[1, j2]), id="each pair once")
        ensures(dist[j] == dkm(lat1, lon1, lat2, lon2, pairs[0, j], pairs[1, j]), id="distance of each pair in km")
    return thm


for _h in ("fresh", "cached-primary", "cached-secondary"):
    _thm_ss(_h)


# ------------------------------------------------------------------ temporal check on the spatial candidates
from pyvc import timesym as _ts      # noqa: E402


@_model(_np.timedelta64)
def _np_timedelta64(interp, v=0, *a):
    """np.timedelta64(<timedelta>) is that timedelta (microsecond resolution)"""
    if isinstance(v, (_ts.STimedelta, timedelta)) and not a:
        return v
    if _sym.deep_sym(v):
        raise _sym.OutsideSubset("np.timedelta64 of a symbolic number")
    return _np.timedelta64(v, *a)


def _setup_tc(ctx, cfg):
    n = ctx.fresh("n", "int")
    ctx.assume(n >= 0)
    self = object.__new__(Collocator)
    t1, t2 = _fa(ctx, "t1_ns", (n,), "int"), _fa(ctx, "t2_ns", (n,), "int")
    t1.time_unit = t2.time_unit = "ns"            # datetime64[ns] values as integer nanosecond counts
    mi = _ts.STimedelta(ctx.fresh("max_interval_us", "int"))
    ctx.assume(mi.total_us >= 0)
    return dict(self=self, primary_time=t1, secondary_time=t2, max_interval=mi)


def abs_dt_ns(t1, t2, j):
    """|t1[j] - t2[j]| in nanoseconds (symbolic integer counts, or real datetime64[ns] values in a replay)"""
    if isinstance(t1, _np.ndarray):
        return abs(int(t1[j].astype("datetime64[ns]").astype("int64")) - int(t2[j].astype("datetime64[ns]").astype("int64")))
    return abs(t1[j] - t2[j])


def td_us(td):
    """a (symbolic or real) timedelta in microseconds"""
    if isinstance(td, timedelta):
        return (td.days * 86400 + td.seconds) * 10**6 + td.microseconds
    return td.total_us


def secs(v):
    """a stored interval (timedelta64[s] in a replay, integer second count symbolically) as a number of seconds"""
    if isinstance(v, _np.timedelta64):
        return int(v.astype("timedelta64[s]").astype("int64"))
    return v


abs_dt_ns.__pyvc_native__ = True
td_us.__pyvc_native__ = True
secs.__pyvc_native__ = True
ENV.update(abs_dt_ns=abs_dt_ns, td_us=td_us, secs=secs)
c_tc = contract(M + "Collocator._temporal_check", prop=P, setup=_setup_tc, pure=False, env=ENV,
                result=lambda ctx, env: (_fa(ctx, "passed", env["primary_time"].shape, "bool"), _fa(ctx, "intervals", (ctx.fresh("npassed", "int"),), "int")),
                ensures=[
                    # a candidate passes exactly if its time difference is SMALLER than max_interval (compared exactly, in ns)
                    "forall(0, len(primary_time), lambda j: result[0][j] == (abs_dt_ns(primary_time, secondary_time, j) < td_us(max_interval) * 1000))",
                ],
                canaries=["forall(0, len(primary_time), lambda j: result[0][j])"])


# the stored interval of a pair is its |dt| in whole seconds (the property's 'actual |dt| in seconds' read leniently)
def _setup_gi(ctx, cfg):
    d = _setup_tc(ctx, cfg)
    return dict(time1=d["primary_time"], time2=d["secondary_time"])


def _gi_result(ctx, env):
    a = _fa(ctx, "intervals", env["time1"].shape, "int")
    a.time_unit = "s"
    return a


c_gi = contract(M + "Collocator._get_intervals", prop=P, setup=_setup_gi, pure=False, env=ENV, result=_gi_result,
                ensures=["forall(0, len(time1), lambda j: secs(result[j]) * 10**9 <= abs_dt_ns(time1, time2, j) and abs_dt_ns(time1, time2, j) < (secs(result[j]) + 1) * 10**9)"])


def _time_sampler(rng):
    n = rng.randint(0, 5)
    base = _np.datetime64("2020-01-01T00:00:00", "ns")
    t1 = _np.array([base + _np.timedelta64(rng.randint(0, 5 * 10**9), "ns") for _ in range(n)], dtype="datetime64[ns]")
    t2 = _np.array([x + _np.timedelta64(rng.choice([-1, 1]) * rng.choice([0, 999999999, 1500000000, 1900000000, 10**9, rng.randint(0, 3 * 10**9)]), "ns")
                    for x in t1], dtype="datetime64[ns]")
    return t1, t2


def _tc_sampler(rng):
    t1, t2 = _time_sampler(rng)
    return dict(self=object.__new__(Collocator), primary_time=t1, secondary_time=t2,
                max_interval=timedelta(microseconds=rng.choice([0, 999999, 10**6, 1500000, 2 * 10**6, rng.randint(0, 3 * 10**6)])))


def _gi_sampler(rng):
    t1, t2 = _time_sampler(rng)
    return dict(time1=t1, time2=t2)


c_tc.sampler = _tc_sampler
c_gi.sampler = _gi_sampler


# ------------------------------------------------------------------ common time window (_get_common_time_period)
import pandas as _pd      # noqa: E402


from contracts.pdghost import NsTime      # noqa: E402  (pandas.Timestamp / Timedelta, numpy.datetime64 on symbolic instants)


class GhostTimeVar:
    """the `time` variable of a dataset, one-dimensional along `dim`.  ASSUMED xarray contract: `.values` are its
    values; `.where(mask)` keeps the values where mask holds and puts NaT elsewhere; `.dropna(dim)` of that keeps exactly
    the elements where mask holds, in their order (the time stamps themselves are never NaT)."""
    __pyvc_symbolic__ = True
    __pyvc_native__ = True

    def __init__(self, values, dim="obs", keep=None):
        self.values, self.dims, self.keep = values, (dim,), keep

    def where(self, mask):
        return GhostTimeVar(self.values, self.dims[0], keep=mask)

    def dropna(self, dim):
        if dim != self.dims[0]:
            raise ValueError("no dimension %r" % (dim,))
        return self


class GhostDataset:
    __pyvc_symbolic__ = True
    __pyvc_native__ = True

    def __init__(self, time):
        self.time = time


REG.inline_ok.add(M + "Collocator._get_common_time_period")
ASSUMPTIONS.append("xarray: DataArray.where(mask).dropna(dim) of a one-dimensional time variable keeps exactly the elements where mask holds; "
                   "pandas.Timestamp(<int>) is that many ns after the epoch, Timestamp +- Timedelta is exact; numpy min/max of a non-empty "
                   "vector bound every element and are attained")


def _window_setup():
    ctx = _sym.ctx()
    n1, n2 = fresh("n1", "int"), fresh("n2", "int")
    requires(n1 >= 1, n2 >= 1)
    t1, t2 = _fa(ctx, "t1_ns", (n1,), "int"), _fa(ctx, "t2_ns", (n2,), "int")
    t1.time_unit = t2.time_unit = "ns"
    mi = _ts.STimedelta(fresh("max_interval_us", "int"))
    requires(mi.total_us >= 0)
    start, end = NsTime(fresh("start_ns", "int")), NsTime(fresh("end_ns", "int"))
    pp, sp = Collocator._get_common_time_period(GhostDataset(GhostTimeVar(t1)), GhostDataset(GhostTimeVar(t2)), mi, start, end)
    i, j = fresh("i", "int"), fresh("j", "int")
    requires(0 <= i, i < n1, 0 <= j, j < n2)
    return t1, t2, mi, start, end, pp, sp, i, j


_window_setup.__pyvc_thm__ = True


@theorem(P, "common-time-window-CANARY", canary=True)
def thm_window_canary():
    t1, t2, mi, start, end, pp, sp, i, j = _window_setup()
    ensures(implies(start.ns <= t1[i] and t1[i] <= end.ns, pp.keep[i]),
            id="CANARY: every primary point within [start, end] is kept, partner or not (must fail)")


@theorem(P, "common-time-window")
def thm_window():
    """_get_common_time_period: the selection keeps no point outside [start, end] and loses no point that has a partner:
    whenever t1[i] and t2[j] both lie in [start, end] and |t1[i] - t2[j]| < max_interval, both i and j are kept."""
    ctx = _sym.ctx()
    n1, n2 = fresh("n1", "int"), fresh("n2", "int")
    requires(n1 >= 1, n2 >= 1)
    t1, t2 = _fa(ctx, "t1_ns", (n1,), "int"), _fa(ctx, "t2_ns", (n2,), "int")
    t1.time_unit = t2.time_unit = "ns"
    mi = _ts.STimedelta(fresh("max_interval_us", "int"))
    requires(mi.total_us >= 0)
    start, end = NsTime(fresh("start_ns", "int")), NsTime(fresh("end_ns", "int"))
    pp, sp = Collocator._get_common_time_period(GhostDataset(GhostTimeVar(t1)), GhostDataset(GhostTimeVar(t2)), mi, start, end)
    i, j = fresh("i", "int"), fresh("j", "int")
    requires(0 <= i, i < n1, 0 <= j, j < n2)
    in1 = start.ns <= t1[i] and t1[i] <= end.ns
    in2 = start.ns <= t2[j] and t2[j] <= end.ns
    ensures(implies(pp.keep[i], in1), id="a kept primary point lies within [start, end]")
    ensures(implies(sp.keep[j], in2), id="a kept secondary point lies within [start, end]")
    close = abs(t1[i] - t2[j]) < mi.total_us * 1000
    ensures(implies(in1 and in2 and close, pp.keep[i] and sp.keep[j]),
            id="both points of a pair within [start, end] and closer than max_interval are kept")


# ------------------------------------------------------------------ index translation after the NaN filter
def _setup_to(ctx, cfg):
    n, n1, n2 = ctx.fresh("npairs", "int"), ctx.fresh("n1", "int"), ctx.fresh("n2", "int")
    for _c in (n >= 0, n1 >= 1, n2 >= 1):
        ctx.assume(_c)
    return dict(pairs=_fa(ctx, "pairs", (2, n), "int"), original_indices=[_fa(ctx, "orig1", (n1,), "int"), _fa(ctx, "orig2", (n2,), "int")])


c_to = contract(M + "Collocator._to_original", prop=P, setup=_setup_to, pure=False, env=ENV,
                result=lambda ctx, env: _fa(ctx, "opairs", env["pairs"].shape, "int"),
                requires=["forall(0, npairs(pairs), lambda j: 0 <= pairs[0, j] and pairs[0, j] < len(original_indices[0]) "
                          "and 0 <= pairs[1, j] and pairs[1, j] < len(original_indices[1]))"],
                ensures=["npairs(result) == npairs(pairs)",
                         "forall(0, npairs(pairs), lambda j: result[0, j] == original_indices[0][pairs[0, j]] and result[1, j] == original_indices[1][pairs[1, j]])"])


# ------------------------------------------------------------------ numeric thresholds
def _setup_td(ctx, cfg):
    x = ctx.fresh("x", cfg["kind"])
    ctx.assume(x >= 0)
    ctx.assume(x <= 10**9)
    return dict(obj=x, numbers_as="seconds")


c_td = contract("typhon.utils.timeutils:to_timedelta", prop=P, setup=_setup_td, pure=False, env=ENV,
                configs=[{"kind": "int"}, {"kind": "real"}],
                result=lambda ctx, env: _ts.STimedelta(ctx.fresh("td_us", "int")),
                ensures=[
                    # a number means that many seconds -- to the microsecond (timedelta's own resolution), not to the second
                    "td_us(result) - obj * 10**6 <= 1 / 2 and obj * 10**6 - td_us(result) <= 1 / 2",
                ])
c_td.sampler = lambda rng: dict(obj=rng.choice([0, 1, 2, 1.5, 1.95, 0.25, 1e-6, 86400.5, rng.uniform(0, 100), rng.randint(0, 10**6)]), numbers_as="seconds")


# ------------------------------------------------------------------ bounded: collocate() end to end against a brute-force search
def _mk_dataset(nprng, rng, n, centre, spread_deg, t0, span_s, nan_share, grid=False):
    import xarray as xr
    lat = _np.clip(centre[0] + nprng.normal(size=n) * spread_deg, -90, 90)
    lon = ((centre[1] + nprng.normal(size=n) * spread_deg / max(0.05, _np.cos(_np.radians(min(89.0, abs(centre[0])))))) + 180) % 360 - 180
    if n > 2 and rng.random() < 0.5:
        lat[1], lon[1] = lat[0], lon[0]                               # duplicate position
    t = t0 + (nprng.uniform(0, span_s, size=n) * 1e9).astype("int64").astype("timedelta64[ns]")
    if n > 2 and rng.random() < 0.5:
        t[2] = t[0]                                                    # duplicate time
    for k in range(n):
        if rng.random() < nan_share:
            (lat if rng.random() < 0.5 else lon)[k] = _np.nan
    return xr.Dataset({"lat": ("collocation", lat), "lon": ("collocation", lon), "time": ("collocation", t.astype("datetime64[ns]")),
                       "id": ("collocation", _np.arange(n)), "value": ("collocation", nprng.normal(size=n))},
                      coords={"collocation": nprng.permutation(n) * 3 + 7})


def _mk_gridded(nprng, rng, n_lines, n_pos, centre, spread_deg, t0, span_s, nan_share):
    """a swath: time per scan line, lat / lon / id per (scan line, scan position); both dimensions uniquely labelled"""
    import xarray as xr
    lat = _np.clip(centre[0] + nprng.normal(size=(n_lines, n_pos)) * spread_deg, -90, 90)
    lon = ((centre[1] + nprng.normal(size=(n_lines, n_pos)) * spread_deg / max(0.05, _np.cos(_np.radians(min(89.0, abs(centre[0])))))) + 180) % 360 - 180
    for k in range(n_lines):
        for q in range(n_pos):
            if rng.random() < nan_share:
                lat[k, q] = _np.nan
    t = t0 + (nprng.uniform(0, span_s, size=n_lines) * 1e9).astype("int64").astype("timedelta64[ns]")
    # (the names of the two dimensions are the user's: typhon's own, and pairs that sort the other way round)
    dl, dp = rng.choice(GRID_DIMS)
    return xr.Dataset({"lat": ((dl, dp), lat), "lon": ((dl, dp), lon), "time": (dl, t.astype("datetime64[ns]")),
                       "id": ((dl, dp), _np.arange(n_lines * n_pos).reshape(n_lines, n_pos))},
                      coords={dl: nprng.permutation(n_lines) * 2 + 11, dp: _np.arange(n_pos) + 1})


GRID_DIMS = [("scnline", "scnpos"), ("scanline", "pixel"), ("along_track", "across_track"), ("y", "x")]


def _flat(ds):
    """(lat, lon, time_ns, id) as flat arrays, whatever the structure of the dataset"""
    if ds.lat.ndim == 1:
        return ds.lat.values, ds.lon.values, ds.time.values.astype("datetime64[ns]").astype("int64"), ds.id.values
    n_l, n_p = ds.lat.shape
    tt = _np.repeat(ds.time.values.astype("datetime64[ns]").astype("int64"), n_p)
    return ds.lat.values.ravel(), ds.lon.values.ravel(), tt, ds.id.values.ravel()


def _brute(a, b, max_km, max_interval_ns, start, end):
    from typhon.constants import earth_radius
    R = earth_radius / 1000.0

    def unit(lat, lon):
        la, lo = _np.radians(lat), _np.radians(lon)
        return _np.stack([_np.cos(la) * _np.cos(lo), _np.cos(la) * _np.sin(lo), _np.sin(la)], axis=1)
    la_a, lo_a, ta, ida = _flat(a)
    la_b, lo_b, tb, idb = _flat(b)
    ua, ub = unit(la_a, lo_a), unit(la_b, lo_b)
    out = {}
    for i in range(len(ta)):
        if _np.isnan(ua[i]).any() or not (start <= ta[i] <= end):
            continue
        for j in range(len(tb)):
            if _np.isnan(ub[j]).any() or not (start <= tb[j] <= end):
                continue
            d = R * float(_np.sqrt(((ua[i] - ub[j]) ** 2).sum()))
            dt = abs(int(ta[i]) - int(tb[j]))
            out[(int(ida[i]), int(idb[j]))] = (d, dt, d <= max_km and dt < max_interval_ns)       # keyed by the carried ids
    return out


@bounded(P, "collocate-vs-brute-force", "collocate() on real xarray datasets (1..40 points each, labelled dimension, NaN positions, duplicate "
         "times / positions, unsorted times, equator / pole / date line, thresholds as numbers, strings and timedeltas, optional start/end, "
         "tuning parameters, swapped roles, a reused Collocator) against an O(n*m) search with an independent 3-d chord distance; pairs "
         "within 1e-6 relative of a threshold are not judged; 40 (quick) / 400 (thorough) dataset pairs")
def bounded_collocate(rng, tier):
    import warnings
    import pandas as pd
    rounds = 40 if tier == "quick" else 400
    evals, failures, samples, distinct = 0, [], [], set()
    reused = Collocator()
    t0 = _np.datetime64("2020-03-01T12:00:00", "ns")
    for r in range(rounds):
        nprng = _np.random.RandomState(rng.randint(0, 2**31 - 1))
        n1, n2 = rng.choice([1, 2, 3, 8, 40]), rng.choice([1, 2, 3, 8, 40])
        centre = rng.choice([(0.0, 10.0), (52.0, 10.0), (89.7, 0.0), (-30.0, 179.9), (10.0, -179.95)])
        spread = rng.choice([0.0005, 0.02, 0.2])          # (0.0005 deg: every point collocates with every other -- all stored, found unsorted)
        if rng.random() < 0.3:            # a gridded swath as primary (flattened by _flat_to_main_coord)
            a = _mk_gridded(nprng, rng, rng.choice([1, 2, 5]), rng.choice([1, 3, 4]), centre, spread, t0, 120.0, 0.1)
        else:
            a = _mk_dataset(nprng, rng, n1, centre, spread, t0, 120.0, 0.1)
        b = _mk_dataset(nprng, rng, n2, centre, spread, t0, 120.0, 0.1)
        km = rng.choice([1.0, 5.0, 20.0])
        secs_ = rng.choice([0.5, 1.5, 10, 45.25, 300])
        mi = rng.choice([secs_, "%d milliseconds" % int(secs_ * 1000), timedelta(seconds=secs_)])
        md_ = rng.choice([km, "%g km" % km, "%g m" % (km * 1000)])
        start_ns, end_ns = -2**62, 2**62
        kw = {}
        if rng.random() < 0.3:
            s_, e_ = t0 + _np.timedelta64(20, "s"), t0 + _np.timedelta64(100, "s")
            kw = {"start": pd.Timestamp(s_).to_pydatetime(), "end": pd.Timestamp(e_).to_pydatetime()}
            start_ns, end_ns = int(s_.astype("int64")), int(e_.astype("int64"))
        if rng.random() < 0.5:
            kw.update(bin_factor=rng.choice([1, 2]), magnitude_factor=rng.choice([1, 10]), leaf_size=rng.choice([2, 40]))
        truth = _brute(a, b, km, int(secs_ * 1e9), start_ns, end_ns)
        want = {k for k, v in truth.items() if v[2]}
        edge = {k for k, v in truth.items() if abs(v[0] - km) <= 1e-6 * km or abs(v[1] - int(secs_ * 1e9)) <= 1000}
        for variant in ("fresh", "reused", "swapped"):
            evals += 1
            distinct.add((r, variant))
            case = {"round": r, "variant": variant, "n1": n1, "n2": n2, "centre": list(centre), "max_distance": md_, "max_interval": repr(mi), "kw": sorted(kw)}
            try:
                with warnings.catch_warnings():
                    warnings.simplefilter("ignore")
                    c = reused if variant == "reused" else Collocator()
                    res = c.collocate(b, a, max_distance=md_, max_interval=mi, **kw) if variant == "swapped" \
                        else c.collocate(a, b, max_distance=md_, max_interval=mi, **kw)
            except Exception as exc:
                failures.append(dict(case, problem="exception %r" % (exc,)))
                continue
            got, bad = [], []
            if res is not None:
                p = res["Collocations/pairs"].values
                g1, g2 = ("secondary", "primary") if variant == "swapped" else ("primary", "secondary")
                ids1 = res[g1 + "/id"].values[p[1 if variant == "swapped" else 0]]
                ids2 = res[g2 + "/id"].values[p[0 if variant == "swapped" else 1]]
                got = list(zip(ids1.tolist(), ids2.tolist()))
                dist, itv = res["Collocations/distance"].values, res["Collocations/interval"].values
                for q, key in enumerate(got):
                    d_true, dt_true, _ok = truth.get(key, (None, None, False))
                    if d_true is not None and (abs(dist[q] - d_true) > 1e-6 * (1 + d_true) or int(itv[q].astype("timedelta64[s]").astype("int64")) != dt_true // 10**9):
                        bad.append((key, float(dist[q]), d_true, str(itv[q]), dt_true))
                n_stored = (res[g1 + "/id"].size, res[g2 + "/id"].size)
                ids1, ids2 = _np.asarray(ids1).astype("int64"), _np.asarray(ids2).astype("int64")
                if len(set(ids1.tolist())) != n_stored[0] or len(set(ids2.tolist())) != n_stored[1]:
                    bad.append(("a stored point takes part in no pair", n_stored))
            problems = []
            if len(got) != len(set(got)):
                problems.append("a pair is reported twice")
            if (set(got) - edge) != (want - edge):
                problems.append("pairs differ from the brute-force search: missing %s, extra %s"
                                % (sorted((want - edge) - set(got))[:4], sorted((set(got) - edge) - want)[:4]))
            if bad:
                problems.append("stored distance / interval / points wrong: %s" % (bad[:2],))
            if res is None and (want - edge):
                problems.append("None although collocations exist")
            if problems:
                failures.append(dict(case, problem="; ".join(problems)))
            elif len(samples) < 3 and want:
                samples.append(dict(case, pairs=len(want)))
    return {"evaluations": evals, "distinct_nontrivial": len(distinct), "failures": failures[:5], "samples": samples}


@bounded(P, "prebinned-path-vs-brute-force", "the temporally pre-binned path of collocate() (more than 10^6 candidate pairs: 1100 x 1000 and "
         "1000 x 1100 points; every third pair has a gridded primary -- 110 or 100 scan lines x 10 positions -- with user-named dimensions) with time stamps on a whole-minute raster (many points exactly on bin edges and exactly max_interval before "
         "them), bin_factor in {0.5, 1, 2}, both size orderings; oracle: vectorised O(n*m) search; 3 (quick) / 12 (thorough) dataset pairs")
def bounded_prebinned(rng, tier):
    import warnings
    import xarray as xr
    from typhon.constants import earth_radius
    rounds = 3 if tier == "quick" else 12
    evals, failures, samples, distinct = 0, [], [], set()
    R = earth_radius / 1000.0
    t0 = _np.datetime64("2020-03-01T00:00:00", "ns")

    def mk(nprng, n, raster_s, grid=None):
        lat = 50 + nprng.normal(size=n) * 0.6
        lon = 10 + nprng.normal(size=n) * 0.9
        if grid is not None:
            # a swath of n / 10 scan lines x 10 positions (time per scan line), dimensions named by the user
            dl, dp = grid
            nl = n // 10
            t = t0 + (nprng.randint(0, 3 * 3600 // raster_s, size=nl) * raster_s).astype("timedelta64[s]")
            return xr.Dataset({"lat": ((dl, dp), lat.reshape(nl, 10)), "lon": ((dl, dp), lon.reshape(nl, 10)), "time": (dl, t.astype("datetime64[ns]")),
                               "id": ((dl, dp), _np.arange(n).reshape(nl, 10))}, coords={dl: _np.arange(nl), dp: _np.arange(10)})
        t = t0 + (nprng.randint(0, 3 * 3600 // raster_s, size=n) * raster_s).astype("timedelta64[s]")
        return xr.Dataset({"lat": ("collocation", lat), "lon": ("collocation", lon), "time": ("collocation", t.astype("datetime64[ns]")),
                           "id": ("collocation", _np.arange(n))}, coords={"collocation": _np.arange(n)})

    def unit(ds):
        la, lo = _np.radians(ds.lat.values.ravel()), _np.radians(ds.lon.values.ravel())
        return _np.stack([_np.cos(la) * _np.cos(lo), _np.cos(la) * _np.sin(lo), _np.sin(la)], axis=1)

    def times(ds):
        tt = ds.time.values.astype("int64")
        return tt if ds.lat.ndim == 1 else _np.repeat(tt, ds.lat.shape[1])
    for r in range(rounds):
        nprng = _np.random.RandomState(rng.randint(0, 2**31 - 1))
        n1, n2 = (1100, 1000) if r % 2 == 0 else (1000, 1100)
        raster = rng.choice([60, 300])
        grid = GRID_DIMS[1 + (r // 3) % (len(GRID_DIMS) - 1)] if r % 3 == 1 else None     # every third pair: a gridded primary
        a, b = mk(nprng, n1, raster, grid), mk(nprng, n2, raster)
        minutes = rng.choice([5, 10])
        km = 3.0
        bf = rng.choice([0.5, 1, 2])
        ua, ub = unit(a), unit(b)
        d = R * _np.sqrt(((ua[:, None, :] - ub[None, :, :]) ** 2).sum(axis=2))
        dt = _np.abs(times(a)[:, None] - times(b)[None, :])
        ok = (d <= km) & (dt < minutes * 60 * 10**9)
        edge = (_np.abs(d - km) <= 1e-6 * km)
        want = {(int(i), int(j)) for i, j in zip(*_np.nonzero(ok & ~edge))}
        skip = {(int(i), int(j)) for i, j in zip(*_np.nonzero(edge))}
        evals += 1
        distinct.add((r, n1, n2, raster, minutes, bf))
        case = {"round": r, "n1": n1, "n2": n2, "raster_s": raster, "max_interval": "%d min" % minutes, "bin_factor": bf, "true_pairs": len(want),
                "primary_dims": list(grid) if grid else ["collocation"]}
        try:
            with warnings.catch_warnings():
                warnings.simplefilter("ignore")
                res = Collocator().collocate(a, b, max_distance=km, max_interval="%d min" % minutes, bin_factor=bf)
        except Exception as exc:
            failures.append(dict(case, problem="exception %r" % (exc,)))
            continue
        got = []
        if res is not None:
            p = res["Collocations/pairs"].values
            got = list(zip(res["primary/id"].values[p[0]].tolist(), res["secondary/id"].values[p[1]].tolist()))
            dist = res["Collocations/distance"].values
            wrong = [(k, float(dist[q]), float(d[k])) for q, k in enumerate(got) if abs(dist[q] - d[k]) > 1e-6 * (1 + d[k])]
        else:
            wrong = []
        problems = []
        if len(got) != len(set(got)):
            problems.append("a pair is reported twice")
        if (set(got) - skip) != want:
            problems.append("pairs differ from the brute-force search: %d missing, %d extra (e.g. %s / %s)"
                            % (len(want - set(got)), len((set(got) - skip) - want), sorted(want - set(got))[:2], sorted((set(got) - skip) - want)[:2]))
        if wrong:
            problems.append("stored distances belong to other pairs: %s" % (wrong[:2],))
        if problems:
            failures.append(dict(case, problem="; ".join(problems)))
        elif len(samples) < 3:
            samples.append(case)
    return {"evaluations": evals, "distinct_nontrivial": len(distinct), "failures": failures[:5], "samples": samples}
