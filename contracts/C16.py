"""C16 -- indexing a fileset by a timestamp: covering file first, else the nearest one (typhon/files/fileset.py).

find_closest and __getitem__ are executed symbolically on a ghost file system (as for C01: files with symbolic
coverage, named by the real get_filename); find() is inlined together with everything below it.
"""
from datetime import datetime, timedelta
from pyvc.dsl import *
from contracts.ghostfs import GhostFS
from contracts import C01 as _c01, C02 as _c02
from typhon.files.fileset import FileSet, NoFilesError

P = "C16"
M = "typhon.files.fileset:"
NOT_DECIDED = ["populations of more than 2 files in one symbolic run", "the read() behind fileset[t] (handlers: C11)"]
ASSUMPTIONS = list(_c01.ASSUMPTIONS) + ["np.min / np.argmin / np.abs on the small object array of time differences: minimum with first-occurrence ties"]
REG.inline_ok.add(M + "FileSet.find_closest")
_dt = _c02._fresh_dt
FLAT = "/data/{year}{month}{day}T{hour}{minute}-{end_year}{end_month}{end_day}T{end_hour}{end_minute}.nc"
DIRS = "/data/{year}/{month}/{day}/{hour}{minute}-{end_hour}{end_minute}.nc"


def _dist(f, t):
    a, b = abs(f.times[0] - t), abs(f.times[1] - t)
    return a if a <= b else b


@theorem(P, "closest-of-two[flat]", a0=_dt("a0", 2), a1=_dt("a1", 2), b0=_dt("b0", 2), b1=_dt("b1", 2), t=_dt("t", 2))
def thm_two(a0, a1, b0, b1, t):
    requires(a0 <= a1, b0 <= b1, a0.year >= 1000, a1.year >= 1000, b0.year >= 1000, b1.year >= 1000, t.year >= 1000)
    requires(a0 != b0 or a1 != b1)
    fs = FileSet(path=FLAT, name="verif")
    na, nb = fs.get_filename((a0, a1)), fs.get_filename((b0, b1))
    fs.file_system = GhostFS([na, nb])
    got = fs.find_closest(t)
    covers_a = a0 <= t and t <= a1
    covers_b = b0 <= t and t <= b1
    ensures(got.path == na or got.path == nb, id="one of the files of the fileset")
    is_a = got.path == na
    g0 = a0 if is_a else b0
    g1 = a1 if is_a else b1
    if covers_a or covers_b:
        ensures(g0 <= t and t <= g1, id="a covering file exists: the answer covers t")
    else:
        da = abs(a0 - t) if abs(a0 - t) <= abs(a1 - t) else abs(a1 - t)
        db = abs(b0 - t) if abs(b0 - t) <= abs(b1 - t) else abs(b1 - t)
        dg = da if is_a else db
        ensures(dg <= da and dg <= db, id="no covering file: min(|t0 - t|, |t1 - t|) is minimal")


@theorem(P, "window-and-absence[dirs]", t0=_dt("t0", 2), t1=_dt("t1", 2), t=_dt("t", 2))
def thm_window(t0, t1, t):
    requires(t0 <= t1, t1 - t0 < timedelta(days=1), t0.year >= 1000, t1.year >= 1000, t.year >= 1000)
    requires(datetime(9999, 12, 30) - t >= timedelta(0), t - datetime(1000, 1, 2) >= timedelta(0))
    fs = FileSet(path=DIRS, name="verif")
    name = fs.get_filename((t0, t1))
    fs.file_system = GhostFS([name])
    # the neighbourhood is one sub-directory period (1 day) around t: [t - R, t + R)
    near = t0 - t < timedelta(days=1) and t - t1 <= timedelta(days=1)
    raised = expect_raises(NoFilesError, fs.find_closest, t)
    ensures(raised == (not near), id="NoFilesError exactly when no file lies within one sub-directory period around t")
    single = FileSet(path="/data/the_only_file.nc", name="single")
    single.file_system = GhostFS(["/data/the_only_file.nc"])
    ensures(single.find_closest(t) == "/data/the_only_file.nc", id="a single-file fileset answers with its one file")


@theorem(P, "shortcut-respects-exclusion", t=_dt("t", 2))
def thm_shortcut(t):
    # a file named exactly after t is returned by the short cut -- unless it is excluded
    requires(t.year >= 1000, datetime(9999, 12, 30) - t >= timedelta(0), t - datetime(1000, 1, 2) >= timedelta(0))
    fs = FileSet(path="/data/{year}/{month}/{day}/{hour}{minute}.nc", name="verif")
    name = fs.get_filename(t)
    fs.file_system = GhostFS([name])
    hit = fs.find_closest(t)
    ensures(hit.path == name, hit.times[0] == t, id="exact-name short cut returns the file that starts at t")
    fs2 = FileSet(path="/data/{year}/{month}/{day}/{hour}{minute}.nc", name="verif2")
    fs2.file_system = GhostFS([name])
    fs2.exclude_files([name])
    raised = expect_raises(NoFilesError, fs2.find_closest, t)
    ensures(raised, id="an excluded file is never the answer (NoFilesError when it is the only file)")


# ------------------------------------------------------------------ fileset[t] and fileset[t, filters]
class _Reader:
    """opaque handler: what it reads is determined by the file (its path)"""

    def __init__(self):
        self.reads = []

    def read(self, file_info, **kw):
        self.reads.append(file_info.path)
        return ("content of", file_info.path)


_Reader.read.__pyvc_thm__ = True
REG.inline_ok.add(M + "FileSet.__getitem__")
REG.inline_ok.add(M + "FileSet.read")


@theorem(P, "getitem-dispatch", a0=_dt("a0", 2), t=_dt("t", 2))
def thm_getitem(a0, t):
    requires(a0.year >= 1000, a0.year <= 9000, t.year >= 1000, t.year <= 9000)
    # (a sub-directory without temporal placeholder counts as a period of one year in find_closest: keep the file inside it)
    requires(a0 - t < timedelta(days=300), t - a0 < timedelta(days=300))
    path = "/data/{satname}/{year}{month}{day}T{hour}{minute}.nc"
    fs = FileSet(path=path, name="verif", decompress=False)
    fs.handler = _Reader()
    na, nb = fs.get_filename(a0, fill={"satname": "noaa"}), fs.get_filename(a0, fill={"satname": "metop"})
    fs.file_system = GhostFS([na, nb])
    got = fs[t, {"satname": "metop"}]
    ensures(got[0] == "content of" and got[1] == nb, id="fileset[t, filters] reads the closest file among those that pass the filters")
    ensures(len(fs.handler.reads) == 1 and fs.handler.reads[0] == nb, id="... and only that file")
    other = fs[t, {"satname": "noaa"}]
    ensures(other[1] == na, id="... for every filter value")
    single = FileSet(path="/data/{year}{month}{day}T{hour}{minute}.nc", name="verif2", decompress=False)
    single.handler = _Reader()
    n1 = single.get_filename(a0)
    single.file_system = GhostFS([n1])
    one = single[t]
    ensures(one[1] == n1, id="fileset[t] reads the file find_closest(t) returns")
