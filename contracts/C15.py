"""C15 -- the file-info cache survives restarts and interrupted saves (typhon/files/fileset.py, handlers/common.py)."""
import builtins as _bi
import json as _json
import os as _os
import shutil as _shutil
import warnings as _warnings
from datetime import datetime, timedelta
from pyvc.dsl import *
from pyvc import sym as _sym
from pyvc.models import model as _model
from pyvc.interp import PyRaise as _PyRaise
from contracts import C02 as _c02
from typhon.files.fileset import FileSet
from typhon.files.handlers.common import FileInfo

P = "C15"
M = "typhon.files.fileset:"
NOT_DECIDED = ["atomicity of shutil.move / os.rename on the target file system (assumed)",
               "find() giving the same answers with and without the cache beyond get_info's cache lookup (follows from C01 + the lookup clause)"]
ASSUMPTIONS = [
    "ghost file system: open(..., 'w') truncates/creates, json.dump writes incrementally (a fault leaves a partial document), "
    "closing flushes, shutil.move replaces the target atomically or not at all",
    "json.load(json.dump(v)) == v for JSON values",
    "strftime('%Y') is not zero padded below year 1000 on this platform; strptime uses CPython's own regular expression for the format",
]
for _n in ("FileSet.__init__", "FileSet.save_cache", "FileSet.load_cache", "FileSet.reset_cache", "FileSet.get_info"):
    REG.inline_ok.add(M + _n)
for _n in ("FileInfo.to_json_dict", "FileInfo.from_json_dict", "FileInfo.__init__", "FileInfo.times", "FileInfo.path"):
    REG.inline_ok.add("typhon.files.handlers.common:" + _n)
REG.interpreted_constructors.add("typhon.files.fileset:FileSet")   # FileSet(info_cache=...) loads the cache: never natively
_dt = _c02._fresh_dt


# ------------------------------------------------------------------ JSON time round trip
@theorem(P, "json-roundtrip", t0=_dt("t0", 6), t1=_dt("t1", 6))
def thm_json(t0, t1):
    # every datetime from datetime.min to datetime.max, to the microsecond
    info = FileInfo("/data/some/file.nc", [t0, t1], {"satname": "A", "orbit": 7})
    back = FileInfo.from_json_dict(info.to_json_dict())
    ensures(back.path == "/data/some/file.nc", back.attr == {"satname": "A", "orbit": 7}, id="path and attributes restored")
    ensures(back.times[0] == t0, back.times[1] == t1, id="start and end restored to the microsecond")


# ------------------------------------------------------------------ ghost file system with fault injection
class Disk:
    """path -> content id; 'partial:<x>' marks an incompletely written document"""

    def __init__(self, ctx, files):
        self.files = dict(files)
        self.ctx = ctx
        self.faults = 0
        self.log = []

    def fault(self, where):
        """every I/O step may fail (at most one fault per run: the first one ends the operation)"""
        if self.faults == 0 and self.ctx.choose(2, "fault@" + where) == 1:
            self.faults += 1
            self.log.append("fault@" + where)
            raise _PyRaise(OSError("injected fault at " + where))


class GhostFile:
    def __init__(self, disk, path, mode):
        self.disk, self.path, self.mode = disk, path, mode

    def __pyvc_enter__(self, interp):
        return self

    def __pyvc_exit__(self, interp, exc):
        # closing flushes: a fault while closing leaves the (backup) file partial
        if exc is None:
            self.disk.fault("close " + self.path)
            if self.mode == "w" and self.disk.files.get(self.path, "").startswith("unflushed:"):
                self.disk.files[self.path] = self.disk.files[self.path][len("unflushed:"):]
        return False


def _disk(interp):
    return interp.ctx.ghost.get("c15_disk")


@_model(_bi.open, always=True)
def _open(interp, path, mode="r", *a, **k):
    d = _disk(interp)
    if d is None:
        return open(path, mode, *a, **k)
    d.fault("open " + path)
    if "w" in mode:
        d.files[path] = "unflushed:partial:empty"        # created / truncated
    elif path not in d.files:
        raise _PyRaise(FileNotFoundError(path))
    return GhostFile(d, path, "w" if "w" in mode else "r")


@_model(_json.dump, always=True)
def _dump(interp, obj, fp, *a, **k):
    d = _disk(interp)
    if d is None:
        return _json.dump(obj, fp, *a, **k)
    d.files[fp.path] = "unflushed:partial:some bytes"
    d.fault("json.dump")                                   # a crash in the middle of writing
    d.files[fp.path] = "unflushed:doc:" + repr(obj)
    if not hasattr(d, "documents"):
        d.documents = {}
    d.documents["doc:" + repr(obj)] = obj                  # what a later json.load of this complete document returns
    return None


@_model(_json.load, always=True)
def _load(interp, fp, *a, **k):
    d = _disk(interp)
    if d is None:
        return _json.load(fp, *a, **k)
    d.fault("json.load")
    content = d.files[fp.path]
    if not content.startswith("doc:"):
        raise _PyRaise(_json.JSONDecodeError("truncated or malformed document", "", 0))
    return d.documents[content]


@_model(_shutil.move, always=True)
def _move(interp, src, dst, *a, **k):
    d = _disk(interp)
    if d is None:
        return _shutil.move(src, dst, *a, **k)
    d.fault("before move")
    if src not in d.files:
        raise _PyRaise(FileNotFoundError(src))
    d.files[dst] = d.files.pop(src)                        # atomic replace (assumed)
    return dst


@_model(_os.path.exists, always=True)
def _exists(interp, path):
    d = _disk(interp)
    if d is None:
        return _os.path.exists(path)
    return path in d.files


import atexit as _atexit


@_model(_atexit.register, always=True)
def _atexit_register(interp, fn, *a, **k):
    # the handler is recorded, never installed in the checker's own process
    interp.ctx.ghost.setdefault("atexit", []).append((fn, a, k))
    return fn


@_model(_warnings.warn, always=True)
def _warn(interp, msg, *a, **k):
    interp.ctx.ghost.setdefault("warned", []).append(str(msg)[:60])
    return None


def _fs_with_cache(entries):
    fs = FileSet(path="/data/{year}/{month}/{day}/{hour}{minute}.nc", name="verif")
    for p, (a, b) in entries.items():
        fs.info_cache[p] = FileInfo(p, [a, b], {"v": 1})
    return fs


@theorem(P, "save-is-crash-consistent")
def thm_save():
    # whatever step of save_cache fails, the cache FILE holds either the previous complete document or the new one
    disk = Disk(_sym.ctx(), {"/cache.json": "doc:OLD"})
    _sym.ctx().ghost["c15_disk"] = disk
    fs = _fs_with_cache({"/data/2018/01/01/0000.nc": (datetime(2018, 1, 1), datetime(2018, 1, 1, 1))})
    crashed = expect_raises(OSError, fs.save_cache, "/cache.json")
    content = disk.files.get("/cache.json")
    ensures(content is not None, id="the cache file still exists")
    ensures(content == "doc:OLD" or (content.startswith("doc:[") and "2018-01-01T00:00:00.000000" in content),
            id="cache file == previous complete document or new complete document, never a partial one")
    ensures(crashed or content != "doc:OLD", id="without a fault the new document is in place")
    ensures(implies_(not crashed, lambda: "/cache.json.backup" not in disk.files), id="no backup file is left after a successful save")
    _sym.ctx().ghost["c15_disk"] = None


def implies_(c, thunk):
    return thunk() if c else True


def _dbg(*a):
    import sys
    print("DBG", a, file=sys.stderr)


_dbg.__pyvc_native__ = True


def _save_load(k, via_constructor):
    kinds = dict(("t%d" % i, _dt("t%d" % i, 6)) for i in range(2 * k))

    @theorem(P, "save-then-load[%d entries,%s]" % (k, "constructor" if via_constructor else "load_cache"), **kinds)
    def thm(**ts):
        ctx = _sym.ctx()
        disk = Disk(ctx, {"/cache.json": "doc:OLD"})
        disk.documents = {"doc:OLD": [FileInfo("/data/1999/01/01/0000.nc", [datetime(1999, 1, 1), datetime(1999, 1, 2)], {"stale": 1}).to_json_dict()]}
        disk.faults = 1                       # no injected faults in this theorem
        ctx.ghost["c15_disk"] = disk
        ctx.ghost["warned"] = []
        paths = ["/data/2018/01/0%d/0000.nc" % (i + 1) for i in range(k)]
        fs = _fs_with_cache(dict((p, (ts["t%d" % (2 * i)], ts["t%d" % (2 * i + 1)])) for i, p in enumerate(paths)))
        fs.save_cache("/cache.json")
        if via_constructor:
            fs2 = FileSet(path="/data/{year}/{month}/{day}/{hour}{minute}.nc", name="verif2", info_cache="/cache.json")
        else:
            fs2 = FileSet(path="/data/{year}/{month}/{day}/{hour}{minute}.nc", name="verif2")
            fs2.load_cache("/cache.json")
        ensures(sorted(fs2.info_cache) == paths, id="the restored cache holds exactly the saved paths (nothing stale, nothing lost)")
        for i, p in enumerate(paths):
            got = fs2.info_cache[p]
            ensures(got.path == p, got.times[0] == ts["t%d" % (2 * i)], got.times[1] == ts["t%d" % (2 * i + 1)], got.attr == {"v": 1},
                    id="entry %d: identical path, times and attributes" % i)
        ensures(len(ctx.ghost["warned"]) == 0, id="no warning")
        ctx.ghost["c15_disk"] = None
    return thm


import os as _os2
for _k in ((0, 1, 2) if _os2.environ.get("VERIF_TIER_EFFECTIVE", "quick") == "quick" else (0, 1, 2, 3, 4)):
    _save_load(_k, False)
_save_load(0, True)
_save_load(1, True)


@theorem(P, "save-none-is-noop")
def thm_save_none():
    disk = Disk(_sym.ctx(), {"/cache.json": "doc:OLD"})
    _sym.ctx().ghost["c15_disk"] = disk
    fs = _fs_with_cache({})
    fs.save_cache(None)
    ensures(disk.files == {"/cache.json": "doc:OLD"}, id="save_cache(None) touches nothing")
    _sym.ctx().ghost["c15_disk"] = None


@theorem(P, "load-failures-warn", t0=_dt("t0", 6), t1=_dt("t1", 6))
def thm_load(t0, t1):
    ctx = _sym.ctx()
    # (1) a complete document written by to_json_dict is restored
    good = [FileInfo("/data/2018/01/01/0000.nc", [t0, t1], {"v": 1}).to_json_dict()]
    disk = Disk(ctx, {"/good.json": "doc:good", "/truncated.json": "partial:some bytes", "/wrong.json": "doc:wrong",
                      "/late-nokey.json": "doc:late-nokey", "/late-type.json": "doc:late-type", "/late-time.json": "doc:late-time"})
    # malformed documents: wrong from the first entry on, or only AFTER well-formed entries (missing key, wrong type, bad time)
    ok1 = FileInfo("/data/2018/01/02/0000.nc", [datetime(2018, 1, 2), datetime(2018, 1, 3)], {"v": 2}).to_json_dict()
    disk.documents = {"doc:good": good, "doc:wrong": [{"path": "/x", "times": ["not a time", None]}, 17],
                      "doc:late-nokey": [ok1, {"path": "/y", "times": ok1["times"]}],
                      "doc:late-type": [ok1, ok1, 17],
                      "doc:late-time": [ok1, {"path": "/z", "times": ["2018-13-45T00:00:00.000000", ok1["times"][1]], "attr": {}}]}
    ctx.ghost["c15_disk"] = disk
    ctx.ghost["warned"] = []
    fs = _fs_with_cache({"/data/already/there.nc": (datetime(2000, 1, 1), datetime(2000, 1, 2))})
    before = dict(fs.info_cache)
    fs.load_cache("/good.json")
    if disk.faults == 0:
        ensures(len(ctx.ghost["warned"]) == 0, id="a good cache loads without warning")
        got = fs.info_cache["/data/2018/01/01/0000.nc"]
        ensures(got.times[0] == t0, got.times[1] == t1, got.attr == {"v": 1}, id="restored entry has identical times and attributes")
        ensures("/data/already/there.nc" in fs.info_cache, id="existing entries are kept")
    else:
        ensures(len(ctx.ghost["warned"]) == 1, id="an I/O fault while loading: exactly one warning, no exception")
        if fs.info_cache != before:
            # (a fault when CLOSING the file after it was read completely: the entries are the genuine ones)
            got = fs.info_cache["/data/2018/01/01/0000.nc"]
            ensures(got.times[0] == t0, got.times[1] == t1, len(fs.info_cache) == 2, id="... and the cache is unchanged or holds exactly the genuine entries")
    # (2) missing, truncated and malformed files: a warning, no exception, no invented information
    for bad in ("/missing.json", "/truncated.json", "/wrong.json", "/late-nokey.json", "/late-type.json", "/late-time.json"):
        fs2 = _fs_with_cache({})
        ctx.ghost["warned"] = []
        disk.faults = 1            # no further injected faults: the file content itself is the fault
        fs2.load_cache(bad)
        ensures(fs2.info_cache == {}, id="%s: the cache stays empty" % bad)
        ensures(len(ctx.ghost["warned"]) == (0 if bad == "/missing.json" else 1), id="%s: warning (none for a missing file), no exception" % bad)
    ctx.ghost["c15_disk"] = None


@theorem(P, "cache-lookup", t0=_dt("t0", 6), t1=_dt("t1", 6))
def thm_lookup(t0, t1):
    fs = FileSet(path="/data/{year}/{month}/{day}/{hour}{minute}.nc", name="verif")
    cached = FileInfo("/data/2018/01/01/0000.nc", [t0, t1], {"v": 1})
    fs.info_cache["/data/2018/01/01/0000.nc"] = cached
    ensures(fs.get_info("/data/2018/01/01/0000.nc") is cached, id="get_info answers from the cache before parsing the name")
    fs.reset_cache()
    fresh = fs.get_info("/data/2018/01/01/0000.nc")
    ensures(fresh.times[0] == datetime(2018, 1, 1), id="after reset_cache the name is parsed again")


@theorem(P, "time-coverage-change-resets-cache", t0=_dt("t0", 2))
def thm_tc_reset(t0):
    """cached coverages depend on time_coverage: whenever it is (re)assigned -- from None to a duration, from one duration to
    another, back to None -- nothing of the old cache may survive, so that get_info / find answer as a cache-less fileset"""
    requires(t0.year >= 1000, t0.year <= 9000)
    for first, second, want in ((None, timedelta(hours=6), timedelta(hours=6)), (timedelta(hours=6), timedelta(hours=1), timedelta(hours=1)),
                                (timedelta(hours=6), None, timedelta(0))):
        fs = FileSet(path="/data/{year}{month}{day}_{hour}{minute}.txt", name="verif", time_coverage=first)
        name = fs.get_filename(t0)
        before = fs.get_info(name)
        ensures(before.times[0] == t0 and before.times[1] - before.times[0] == (first if first is not None else timedelta(0)),
                id="coverage from the name plus time_coverage=%s" % (first,))
        ensures(name in fs.info_cache, id="... and it is cached [%s]" % (first,))
        fs.time_coverage = second
        after = fs.get_info(name)
        ensures(after.times[0] == t0 and after.times[1] - after.times[0] == want, id="after time_coverage = %s the file has the new coverage (no stale cache entry)" % (second,))


# ------------------------------------------------------------------ bounded: the JSON form of a FileInfo on real strings
@bounded(P, "json-roundtrip-real-strings", "FileInfo.to_json_dict -> json.dumps -> json.loads -> FileInfo.from_json_dict on real strings: "
         "datetime.min / datetime.max, every whole millisecond boundary case and 3000 (quick) / 60000 (thorough) random microsecond values, "
         "random dates 1..9999, user attributes; times must come back identical to the microsecond")
def bounded_json_real(rng, tier):
    import json
    n = 3000 if tier == "quick" else 60000
    evals, failures, samples, distinct = 0, [], [], set()
    fixed = [datetime.min, datetime.max, datetime(2018, 1, 1), datetime(999, 12, 31, 23, 59, 59, 999999), datetime(2018, 1, 1, 12, 0, 0, 249),
             datetime(2018, 1, 1, 12, 0, 0, 1), datetime(2018, 1, 1, 12, 0, 0, 999000), datetime(2016, 2, 29, 0, 0, 0, 500000)]
    for k in range(n):
        if k < len(fixed):
            t0 = fixed[k]
        else:
            t0 = datetime(rng.choice([1, 999, 1000, 1965, 2018, 2064, 9999, rng.randint(1, 9999)]), rng.randint(1, 12), rng.randint(1, 28),
                          rng.randint(0, 23), rng.randint(0, 59), rng.randint(0, 59), rng.randint(0, 999999))
        t1 = min(datetime.max, t0 + timedelta(microseconds=rng.choice([0, 1, 999999, rng.randint(0, 10**9)]))) if t0 < datetime.max else t0
        info = FileInfo("/data/%d.nc" % k, [t0, t1], {"satname": "A", "orbit": k})
        evals += 1
        distinct.add(t0.microsecond)
        try:
            back = FileInfo.from_json_dict(json.loads(json.dumps(info.to_json_dict())))
        except Exception as exc:
            failures.append({"times": [str(t0), str(t1)], "problem": "exception %r" % (exc,)})
            continue
        if list(back.times) != [t0, t1] or back.path != info.path or back.attr != info.attr:
            failures.append({"times": [t0.isoformat(), t1.isoformat()], "restored": [str(x) for x in back.times], "attr": back.attr})
        elif len(samples) < 3:
            samples.append({"times": [t0.isoformat(), t1.isoformat()]})
    return {"evaluations": evals, "distinct_nontrivial": len(distinct), "failures": failures[:5], "samples": samples}


# the fault-injection programs only make sense on the ghost disk: no concrete replay (found by replaying every theorem
# concretely on the unchanged tree: these two "failed" there)
for _t in REG.theorems:
    if _t.prop == P and _t.tid in ("save-is-crash-consistent", "load-failures-warn"):
        _t.no_concrete_replay = True
