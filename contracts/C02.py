"""C02 -- file names generated from a template parse back (typhon/files/fileset.py, handlers/common.py).

Method: the path template (which placeholders, where) is concrete; dates are symbolic.  For each template
configuration the client program  get_info(get_filename((s, e), fill=a))  is executed symbolically THROUGH
the real code (all methods below are inlined: no contract stands between the theorem and the code), for all
valid datetimes at the template's resolution.
"""
import itertools
import random as _random
from datetime import datetime, timedelta
from pyvc.dsl import *
from pyvc import timesym as TS
from typhon.files import fileset as FSM
from typhon.files.fileset import FileSet, UnknownPlaceholderError, UnfilledPlaceholderError
from typhon.files.handlers import common as HC

P = "C02"
M = "typhon.files.fileset:"
NOT_DECIDED = []
ASSUMPTIONS = [
    "A5 closed forms of the proleptic Gregorian calendar; the microsecond count is injective on valid datetimes (validated against CPython, see bounded check 'calendar')",
    "re matching of chunked strings via placeholder digits (exact for patterns that do not distinguish individual digits; checked syntactically)",
    "str.format / str() of integers as fixed-width decimal fields (width obligations are generated)",
    "the FileSet object is constructed natively (concrete template); its constructor is executed by CPython, not verified",
]
INLINED = ["FileSet.get_filename", "FileSet.get_info", "FileSet.parse_filename", "FileSet._retrieve_time_coverage",
           "FileSet._to_datetime_args", "FileSet._standardise_datetime_args", "FileSet._remove_group_capturing",
           "FileSet._fill_placeholders"]
for _n in INLINED:
    REG.inline_ok.add(M + _n)
for _n in ("FileInfo.__init__", "FileInfo.copy", "FileInfo.update", "FileInfo.path", "FileInfo.times"):
    REG.inline_ok.add("typhon.files.handlers.common:" + _n)
REG.inline_ok.add("typhon.utils.timeutils:to_datetime")

TIME_FIELDS = ["hour", "minute", "second", "millisecond"]
FINEST = {0: "day", 1: "hour", 2: "minute", 3: "second", 4: "millisecond"}


def template_of(cfg):
    """path template of a configuration"""
    year = "{%s}" % cfg["year"]
    date = year + ("{doy}" if cfg["date"] == "doy" else "{month}{day}")
    t = "".join("{%s}" % f for f in TIME_FIELDS[:cfg["depth"]])
    if cfg["end"] == "complete":
        eyear = "{end_%s}" % cfg["year"]
        end = "-" + eyear + ("{end_doy}" if cfg["date"] == "doy" else "{end_month}{end_day}") \
            + "".join("{end_%s}" % f for f in TIME_FIELDS[:cfg["depth"]])
    elif cfg["end"] == "time":
        end = "-" + "".join("{end_%s}" % f for f in TIME_FIELDS[:cfg["depth"]])
    elif cfg["end"] in ("time-m", "time-s"):
        # the end is spelled from the minute / second downwards only: completed from the start, rolled over by the next
        # coarser unit (hour / minute)
        end = "-" + "".join("{end_%s}" % f for f in TIME_FIELDS[(1 if cfg["end"] == "time-m" else 2):cfg["depth"]])
    else:
        end = ""
    user = "{satname}_" if cfg.get("user") else ""
    if cfg["layout"] == "flat":
        return "/data/" + user + date + ("T" + t if t else "") + end + ".nc"
    if cfg["layout"] == "dirs":
        d = year + "/" + ("{doy}" if cfg["date"] == "doy" else "{month}/{day}")
        return "/data/" + d + "/" + user + (t if t else "file") + end + (".vA.nc" if user else ".v1.2.nc")
    # duplicated placeholders: the year -- and the user placeholder (default regex) -- appear in the directory and in the name
    return "/data/" + year + "/" + ("{satname}/" if user else "") + user + date + ("_" + t if t else "") + end + ".nc"


def _fresh_dt(name, depth):
    def make(ctx, _n):
        d = TS.fresh_datetime(ctx, name)
        order = list(TS.SDateTime.FIELDS)
        if depth == 4:
            ms = ctx.fresh(name + "_ms", "int")
            ctx.assume(ms >= 0)
            ctx.assume(ms < 1000)
            d.microsecond = ms * 1000
        else:
            for f in order[3 + depth:]:
                setattr(d, f, 0)
        return d

    def sample(rng):
        """a concrete datetime at this resolution (for concrete replays when a proof is lost)"""
        import calendar
        y = rng.randint(1990, 2030) if rng.random() < 0.7 else rng.choice([1000, 1600, 1965, 2000, 2064, 2400, 9999, rng.randint(1000, 9999)])
        mo = rng.randint(1, 12)
        dd = rng.choice([1, calendar.monthrange(y, mo)[1], rng.randint(1, calendar.monthrange(y, mo)[1])])
        parts = [rng.choice([0, 23, rng.randint(0, 23)]), rng.choice([0, 59, rng.randint(0, 59)]), rng.choice([0, 59, rng.randint(0, 59)])]
        us = rng.choice([0, 999000, rng.randint(0, 999) * 1000]) if depth == 4 else (rng.choice([0, 999999, 249, rng.randint(0, 999999)]) if depth >= 6 else 0)
        fields = [p_ if k < depth else 0 for k, p_ in enumerate(parts)]
        return datetime(y, mo, dd, fields[0], fields[1], fields[2], us if depth >= 4 else 0)
    make.sample = sample
    return make


def roundtrip(s, e, cfg):
    fs = FileSet(path=template_of(cfg), name="verif")
    requires(s <= e)
    if cfg["year"] == "year":
        requires(s.year >= 1000, e.year >= 1000)            # {year} is four digits
    else:
        requires(s.year >= 1965, s.year <= 2064, e.year >= 1965, e.year <= 2064)   # two-digit years: 65..99 -> 19xx, 00..64 -> 20xx
    fill = {"satname": "NOAA-18.a"} if cfg.get("user") else None
    if cfg["end"] == "time":
        requires(e - s < timedelta(days=1))
    elif cfg["end"] == "time-m":
        requires(e - s < timedelta(hours=1))
    elif cfg["end"] == "time-s":
        requires(e - s < timedelta(minutes=1))
    name = fs.get_filename((s, e), fill=fill)
    # intermediate facts (same real code, called directly): the parsed fields reconstruct s and e
    sa, ea = fs._to_datetime_args(fs.parse_filename(name))
    ps = datetime(**sa)
    ensures(ps == s, id="step: the start fields reconstruct s")
    if cfg["end"] == "complete":
        pe = datetime(**{**sa, **ea})
        ensures(pe == e, id="step: the end fields reconstruct e")
    info = fs.get_info(name)
    ensures(info.times[0] == s, id="start == s")
    if cfg["end"] == "complete":
        ensures(info.times[1] == e, id="end == e (end spelled as completely as the start)")
    elif cfg["end"] == "time":
        # the end takes its date from the start and moves to the next day when it would precede the start
        ensures(info.times[1] == e, id="end == e (time-only end fields, s <= e < s + 1 day)")
    elif cfg["end"] in ("time-m", "time-s"):
        ensures(info.times[1] == e, id="end == e (end spelled from the %s downwards, roll-over by the next coarser unit)"
                % ("minute" if cfg["end"] == "time-m" else "second"))
    else:
        ensures(info.times[1] == s, id="no end fields, no time_coverage: discrete file, end == start")
    if cfg.get("user"):
        ensures(info.attr == {"satname": "NOAA-18.a"}, id="user placeholder value recovered")
    # parse_filename recovers every placeholder string exactly as it was written into the name
    parsed = fs.parse_filename(name)
    want = {"year": "{:04d}".format(s.year), "year2": "{:02d}".format(s.year % 100), "month": "{:02d}".format(s.month),
            "day": "{:02d}".format(s.day), "doy": "{:03d}".format((s - datetime(s.year, 1, 1)).days + 1),
            "hour": "{:02d}".format(s.hour), "minute": "{:02d}".format(s.minute), "second": "{:02d}".format(s.second),
            "millisecond": "{:03d}".format(s.microsecond // 1000),
            "end_year": "{:04d}".format(e.year), "end_year2": "{:02d}".format(e.year % 100), "end_month": "{:02d}".format(e.month),
            "end_day": "{:02d}".format(e.day), "end_doy": "{:03d}".format((e - datetime(e.year, 1, 1)).days + 1),
            "end_hour": "{:02d}".format(e.hour), "end_minute": "{:02d}".format(e.minute), "end_second": "{:02d}".format(e.second),
            "end_millisecond": "{:03d}".format(e.microsecond // 1000), "satname": "NOAA-18.a"}
    for k in sorted(parsed):
        ensures(parsed[k] == want[k], id="parse_filename recovers {%s}" % k)


roundtrip.__pyvc_thm__ = True


def _cfgs(tier):
    out = []
    for year, date, depth, end, layout, user in itertools.product(
            ("year", "year2"), ("md", "doy"), (0, 1, 2, 3, 4), ("none", "complete", "time", "time-m", "time-s"), ("flat", "dirs", "dup"), (False, True)):
        if end == "time" and depth == 0:
            continue
        if (end == "time-m" and depth < 2) or (end == "time-s" and depth < 3):
            continue
        out.append(dict(year=year, date=date, depth=depth, end=end, layout=layout, user=user))
    if tier == "thorough":
        return out
    rnd = _random.Random(2)
    rnd.shuffle(out)
    # quick: a covering sample (every value of every dimension, every pair (end, depth) and (year, date))
    chosen, seen = [], set()
    for c in out:
        keys = {("y", c["year"], c["date"]), ("e", c["end"], c["depth"]), ("l", c["layout"], c["user"]), ("yl", c["year"], c["layout"]),
                ("de", c["date"], c["end"])}
        if not keys <= seen:
            chosen.append(c)
            seen |= keys
    return chosen


import os as _os
_TIER = _os.environ.get("VERIF_TIER_EFFECTIVE", "quick")


def _sampler_for(cfg):
    def sampler(rng):
        def rdt():
            y = rng.randint(1000, 9999) if cfg["year"] == "year" else rng.randint(1965, 2064)
            d = datetime(y, 1, 1) + timedelta(days=rng.choice([0, 58, 59, 60, 364, 365, rng.randint(0, 364)]))
            if d.year != y:
                d = datetime(y, 12, 31)
            t = [rng.randint(0, 23), rng.randint(0, 59), rng.randint(0, 59), rng.randint(0, 999) * 1000][:cfg["depth"]]
            return d.replace(**dict(zip(["hour", "minute", "second", "microsecond"], t)))
        s = rdt()
        if cfg["end"] in ("time", "time-m", "time-s"):
            span = {"time": 86399, "time-m": 3599, "time-s": 59}[cfg["end"]]
            e = s + timedelta(seconds=rng.randint(0, span), milliseconds=rng.randint(0, 999) if cfg["depth"] == 4 else 0)
            e = e.replace(**{f: 0 for f in ["hour", "minute", "second", "microsecond"][cfg["depth"]:]})
            if e < s:
                e = s
        else:
            e = rdt()
        if e < s:
            s, e = e, s
        return dict(s=s, e=e, cfg=cfg)
    return sampler


for _k, _cfg in enumerate(_cfgs(_TIER)):
    _tid = "roundtrip[%s,%s,depth%d,end-%s,%s%s]" % (_cfg["year"], _cfg["date"], _cfg["depth"], _cfg["end"], _cfg["layout"],
                                                      ",user" if _cfg["user"] else "")
    theorem(P, _tid, s=_fresh_dt("s", _cfg["depth"]), e=_fresh_dt("e", _cfg["depth"]), cfg=Kind("const", value=_cfg))(roundtrip)
    REG.theorems[-1].sampler = _sampler_for(_cfg)


# ------------------------------------------------------------------ further clauses
from pyvc.models import model as _model
import typhon.files as _TF
import typhon.files.utils as _TFU


class _PassThrough:
    """context manager of typhon.files.decompress for a path WITHOUT compression suffix: yields the path itself"""

    def __init__(self, path):
        self.path = path

    def __pyvc_enter__(self, interp):
        return self.path

    def __pyvc_exit__(self, interp, exc):
        return False


@_model(_TF.decompress, _TFU.decompress, always=True)
def _decompress(interp, filename, tmpdir=None, **kw):
    from pyvc.strsym import SStr
    shape = filename.concrete_shape() if isinstance(filename, SStr) else filename
    if _TFU.is_compression_format(shape.split(".")[-1] if "." in shape else ""):
        raise OutsideSubset("decompress of a compressed path in the name round trip")
    interp.trusted_used.add("contract:typhon.files.decompress yields the path unchanged when it has no compression suffix (proved in C12)")
    return _PassThrough(filename)


from pyvc.sym import OutsideSubset


class _Handler:
    """a file handler whose get_info reports given times / attributes (stands for any handler)"""

    def __init__(self, times, attr):
        self.times, self.attr = times, attr

    def get_info(self, file_info):
        return HC.FileInfo(file_info.path, self.times, self.attr)


_Handler.get_info.__pyvc_thm__ = True


@theorem(P, "no-end-with-time-coverage", s=_fresh_dt("s", 2))
def thm_coverage(s):
    fs = FileSet(path="/data/{year}/{month}/{day}/{hour}{minute}.nc", time_coverage="1 hour", name="verif")
    requires(s.year >= 1000)
    requires(datetime(9999, 12, 31, 22, 59) - s >= timedelta(0))     # start + coverage is representable
    info = fs.get_info(fs.get_filename(s))
    ensures(info.times[0] == s, id="start == s")
    ensures(info.times[1] - info.times[0] == timedelta(hours=1), id="end == start + time_coverage")


@theorem(P, "info-via-both", s=_fresh_dt("s", 2), hs=_fresh_dt("hs", 6), he=_fresh_dt("he", 6))
def thm_both(s, hs, he):
    # information from the handler overrides the file name; a None time from the handler does not
    requires(s.year >= 1000)
    fs = FileSet(path="/data/{satname}/{year}{month}{day}{hour}{minute}.nc", info_via="both", name="verif")
    fs.handler = _Handler([hs, he], {"satname": "from-handler", "orbit": 7})
    info = fs.get_info(fs.get_filename(s, fill={"satname": "from-name"}))
    ensures(info.times[0] == hs, info.times[1] == he, id="handler times override the file name")
    ensures(info.attr == {"satname": "from-handler", "orbit": 7}, id="handler attributes override the file name")
    fs2 = FileSet(path="/data/{satname}/{year}{month}{day}{hour}{minute}.nc", info_via="both", name="verif2")
    fs2.handler = _Handler([None, he], {})
    info2 = fs2.get_info(fs2.get_filename(s, fill={"satname": "from-name"}))
    ensures(info2.times[0] == s, id="a None start time from the handler does not override the file name")
    ensures(info2.times[1] == he, info2.attr == {"satname": "from-name"}, id="... while its end time does; name attributes kept")
    fs3 = FileSet(path="/data/{satname}/{year}{month}{day}{hour}{minute}.nc", info_via="handler", name="verif3")
    fs3.handler = _Handler([hs, he], {})
    info3 = fs3.get_info(fs3.get_filename(s, fill={"satname": "x"}))
    ensures(info3.times[0] == hs, info3.times[1] == he, info3.attr == {}, id="info_via='handler' ignores the file name")
    # a fixed file duration and a handler that knows the start only: the end is the overriding start + time_coverage
    requires(datetime(9999, 12, 31, 17, 59) - hs >= timedelta(0))
    fs4 = FileSet(path="/data/{satname}/{year}{month}{day}.nc", info_via="both", time_coverage="6 hours", name="verif4")
    fs4.handler = _Handler([hs, None], {})
    info4 = fs4.get_info(fs4.get_filename(s, fill={"satname": "x"}))
    ensures(info4.times[0] == hs, id="time_coverage + handler start only: the handler start overrides the file name")
    ensures(info4.times[1] - info4.times[0] == timedelta(hours=6), id="... and the end is that start + time_coverage")


@theorem(P, "errors", s=_fresh_dt("s", 2))
def thm_errors(s):
    requires(s.year >= 1000)
    fs = FileSet(path="/data/{year}/{month}/{day}/{hour}{minute}_{satname}.nc", name="verif")
    ensures(expect_raises(UnknownPlaceholderError, fs.get_filename, s, "/data/{year}{nonsense}.nc"), id="unknown placeholder -> UnknownPlaceholderError")
    ensures(expect_raises(UnfilledPlaceholderError, fs.get_filename, s), id="unfilled user placeholder -> UnfilledPlaceholderError")
    good = fs.get_filename(s, fill={"satname": "A"})
    ensures(expect_raises(ValueError, fs.get_info, "/data/2018/01/01/ab00_A.nc"), id="non-matching name (letters in a numeric field) -> ValueError")
    ensures(expect_raises(ValueError, fs.get_info, "/elsewhere/2018/01/01/0000_A.nc"), id="non-matching directory -> ValueError")
    ensures(expect_raises(ValueError, fs.get_info, "/data/2018/01/01/0000_A.nc.bak"), id="trailing garbage -> ValueError")
    ensures(expect_raises(ValueError, fs.get_info, "/data/2018/13/01/0000_A.nc"), id="month 13 is not mis-parsed -> ValueError")


@theorem(P, "CANARY-year2-outside-window", s=_fresh_dt("s", 0), canary=True)
def thm_canary(s):
    # two-digit years outside 1965..2064 cannot round trip: this clause MUST fail (checks that the machinery can fail)
    fs = FileSet(path="/data/{year2}{month}{day}.nc", name="verif")
    requires(s.year >= 1900, s.year <= 2099)
    info = fs.get_info(fs.get_filename(s))
    ensures(info.times[0] == s, id="start == s for every year 1900..2099 (false)")


# ------------------------------------------------------------------ bounded stand-ins
@bounded(P, "calendar", "closed forms of the calendar vs CPython: every day of 393 years incl. century/leap corner years "
         "(thorough: all 3 652 059 days of years 1..9999)")
def bounded_calendar(rng, tier):
    r = TS.validate_calendar(tier, rng.randint(0, 10**6))
    return {"evaluations": r["evaluations"], "distinct_nontrivial": r["evaluations"], "failures": r["failures"],
            "samples": [{"years_checked": r["years"], "exhaustive": r["exhaustive"]}], "exhaustive": r["exhaustive"]}


@bounded(P, "wildcards-and-regex-placeholders", "templates with '*' wildcards, free-regex and value-list user placeholders, literal digits "
         "and dots: concrete generate -> parse over a date lattice incl. all month/year ends, leap days, doy 366")
def bounded_wildcards(rng, tier):
    templates = [
        ("/d/{year}/{month}/*/{sat}_{year}{month}{day}T{hour}{minute}{second}.v2.{end_hour}{end_minute}{end_second}.h5", {"sat": "NOAA-18"}, {}),
        ("/d/{year2}{doy}/{sat}/*{hour}{minute}-{end_hour}{end_minute}.nc.gz", {"sat": "metop.b"}, {"sat": r"[\w.]+"}),
        ("/d/{mode}/{year}-{month}-{day}_{mode}.txt", {"mode": "night"}, {"mode": ["day", "night"]}),
        ("/d/{year}/{doy}/orbit{orbit}_{hour}{minute}{second}{millisecond}.dat", {"orbit": "01234"}, {"orbit": r"\d{5}"}),
        # repeated user placeholders: default regex, a regex with an escaped dot, a regex with a star
        ("/d/{sat}/{year}/{sat}_{year}{month}{day}.nc", {"sat": "NOAA18"}, {}),
        ("/d/{ver}/{year}{month}{day}T{hour}{minute}_{ver}.nc", {"ver": "v10.2"}, {"ver": r"v\d+\.\d+"}),
        ("/d/{tag}/{year}/{doy}/{tag}-{hour}.bin", {"tag": "ab"}, {"tag": r"[a-z]*"}),
    ]
    dates = []
    for y in (1965, 1999, 2000, 2016, 2024, 2064):
        for (m, d) in ((1, 1), (2, 28), (2, 29), (3, 1), (6, 30), (12, 31)):
            try:
                dates.append(datetime(y, m, d, rng.randint(0, 22), rng.randint(0, 59), rng.randint(0, 59), rng.randint(0, 999) * 1000))
            except ValueError:
                pass
    evals, failures, samples, distinct = 0, [], [], set()
    for path, fill, regexes in templates:
        fs = FileSet(path=path, name="b", placeholder=regexes or None)
        gen = FileSet(path=path.replace("*", "x7y"), name="g", placeholder=regexes or None)   # whatever the wildcard stands for
        for s in dates:
            e = s + timedelta(minutes=rng.randint(0, 59), seconds=rng.randint(0, 59))
            name = gen.get_filename((s, e), fill=fill)
            try:
                info = fs.get_info(name)
            except Exception as exc:
                failures.append({"template": path, "s": str(s), "error": repr(exc)})
                continue
            evals += 1
            distinct.add((path, s))
            res = {p for p in ("hour", "minute", "second", "millisecond") if "{%s}" % p in path}
            want_s = s.replace(hour=s.hour if "hour" in res else 0, minute=s.minute if "minute" in res else 0,
                               second=s.second if "second" in res else 0,
                               microsecond=s.microsecond if "millisecond" in res else 0)
            ok = info.times[0] == want_s and all(info.attr.get(k) == v for k, v in fill.items())
            if "{end_second}" in path:
                ok = ok and info.times[1] == e.replace(microsecond=0)
            elif "{end_minute}" in path:
                ok = ok and info.times[1] == e.replace(second=0, microsecond=0)
            if not ok:
                failures.append({"template": path, "s": str(s), "e": str(e), "got": [str(t) for t in info.times], "attr": info.attr})
            elif len(samples) < 3:
                samples.append({"template": path, "name": name, "times": [str(t) for t in info.times]})
    return {"evaluations": evals, "distinct_nontrivial": len(distinct), "failures": failures[:5], "samples": samples}
