"""C01 -- FileSet.find returns exactly the files that overlap the requested period (typhon/files/fileset.py).

Method: a population of k files with SYMBOLIC time coverage is laid out on a ghost file system by the real
get_filename (each file in the directory of its start time); the real find() -- with _get_search_dirs,
_get_matching_dirs, _check_placeholders, _get_matching_files, get_info, is_excluded, _prepare_find_return all
inlined -- is executed symbolically for a symbolic query period.  Unbounded in all times, bounded in the number
of files (k <= 2) and to the listed directory layouts.
"""
from datetime import datetime, timedelta
from pyvc.dsl import *
from pyvc import timesym as TS
from contracts.ghostfs import GhostFS
from contracts import C02 as _c02                     # inline lists of the name machinery
from typhon.files.fileset import FileSet, NoFilesError
from typhon.trees import IntervalTree

P = "C01"
M = "typhon.files.fileset:"
NOT_DECIDED = ["bundling by time frequency (pandas Grouper)", "fsspec back ends (local, zip, s3): glob is an assumed contract",
               "populations of more than 2 files in one symbolic run (the per-file logic is independent of the others)"]
ASSUMPTIONS = list(_c02.ASSUMPTIONS) + [
    "fsspec glob lists exactly the children of a directory, each once (ghost file system)",
    "generator functions / generator expressions are evaluated eagerly (order of yields preserved)",
]
for _n in ("FileSet.find", "FileSet._get_search_dirs", "FileSet._get_matching_dirs", "FileSet._check_placeholders",
           "FileSet._get_matching_files", "FileSet._check_file", "FileSet._prepare_find_return", "FileSet.is_excluded",
           "FileSet.__contains__", "FileSet.__len__", "FileSet._complete_placeholders_regex", "FileSet._add_group_capturing"):
    REG.inline_ok.add(M + _n)
REG.inline_ok.add("typhon.utils.timeutils:set_time_resolution")
for _n in ("IntervalTree.interval_overlaps", "IntervalTree.__contains__", "IntervalTree._query", "IntervalTree.interval_contains"):
    REG.inline_ok.add("typhon.trees:" + _n)

LAYOUTS = {
    "ymd-dirs": ("/data/{year}/{month}/{day}/{hour}{minute}{second}-{end_hour}{end_minute}{end_second}.nc", timedelta(days=1)),
    "flat": ("/data/{year}{month}{day}T{hour}{minute}-{end_year}{end_month}{end_day}T{end_hour}{end_minute}.nc", None),
    "doy-dirs": ("/data/{year}/{doy}/{hour}{minute}-{end_hour}{end_minute}.nc", timedelta(days=1)),
}


def _dt(name, depth):
    return _c02._fresh_dt(name, depth)


def find_one(t0, t1, s, e, cfg):
    path, R = LAYOUTS[cfg["layout"]]
    fs = FileSet(path=path, name="verif")
    requires(t0 <= t1, s < e, t0.year >= 1000, t1.year >= 1000, s.year >= 1000, e.year >= 1000)
    if R is not None:
        requires(t1 - t0 < R)          # a file lasts no longer than one period of the finest directory level
    name = fs.get_filename((t0, t1))
    fs.file_system = GhostFS([name])
    found = list(fs.find(s, e, no_files_error=False))
    hit = t0 < e and t1 >= s
    ensures(len(found) == (1 if hit else 0), id="the file is yielded exactly once iff t0 < end and t1 >= start")
    if found:
        ensures(found[0].path == name, found[0].times[0] == t0, found[0].times[1] == t1, id="... with its path and coverage")


find_one.__pyvc_thm__ = True
for _lay in LAYOUTS:
    _depth = 3 if _lay == "ymd-dirs" else 2
    theorem(P, "find-one-file[%s]" % _lay, t0=_dt("t0", _depth), t1=_dt("t1", _depth), s=_dt("s", 6), e=_dt("e", 6),
            cfg=Kind("const", value={"layout": _lay}))(find_one)
