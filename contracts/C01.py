"""C01 -- FileSet.find returns exactly the files that overlap the requested period (typhon/files/fileset.py).

Method: a population of k files with SYMBOLIC time coverage is laid out on a ghost file system by the real
get_filename (each file in the directory of its start time); the real find() -- with _get_search_dirs,
_get_matching_dirs, _check_placeholders, _get_matching_files, get_info, is_excluded, _prepare_find_return all
inlined -- is executed symbolically for a symbolic query period.  Unbounded in all times, bounded in the number
of files (k <= 2) and to the listed directory layouts.
"""
from datetime import datetime, timedelta
from pyvc.dsl import *
from pyvc import timesym as TS
from contracts.ghostfs import GhostFS
from contracts import C02 as _c02                     # inline lists of the name machinery
from typhon.files.fileset import FileSet, NoFilesError
from typhon.trees import IntervalTree

P = "C01"
M = "typhon.files.fileset:"
NOT_DECIDED = ["bundling by time frequency (pandas Grouper)", "fsspec back ends (local, zip, s3): glob is an assumed contract",
               "populations of more than 2 files in one symbolic run (the per-file logic is independent of the others)"]
ASSUMPTIONS = list(_c02.ASSUMPTIONS) + [
    "fsspec glob lists exactly the children of a directory, each once (ghost file system)",
    "generator functions / generator expressions are evaluated eagerly (order of yields preserved)",
]
for _n in ("FileSet.find", "FileSet._get_search_dirs", "FileSet._get_matching_dirs", "FileSet._check_placeholders",
           "FileSet._get_matching_files", "FileSet._check_file", "FileSet._prepare_find_return", "FileSet.is_excluded",
           "FileSet.__contains__", "FileSet.__len__", "FileSet.exclude_files", "FileSet.exclude_times", "FileSet._complete_placeholders_regex", "FileSet._add_group_capturing"):
    REG.inline_ok.add(M + _n)
REG.inline_ok.add("typhon.utils.timeutils:set_time_resolution")
REG.inline_ok.add(M + "FileSet.__init__")            # (a symbolic time_coverage goes through the constructor and the setter)
REG.inline_ok.add(M + "FileSet.time_coverage")
REG.inline_ok.add(M + "FileSet.get_info")
REG.inline_ok.add("typhon.utils.timeutils:to_datetime")
REG.inline_ok.add("typhon.utils.timeutils:to_timedelta")
for _n in ("IntervalTree.interval_overlaps", "IntervalTree.__contains__", "IntervalTree._query", "IntervalTree.interval_contains"):
    REG.inline_ok.add("typhon.trees:" + _n)

LAYOUTS = {
    "ymd-dirs": ("/data/{year}/{month}/{day}/{hour}{minute}{second}-{end_hour}{end_minute}{end_second}.nc", timedelta(days=1)),
    "flat": ("/data/{year}{month}{day}T{hour}{minute}-{end_year}{end_month}{end_day}T{end_hour}{end_minute}.nc", None),
    "doy-dirs": ("/data/{year}/{doy}/{hour}{minute}-{end_hour}{end_minute}.nc", timedelta(days=1)),
    # a non-temporal directory level below the temporal ones
    "ymd-sat-dirs": ("/data/{year}/{month}/{day}/{satname}/{hour}{minute}{second}-{end_hour}{end_minute}{end_second}.nc", timedelta(days=1)),
}


def _dt(name, depth):
    return _c02._fresh_dt(name, depth)


def find_one(t0, t1, s, e, cfg):
    path, R = LAYOUTS[cfg["layout"]]
    fs = FileSet(path=path, name="verif")
    requires(t0 <= t1, s < e, t0.year >= 1000, t1.year >= 1000, s.year >= 1000, e.year >= 1000)
    if R is not None:
        requires(t1 - t0 < R)          # a file lasts no longer than one period of the finest directory level
    name = fs.get_filename((t0, t1), fill={"satname": "NOAA18"} if "{satname}" in path else None)
    if "doy" in path:
        # step: the day-of-year written into the directory name leads back to t0's own date
        d0 = datetime(t0.year, 1, 1) + timedelta(days=(t0 - datetime(t0.year, 1, 1)).days + 1 - 1)
        ensures(d0.year == t0.year, d0.month == t0.month, d0.day == t0.day, id="step: the doy directory names t0's date")
    fs.file_system = GhostFS([name])
    found = list(fs.find(s, e, no_files_error=False))
    hit = t0 < e and t1 >= s
    ensures(len(found) == (1 if hit else 0), id="the file is yielded exactly once iff t0 < end and t1 >= start")
    if found:
        ensures(found[0].path == name, found[0].times[0] == t0, found[0].times[1] == t1, id="... with its path and coverage")


find_one.__pyvc_thm__ = True
for _lay in LAYOUTS:
    _depth = 3 if _lay in ("ymd-dirs", "ymd-sat-dirs") else 2
    theorem(P, "find-one-file[%s]" % _lay, t0=_dt("t0", _depth), t1=_dt("t1", _depth), s=_dt("s", 6), e=_dt("e", 6),
            cfg=Kind("const", value={"layout": _lay}))(find_one)


def find_two(a0, a1, b0, b1, s, e, cfg):
    path, R = LAYOUTS[cfg["layout"]]
    fs = FileSet(path=path, name="verif")
    requires(a0 <= a1, b0 <= b1, s < e, a0.year >= 1000, a1.year >= 1000, b0.year >= 1000, b1.year >= 1000, s.year >= 1000, e.year >= 1000)
    requires(a0 != b0 or a1 != b1)           # two different files
    if R is not None:
        requires(a1 - a0 < R, b1 - b0 < R)
    na, nb = fs.get_filename((a0, a1)), fs.get_filename((b0, b1))
    fs.file_system = GhostFS([na, nb])
    found = list(fs.find(s, e, no_files_error=False))
    hit_a = a0 < e and a1 >= s
    hit_b = b0 < e and b1 >= s
    ensures(len(found) == (1 if hit_a else 0) + (1 if hit_b else 0), id="exactly the overlapping files, each once")
    if len(found) == 1:
        ensures(found[0].path == (na if hit_a else nb), id="the right file")
    if len(found) == 2:
        ensures(found[0].times[0] <= found[1].times[0], id="ordered by start time")
        ensures(implies(found[0].times[0] == found[1].times[0], found[0].times[1] <= found[1].times[1]), id="... then by end time")
        ensures((found[0].path == na and found[1].path == nb) or (found[0].path == nb and found[1].path == na), id="both files, no other")


find_two.__pyvc_thm__ = True
import os as _os
# two files: in the flat layout (no directory pruning, so the path count stays small) in both tiers; ...
theorem(P, "find-two-files[flat]", a0=_dt("a0", 2), a1=_dt("a1", 2), b0=_dt("b0", 2), b1=_dt("b1", 2), s=_dt("s", 6), e=_dt("e", 6),
        cfg=Kind("const", value={"layout": "flat"}))(find_two)


@theorem(P, "exclusion-and-errors", t0=_dt("t0", 3), t1=_dt("t1", 3), s=_dt("s", 6), e=_dt("e", 6))
def thm_exclusion(t0, t1, s, e):
    path, R = LAYOUTS["ymd-dirs"]
    requires(t0 <= t1, s < e, t0.year >= 1000, t1.year >= 1000, s.year >= 1000, e.year >= 1000, t1 - t0 < R)
    fs = FileSet(path=path, name="verif")
    name = fs.get_filename((t0, t1))
    hit = t0 < e and t1 >= s
    # excluded by name
    fs.file_system = GhostFS([name])
    fs.exclude_files([name])
    by_name = list(fs.find(s, e, no_files_error=False))
    ensures(by_name == [], id="a file excluded by name is omitted")
    # excluded by period (closed intervals)
    fs2 = FileSet(path=path, name="verif2")
    fs2.file_system = GhostFS([name])
    # (two closed periods; the first is short enough for a file to start before and end after it, the second crosses midnight)
    X = [(datetime(2018, 3, 1, 12), datetime(2018, 3, 1, 13)), (datetime(2018, 3, 1, 20), datetime(2018, 3, 2, 6))]
    fs2.exclude_times(X)
    in_period = (t0 <= X[0][1] and t1 >= X[0][0]) or (t0 <= X[1][1] and t1 >= X[1][0])
    got = list(fs2.find(s, e, no_files_error=False))
    ensures(len(got) == (1 if (hit and not in_period) else 0), id="a file whose coverage overlaps an excluded period is omitted, no other")
    # NoFilesError iff nothing is found and no_files_error is set
    fs3 = FileSet(path=path, name="verif3")
    fs3.file_system = GhostFS([name])
    raised = expect_raises(NoFilesError, lambda: list(fs3.find(s, e)))
    ensures(raised == (not hit), id="NoFilesError exactly when nothing is found")
    # membership and length agree with the same set
    fs4 = FileSet(path=path, name="verif4")
    fs4.file_system = GhostFS([name])
    n4 = len(fs4)
    ensures(n4 == 1, id="len(fileset) counts the files")
    x = s
    covered = x in fs4
    ensures(covered == (t0 <= x and t1 >= x), id="t in fileset  <=>  some file covers t")


@theorem(P, "placeholder-filters", t0=_dt("t0", 2), s=_dt("s", 6), e=_dt("e", 6))
def thm_filters(t0, s, e):
    requires(s < e, t0.year >= 1000, s.year >= 1000, e.year >= 1000)
    path = "/data/{satname}/{year}{month}{day}T{hour}{minute}.nc"
    fs = FileSet(path=path, name="verif")
    na = fs.get_filename(t0, fill={"satname": "NOAA18"})
    nb = fs.get_filename(t0, fill={"satname": "MetopB"})
    hit = t0 < e and t0 >= s
    fs.file_system = GhostFS([na, nb])
    white = list(fs.find(s, e, no_files_error=False, filters={"satname": "NOAA18"}))
    ensures(len(white) == (1 if hit else 0), id="white-list keeps only the matching placeholder value")
    if white:
        ensures(white[0].path == na, white[0].attr == {"satname": "NOAA18"}, id="... namely that file")
    black = list(fs.find(s, e, no_files_error=False, filters={"!satname": "NOAA18"}))
    ensures(len(black) == (1 if hit else 0), id="black-list drops the matching placeholder value")
    if black:
        ensures(black[0].path == nb, id="... and keeps the other file")
    both = list(fs.find(s, e, no_files_error=False, filters={"satname": ["NOAA18", "MetopB"]}))
    ensures(len(both) == (2 if hit else 0), id="a value list admits every listed value")
    # several filters at once: every white list must admit the file and NO black list may forbid it
    fs2 = FileSet(path="/data/{satname}/{instr}/{year}{month}{day}T{hour}{minute}.nc", name="verif2")
    names = {(sat, ins): fs2.get_filename(t0, fill={"satname": sat, "instr": ins}) for sat in ("NOAA18", "MetopB") for ins in ("MHS", "AMSUB")}
    fs2.file_system = GhostFS(list(names.values()))
    bb = list(fs2.find(s, e, no_files_error=False, filters={"!satname": "NOAA18", "!instr": "MHS"}))
    ensures(len(bb) == (1 if hit else 0), id="two black lists: a file forbidden by either one is dropped")
    if bb:
        ensures(bb[0].path == names[("MetopB", "AMSUB")], id="... the only file passing both is kept")
    bb2 = list(fs2.find(s, e, no_files_error=False, filters={"!instr": "MHS", "!satname": "NOAA18"}))
    ensures(len(bb2) == (1 if hit else 0), id="... in either order of the black lists")


from typhon.files.handlers.common import FileInfo as _FileInfo


def _fi(i):
    return _FileInfo("f%d" % i, [datetime(2000, 1, 1) + timedelta(days=i), datetime(2000, 1, 1) + timedelta(days=i, hours=1)])


@theorem(P, "bundle-by-count")
def thm_bundle():
    # bundling by count only partitions the ordered sequence: slices of n, the last one possibly shorter, none empty
    for k in range(0, 8):
        files = [_fi(i) for i in range(k)]
        for n in range(1, 5):
            bundles = list(FileSet._prepare_find_return(iter(files), False, False, n))
            ensures([x for b in bundles for x in b] == files, id="concatenation of the bundles is the sequence [%d files, bundle %d]" % (k, n))
            ensures(all(len(b) == n for b in bundles[:-1]) and all(0 < len(b) <= n for b in bundles), id="bundle sizes [%d files, bundle %d]" % (k, n))
    ensures(expect_raises(ValueError, lambda: list(FileSet._prepare_find_return(iter([_fi(0)]), False, False, 1.5))), id="bad bundle type -> ValueError")


@theorem(P, "CANARY-closed-end", t0=_dt("t0", 2), t1=_dt("t1", 2), s=_dt("s", 6), e=_dt("e", 6), canary=True)
def thm_canary_c01(t0, t1, s, e):
    # find() treats [start, end) as semi-open; claiming the closed interval (t0 <= end) MUST fail
    path, R = LAYOUTS["flat"]
    fs = FileSet(path=path, name="verif")
    requires(t0 <= t1, s < e, t0.year >= 1000, t1.year >= 1000, s.year >= 1000, e.year >= 1000)
    name = fs.get_filename((t0, t1))
    fs.file_system = GhostFS([name])
    found = list(fs.find(s, e, no_files_error=False))
    ensures(len(found) == (1 if (t0 <= e and t1 >= s) else 0), id="closed end (false)")


@bounded(P, "real-directory-trees", "real files on the local file system: 6 templates (depth 0..4, doy, user placeholder levels above / between / below the temporal ones), populations of "
         "1..6 files on a 6-hour lattice incl. files crossing midnight / month / year ends and zero-length coverages, all query "
         "periods on the same lattice (+- 1 microsecond), sort, bundle by count, exclusion, white/black lists")
def bounded_real_find(rng, tier):
    import tempfile, os, shutil, itertools
    templates = [
        ("{year}{month}{day}T{hour}-{end_year}{end_month}{end_day}T{end_hour}.nc", None),
        ("{year}/{month}/{day}/{hour}{minute}-{end_hour}{end_minute}.nc", timedelta(days=1)),
        ("{year}/{doy}/{sat}_{hour}{minute}-{end_hour}{end_minute}.nc", timedelta(days=1)),
        ("{sat}/{year}/{month}/{day}{hour}-{end_day}{end_hour}.nc", timedelta(days=28)),
        # non-temporal levels below / between the temporal ones, a wildcard level
        ("{year}/{month}/{day}/{sat}/{hour}{minute}-{end_hour}{end_minute}.nc", timedelta(days=1)),
        ("{year}/{sat}/{month}/{day}{hour}-{end_day}{end_hour}.nc", timedelta(days=28)),
    ]
    base_times = [datetime(2017, 12, 30) + timedelta(hours=6 * i) for i in range(0, 20)] + [datetime(2016, 2, 28, 18), datetime(2016, 2, 29, 6)]
    evals, failures, samples, distinct = 0, [], [], set()
    rounds = 12 if tier == "quick" else 80
    for tpl, R in templates:
        for _ in range(rounds):
            root = tempfile.mkdtemp(prefix="c01_")
            try:
                fs = FileSet(path=os.path.join(root, tpl), name="b")
                files = {}
                for _k in range(rng.randint(1, 6)):
                    t0 = rng.choice(base_times)
                    dur = rng.choice([0, 6, 12, 18]) if R is not None else rng.choice([0, 6, 30, 60])
                    t1 = t0 + timedelta(hours=dur)
                    if "{end_day}{end_hour}" in tpl and (t1.month != t0.month):
                        continue
                    sat = rng.choice(["A", "B"])
                    name = fs.get_filename((t0, t1), fill={"sat": sat})
                    os.makedirs(os.path.dirname(name), exist_ok=True)
                    open(name, "w").close()
                    files[name] = (t0, t1, sat)
                for _q in range(6):
                    s = rng.choice(base_times) + rng.choice([timedelta(0), timedelta(microseconds=1), -timedelta(microseconds=1)])
                    e = s + timedelta(hours=rng.choice([0, 6, 24, 72])) + timedelta(microseconds=1)
                    want = sorted((v[0], v[1], k) for k, v in files.items() if v[0] < e and v[1] >= s)
                    got = [(f.times[0], f.times[1], f.path) for f in fs.find(s, e, no_files_error=False)]
                    evals += 1
                    distinct.add((tpl, tuple(sorted(files)), s, e))
                    ok = sorted(got) == want and [g[:2] for g in got] == sorted(g[:2] for g in got)
                    if ok and "{sat}" in tpl:
                        w = [f.path for f in fs.find(s, e, no_files_error=False, filters={"sat": "A"})]
                        b = [f.path for f in fs.find(s, e, no_files_error=False, filters={"!sat": "A"})]
                        ok = sorted(w) == sorted(k for _, _, k in want if files[k][2] == "A") and \
                            sorted(b) == sorted(k for _, _, k in want if files[k][2] != "A")
                    if ok and want:
                        bundles = list(fs.find(s, e, no_files_error=False, bundle=2))
                        ok = [f.path for bb in bundles for f in bb] == [g[2] for g in sorted(got)] or \
                            sorted(f.path for bb in bundles for f in bb) == sorted(g[2] for g in got)
                    if ok and want:
                        # bundling by a time frequency only partitions the same ordered sequence; every bundle lies in one bin
                        for freq, width in (("6h", timedelta(hours=6)), ("1D", timedelta(days=1))):
                            tb = list(fs.find(s, e, no_files_error=False, bundle=freq))
                            flat = [(f.times[0], f.times[1]) for bb in tb for f in bb]
                            if flat != [g[:2] for g in sorted(got)] or any(len(bb) == 0 for bb in tb):
                                ok = False
                            origin = datetime(2000, 1, 1)
                            if any(len({(f.times[0] - origin) // width for f in bb}) != 1 for bb in tb):
                                ok = False
                    if not ok:
                        failures.append({"template": tpl, "files": {k: [str(v[0]), str(v[1])] for k, v in files.items()},
                                         "query": [str(s), str(e)], "got": [g[2] for g in got], "want": [w_[2] for w_ in want]})
                    elif len(samples) < 3 and want:
                        samples.append({"template": tpl, "query": [str(s), str(e)], "found": [w_[2][len(root):] for w_ in want]})
            finally:
                shutil.rmtree(root, ignore_errors=True)
    return {"evaluations": evals, "distinct_nontrivial": len(distinct), "failures": failures[:5], "samples": samples}


# ------------------------------------------------------------------ single-file filesets: the coverage comes from time_coverage
@theorem(P, "single-file-fileset", c0=_dt("c0", 6), c1=_dt("c1", 6), s=_dt("s", 6), e=_dt("e", 6))
def thm_single_file(c0, c1, s, e):
    requires(c0 <= c1, s < e, c0.year >= 1000, c1.year >= 1000, s.year >= 1000, e.year >= 1000)
    fs = FileSet(path="/data/all_in_one.nc", name="single", time_coverage=(c0, c1))
    ensures(fs.single_file, id="a path without temporal placeholders is a single-file fileset")
    fs.file_system = GhostFS(["/data/all_in_one.nc"])
    found = list(fs.find(s, e, no_files_error=False))
    hit = c0 < e and c1 >= s
    ensures(len(found) == (1 if hit else 0), id="the one file is found iff its time_coverage overlaps [start, end)")
    if hit:
        ensures(found[0].path == "/data/all_in_one.nc" and found[0].times[0] == c0 and found[0].times[1] == c1,
                id="... with the coverage given as time_coverage")
    fs2 = FileSet(path="/data/all_in_one.nc", name="single2", time_coverage=(c0, c1))
    fs2.file_system = GhostFS(["/data/all_in_one.nc"])
    raised = expect_raises(NoFilesError, lambda: list(fs2.find(s, e)))
    ensures(raised == (not hit), id="NoFilesError exactly when the file does not overlap the period")
    # without time_coverage the single file covers all time
    fs3 = FileSet(path="/data/all_in_one.nc", name="single3")
    fs3.file_system = GhostFS(["/data/all_in_one.nc"])
    all_time = list(fs3.find(s, e, no_files_error=False))
    ensures(len(all_time) == 1, id="without time_coverage a single file covers every period")
