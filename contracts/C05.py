"""C05 -- collocating filesets equals collocating all their data (typhon/collocations/collocator.py).

The property is about worker processes, result queues and output files.  What a per-function contract can decide is the
SEQUENTIAL core that each worker runs, `Collocator._process_caller`: whatever `_collocate_matches` yields for the worker's
matches reaches the result queue exactly once -- none lost, none flushed twice, the last bundle flushed at the end -- for
bundle=None, 'primary' and 'daily', with None results (no collocations) in between and with fewer results than matches
(files skipped under skip_file_errors).  `_should_save_cache` is under contract.  The collocations themselves are opaque
tokens; `_collocate_matches`, `_save_and_return` (hence concat_collocations, see C13's bounded check) and the queue are
ghost models.  Everything multi-process (interleavings of the workers' queue, the parent's draining loop, dying children)
is NOT decided here.
"""
from datetime import datetime, timedelta
from pyvc.dsl import *
from pyvc import sym as _sym
from pyvc.models import model as _model
from typhon.collocations.collocator import Collocator, ProcessCrashed
from typhon.files.handlers.common import FileInfo

P = "C05"
M = "typhon.collocations.collocator:"
NOT_DECIDED = [
    "collocate_filesets' parent loop: splitting the matches over processes, draining the bounded result / error queues while children "
    "are alive and after they died, any interleaving of the workers (multi-process behaviour is outside per-function contracts)",
    "FileSet.match / align correctness for the file pairing (C03, C10), collocate() itself (C04), concat_collocations (C13 bounded)",
    "writing and naming of the output files (Collocations fileset), search() in typhon/collocations/common.py",
    "more than 6 results per worker (the loop is unrolled on concrete result streams; the collocations are opaque)",
]
ASSUMPTIONS = [
    "a multiprocessing queue delivers what is put, in order, per producer (ghost list)",
    "_save_and_return(list) returns one object standing for exactly the collocations in the list (concat_collocations: C13)",
]
REG.inline_ok.add(M + "Collocator._process_caller")
REG.inline_ok.add(M + "Collocator._should_save_cache")
for _n in ("FileInfo.__init__", "FileInfo.path", "FileInfo.times"):
    REG.inline_ok.add("typhon.files.handlers.common:" + _n)


class Token:
    """an opaque collocation result of one file match"""

    def __init__(self, tag, start):
        self.tag = tag
        self.attrs = {"start_time": str(start), "end_time": str(start + timedelta(minutes=5))}

    def __repr__(self):
        return "Token(%s)" % self.tag


class GhostQueue:
    __pyvc_symbolic__ = False

    def __init__(self):
        self.items = []

    def put(self, item, *a, **k):
        self.items.append(item)


@_model(Collocator._collocate_matches, always=True)
def _collocate_matches(interp, self, **kwargs):
    stream = interp.ctx.ghost["c05_stream"]
    interp.ctx.ghost["c05_kwargs"] = kwargs
    out = []
    for item in stream:
        if isinstance(item, BaseException):
            # the generator raises at this point: modelled by a list that raises when this element is taken
            return _Raising(out, item)
        out.append(item)
    return iter(out)


class _Raising:
    def __init__(self, head, exc):
        self.head, self.exc = list(head), exc

    def __iter__(self):
        return self

    def __next__(self):
        if self.head:
            return self.head.pop(0)
        raise self.exc


@_model(Collocator._save_and_return, always=True)
def _save_and_return(interp, self, collocations, attributes, output, post_processor, post_processor_kwargs):
    content = tuple(collocations) if isinstance(collocations, list) else (collocations,)
    return ("saved", content, dict(attributes))


for _nm in ("_debug", "_info", "_error"):
    _model(getattr(Collocator, _nm), always=True)(lambda interp, self, msg=None, *a: None)


def _matches(structure):
    """[(primary FileInfo, [secondary FileInfo, ...]), ...] from a list of secondary counts per primary"""
    out = []
    t0 = datetime(2020, 1, 1)
    for i, k in enumerate(structure):
        p = FileInfo("/p/f%d.nc" % i, [t0 + timedelta(hours=i), t0 + timedelta(hours=i + 1)], {"n": i})
        out.append((p, [FileInfo("/s/g%d_%d.nc" % (i, j), [t0 + timedelta(hours=i, minutes=10 * j), t0 + timedelta(hours=i, minutes=10 * j + 9)], {})
                        for j in range(k)]))
    return out


def _run(structure, stream, bundle):
    ctx = _sym.ctx()
    self = object.__new__(Collocator)
    self.name = "w"
    results, errors = GhostQueue(), GhostQueue()
    ctx.ghost["c05_stream"] = stream
    # (a static method that receives the Collocator explicitly: it is the target of multiprocessing.Process)
    Collocator._process_caller(self, results, errors, "worker-1", None, bundle, None, None, matches=_matches(structure), filesets=None,
                               skip_file_errors=True)
    return results.items, errors.items


def _flatten(puts):
    out = []
    for name, progress, result in puts:
        if result is not None:
            out.extend(result[1])
    return out


for _f in (_run, _flatten, _matches):
    _f.__pyvc_thm__ = True


# result streams: (secondaries per primary, what _collocate_matches yields for them).  A token's day / primary decide the
# bundle tags; None = a match without collocations; a stream shorter than the match list = matches skipped by align().
def _streams():
    d0, d1 = datetime(2020, 1, 1, 23, 50), datetime(2020, 1, 2, 0, 10)
    T = lambda tag, start=d0: (Token(tag, start), {"primary.n": tag})
    N = (None, None)
    return [
        ("empty", [1], []),
        ("one", [1], [T(0)]),
        ("only-none", [2], [N, N]),
        ("two-primaries", [2, 1], [T(0), T(1), T(2)]),
        ("none-in-between", [2, 2], [T(0), N, T(2), N]),
        ("day-change", [3], [T(0), T(1, d1), T(2, d1)]),
        ("alternating-days", [1, 1, 1, 1], [T(0), T(1, d1), T(2), T(3, d1)]),
        ("skipped-matches", [2, 2, 1], [T(0), T(1), T(2)]),                 # 5 matches, 3 results (files skipped)
        ("six", [3, 3], [T(0), T(1), N, T(3), T(4), T(5)]),
    ]


@theorem(P, "process-caller-conserves-results")
def thm_conserve():
    for label, structure, stream in _streams():
        for bundle in (None, "primary", "daily"):
            puts, errs = _run(structure, stream, bundle)
            want = [c for c, _a in stream if c is not None]
            tag = " [%s, bundle=%s]" % (label, bundle)
            ensures(errs == [], id="no error is reported" + tag)
            ensures(_flatten(puts) == want, id="every result reaches the queue exactly once, in order (none lost, none flushed twice, final flush)" + tag)
            ensures(all(p[0] == "worker-1" for p in puts), id="every message carries the worker's name" + tag)
            if bundle is None:
                ensures(len(puts) == len(stream), id="without bundling: one message per match result" + tag)
            nones = len([1 for c, _a in stream if c is None])
            ensures(len([1 for p in puts if p[2] is None]) == nones, id="a match without collocations gives a progress message without result" + tag)
            if bundle == "daily":
                ensures(all(len({t.attrs["start_time"][:10] for t in p[2][1]}) == 1 for p in puts if p[2] is not None),
                        id="daily bundles hold collocations of one day each" + tag)


class Boom(Exception):
    pass


@theorem(P, "process-caller-reports-a-crash")
def thm_crash():
    d0 = datetime(2020, 1, 1, 12)
    for bundle in (None, "primary"):
        stream = [(Token(0, d0), {}), Boom("reader failed")]
        ctx = _sym.ctx()
        self = object.__new__(Collocator)
        self.name = "w"
        results, errors = GhostQueue(), GhostQueue()
        ctx.ghost["c05_stream"] = stream
        raised = expect_raises(Boom, Collocator._process_caller, self, results, errors, "worker-1", None, bundle, None, None,
                               matches=_matches([2]), filesets=None, skip_file_errors=False)
        ensures(raised, id="an exception in the worker reaches its caller [bundle=%s]" % bundle)
        ensures(results.items[-1][2] is ProcessCrashed and results.items[-1][1] == 100.0,
                id="... after telling the parent that this process crashed [bundle=%s]" % bundle)
        ensures(len(errors.items) == 1 and errors.items[0][0] == "worker-1" and "reader failed" in errors.items[0][2],
                id="... and putting the error message on the error queue [bundle=%s]" % bundle)


@theorem(P, "should-save-cache")
def thm_ssc():
    m = _matches([1, 1])
    day = datetime(2020, 1, 1, 10)
    ensures(not Collocator._should_save_cache("primary", None, m[0], day), id="nothing cached yet: never flush")
    ensures(not Collocator._should_save_cache("primary", m[0][0].path, [m[0][0], m[0][1][0]], day), id="same primary: keep collecting")
    ensures(Collocator._should_save_cache("primary", m[0][0].path, [m[1][0], m[1][1][0]], day), id="another primary: flush")
    ensures(not Collocator._should_save_cache("daily", day.date(), m[0], day + timedelta(hours=5)), id="same day: keep collecting")
    ensures(Collocator._should_save_cache("daily", day.date(), m[0], day + timedelta(days=1)), id="another day: flush")
    ensures(not Collocator._should_save_cache(None, "x", m[0], day), id="no bundling: never flush the cache")
