"""C05 -- collocating filesets equals collocating all their data (typhon/collocations/collocator.py).

The property is about worker processes, result queues and output files.  What a per-function contract can decide is the
SEQUENTIAL core that each worker runs, `Collocator._process_caller`: whatever `_collocate_matches` yields for the worker's
matches reaches the result queue exactly once -- none lost, none flushed twice, the last bundle flushed at the end -- for
bundle=None, 'primary' and 'daily', with None results (no collocations) in between and with fewer results than matches
(files skipped under skip_file_errors).  `_should_save_cache` is under contract.  The collocations themselves are opaque
tokens; `_collocate_matches`, `_save_and_return` (hence concat_collocations, see C13's bounded check) and the queue are
ghost models.  Everything multi-process (interleavings of the workers' queue, the parent's draining loop, dying children)
is NOT decided here.
"""
from datetime import datetime, timedelta
from pyvc.dsl import *
from pyvc import sym as _sym
from pyvc.models import model as _model
from typhon.collocations.collocator import Collocator, ProcessCrashed
from typhon.files.handlers.common import FileInfo

P = "C05"
M = "typhon.collocations.collocator:"
NOT_DECIDED = [
    "collocate_filesets' parent loop: splitting the matches over processes, draining the bounded result / error queues while children "
    "are alive and after they died, any interleaving of the workers (multi-process behaviour is outside per-function contracts)",
    "FileSet.match / align correctness for the file pairing (C03, C10), collocate() itself (C04), concat_collocations (C13 bounded)",
    "writing and naming of the output files (Collocations fileset), search() in typhon/collocations/common.py",
    "more than 6 results per worker (the loop is unrolled on concrete result streams; the collocations are opaque)",
]
ASSUMPTIONS = [
    "a multiprocessing queue delivers what is put, in order, per producer (ghost list)",
    "_save_and_return(list) returns one object standing for exactly the collocations in the list (concat_collocations: C13)",
]
REG.inline_ok.add(M + "Collocator._process_caller")
REG.inline_ok.add(M + "Collocator._should_save_cache")
for _n in ("FileInfo.__init__", "FileInfo.path", "FileInfo.times"):
    REG.inline_ok.add("typhon.files.handlers.common:" + _n)


class Token:
    """an opaque collocation result of one file match"""

    def __init__(self, tag, start):
        self.tag = tag
        self.attrs = {"start_time": str(start), "end_time": str(start + timedelta(minutes=5))}

    def __repr__(self):
        return "Token(%s)" % self.tag


class GhostQueue:
    __pyvc_symbolic__ = False

    def __init__(self):
        self.items = []

    def put(self, item, *a, **k):
        self.items.append(item)


@_model(Collocator._collocate_matches, always=True)
def _collocate_matches(interp, self, **kwargs):
    stream = interp.ctx.ghost["c05_stream"]
    interp.ctx.ghost["c05_kwargs"] = kwargs
    out = []
    for item in stream:
        if isinstance(item, BaseException):
            # the generator raises at this point: modelled by a list that raises when this element is taken
            return _Raising(out, item)
        out.append(item)
    return iter(out)


class _Raising:
    def __init__(self, head, exc):
        self.head, self.exc = list(head), exc

    def __iter__(self):
        return self

    def __next__(self):
        if self.head:
            return self.head.pop(0)
        raise self.exc


@_model(Collocator._save_and_return, always=True)
def _save_and_return(interp, self, collocations, attributes, output, post_processor, post_processor_kwargs):
    content = tuple(collocations) if isinstance(collocations, list) else (collocations,)
    return ("saved", content, dict(attributes))


for _nm in ("_debug", "_info", "_error"):
    _model(getattr(Collocator, _nm), always=True)(lambda interp, self, msg=None, *a: None)


def _matches(structure):
    """[(primary FileInfo, [secondary FileInfo, ...]), ...] from a list of secondary counts per primary"""
    out = []
    t0 = datetime(2020, 1, 1)
    for i, k in enumerate(structure):
        p = FileInfo("/p/f%d.nc" % i, [t0 + timedelta(hours=i), t0 + timedelta(hours=i + 1)], {"n": i})
        out.append((p, [FileInfo("/s/g%d_%d.nc" % (i, j), [t0 + timedelta(hours=i, minutes=10 * j), t0 + timedelta(hours=i, minutes=10 * j + 9)], {})
                        for j in range(k)]))
    return out


def _run(structure, stream, bundle):
    ctx = _sym.ctx()
    self = object.__new__(Collocator)
    self.name = "w"
    results, errors = GhostQueue(), GhostQueue()
    ctx.ghost["c05_stream"] = stream
    # (a static method that receives the Collocator explicitly: it is the target of multiprocessing.Process)
    Collocator._process_caller(self, results, errors, "worker-1", None, bundle, None, None, matches=_matches(structure), filesets=None,
                               skip_file_errors=True)
    return results.items, errors.items


def _flatten(puts):
    out = []
    for name, progress, result in puts:
        if result is not None:
            out.extend(result[1])
    return out


for _f in (_run, _flatten, _matches):
    _f.__pyvc_thm__ = True


# result streams: (secondaries per primary, what _collocate_matches yields for them).  A token's day / primary decide the
# bundle tags; None = a match without collocations; a stream shorter than the match list = matches skipped by align().
def _streams():
    d0, d1 = datetime(2020, 1, 1, 23, 50), datetime(2020, 1, 2, 0, 10)
    T = lambda tag, start=d0: (Token(tag, start), {"primary.n": tag})
    N = (None, None)
    return [
        ("empty", [1], []),
        ("one", [1], [T(0)]),
        ("only-none", [2], [N, N]),
        ("two-primaries", [2, 1], [T(0), T(1), T(2)]),
        ("none-in-between", [2, 2], [T(0), N, T(2), N]),
        ("day-change", [3], [T(0), T(1, d1), T(2, d1)]),
        ("alternating-days", [1, 1, 1, 1], [T(0), T(1, d1), T(2), T(3, d1)]),
        ("skipped-matches", [2, 2, 1], [T(0), T(1), T(2)]),                 # 5 matches, 3 results (files skipped)
        ("six", [3, 3], [T(0), T(1), N, T(3), T(4), T(5)]),
    ]


def _all_streams(max_len):
    """every result stream up to max_len over {primary a / day 0, primary a / day 1, primary b / day 0, no collocations}"""
    import itertools
    d0, d1 = datetime(2020, 1, 1, 23, 50), datetime(2020, 1, 2, 0, 10)
    out = []
    for n in range(max_len + 1):
        for word in itertools.product("AaBn", repeat=n):
            structure, stream, cur = [], [], None
            for k, ch in enumerate(word):
                prim = "b" if ch == "B" else "a"
                if prim != cur:
                    structure.append(0)
                    cur = prim
                structure[-1] += 1
                stream.append((None, None) if ch == "n" else (Token(k, d1 if ch == "a" else d0), {"primary.n": k}))
            out.append(("".join(word) or "-", structure or [1], stream))
    return out


import os as _os
_THOROUGH = _os.environ.get("VERIF_TIER_EFFECTIVE", "quick") == "thorough"


@theorem(P, "process-caller-conserves-results")
def thm_conserve():
    for label, structure, stream in (_streams() + (_all_streams(4) if _THOROUGH else [])):
        for bundle in (None, "primary", "daily"):
            puts, errs = _run(structure, stream, bundle)
            want = [c for c, _a in stream if c is not None]
            tag = " [%s, bundle=%s]" % (label, bundle)
            ensures(errs == [], id="no error is reported" + tag)
            ensures(_flatten(puts) == want, id="every result reaches the queue exactly once, in order (none lost, none flushed twice, final flush)" + tag)
            ensures(all(p[0] == "worker-1" for p in puts), id="every message carries the worker's name" + tag)
            if bundle is None:
                ensures(len(puts) == len(stream), id="without bundling: one message per match result" + tag)
            nones = len([1 for c, _a in stream if c is None])
            ensures(len([1 for p in puts if p[2] is None]) == nones, id="a match without collocations gives a progress message without result" + tag)
            if bundle == "daily":
                ensures(all(len({t.attrs["start_time"][:10] for t in p[2][1]}) == 1 for p in puts if p[2] is not None),
                        id="daily bundles hold collocations of one day each" + tag)


class Boom(Exception):
    pass


@theorem(P, "process-caller-reports-a-crash")
def thm_crash():
    d0 = datetime(2020, 1, 1, 12)
    for bundle in (None, "primary"):
        stream = [(Token(0, d0), {}), Boom("reader failed")]
        ctx = _sym.ctx()
        self = object.__new__(Collocator)
        self.name = "w"
        results, errors = GhostQueue(), GhostQueue()
        ctx.ghost["c05_stream"] = stream
        raised = expect_raises(Boom, Collocator._process_caller, self, results, errors, "worker-1", None, bundle, None, None,
                               matches=_matches([2]), filesets=None, skip_file_errors=False)
        ensures(raised, id="an exception in the worker reaches its caller [bundle=%s]" % bundle)
        ensures(results.items[-1][2] is ProcessCrashed and results.items[-1][1] == 100.0,
                id="... after telling the parent that this process crashed [bundle=%s]" % bundle)
        ensures(len(errors.items) == 1 and errors.items[0][0] == "worker-1" and "reader failed" in errors.items[0][2],
                id="... and putting the error message on the error queue [bundle=%s]" % bundle)


@theorem(P, "should-save-cache")
def thm_ssc():
    m = _matches([1, 1])
    day = datetime(2020, 1, 1, 10)
    ensures(not Collocator._should_save_cache("primary", None, m[0], day), id="nothing cached yet: never flush")
    ensures(not Collocator._should_save_cache("primary", m[0][0].path, [m[0][0], m[0][1][0]], day), id="same primary: keep collecting")
    ensures(Collocator._should_save_cache("primary", m[0][0].path, [m[1][0], m[1][1][0]], day), id="another primary: flush")
    ensures(not Collocator._should_save_cache("daily", day.date(), m[0], day + timedelta(hours=5)), id="same day: keep collecting")
    ensures(Collocator._should_save_cache("daily", day.date(), m[0], day + timedelta(days=1)), id="another day: flush")
    ensures(not Collocator._should_save_cache(None, "x", m[0], day), id="no bundling: never flush the cache")


# ------------------------------------------------------------------ the worker with the real _collocate_matches and align():
# an unreadable file (skip_file_errors) only removes the collocations that involve that file
import contracts.C10 as _c10                     # noqa: E402  (ghost executors / futures, inline list for align, icollect, imap)
from typhon.files.fileset import FileSet as _FileSet           # noqa: E402

REG.inline_ok.add(M + "Collocator._collocate_matches")
REG.inline_ok.add(M + "check_collocation_data")


class _Sized:
    def __init__(self, n):
        self.size = n


class PairToken(Token):
    """the collocations between the data of one primary and one secondary file (opaque)"""

    def __init__(self, p, s):
        Token.__init__(self, (p, s), datetime(2020, 1, 1))
        self.variables = {"Collocations/pairs": None, "Collocations/group": None}

    def __getitem__(self, key):
        return _Sized(1)

    def __setitem__(self, key, value):
        self.variables[key] = value


class _Data:
    def __init__(self, path):
        self.path = path

    def copy(self):
        return _Data(self.path)


class _Reader:
    def __init__(self, failing):
        self.failing, self.reads = set(failing), []

    def read(self, file_info, **kw):
        self.reads.append(file_info.path)
        if file_info.path in self.failing:
            raise _c10.ReadError(file_info.path)
        return _Data(file_info.path)


_Reader.read.__pyvc_thm__ = True


def _ghost_collocate(interp, self, primary, secondary, **kwargs):
    return PairToken(primary[1].path, secondary[1].path)


def _real_stream_case(structure, failing_p, failing_s, bundle):
    ctx = _sym.ctx()
    matches = _matches_shared(structure)
    prim_paths = [m[0].path for m in matches]
    sec = {}
    for m in matches:
        for s in m[1]:
            sec[s.path] = s
    fp = _FileSet(path="/p/{year}{month}{day}{hour}.nc", name="P", worker_type="thread")
    fs = _FileSet(path="/s/{year}{month}{day}{hour}{minute}.nc", name="S", worker_type="thread")
    fp.handler = _Reader({prim_paths[i] for i in failing_p})
    fs.handler = _Reader({"/s/g%d.nc" % j for j in failing_s})
    self = object.__new__(Collocator)
    self.name = "w"
    results, errors = GhostQueue(), GhostQueue()
    ctx.ghost["c05_real_matches"] = True
    Collocator._process_caller(self, results, errors, "worker-1", None, bundle, None, None, matches=matches, filesets=[fp, fs],
                               skip_file_errors=True)
    ctx.ghost["c05_real_matches"] = False
    return results.items, errors.items, fp, fs


def _matches_shared(structure):
    """structure: per primary the list of secondary numbers (secondaries may be shared between primaries)"""
    t0 = datetime(2020, 1, 1)
    secs = {}
    out = []
    for i, row in enumerate(structure):
        p = FileInfo("/p/f%d.nc" % i, [t0 + timedelta(hours=i), t0 + timedelta(hours=i + 1)], {"n": i})
        lst = []
        for j in row:
            if j not in secs:
                secs[j] = FileInfo("/s/g%d.nc" % j, [t0 + timedelta(minutes=25 * j), t0 + timedelta(minutes=25 * j + 24)], {})
            lst.append(secs[j])
        out.append((p, lst))
    return out


for _f in (_real_stream_case, _matches_shared):
    _f.__pyvc_thm__ = True
_orig_cm_model = _collocate_matches


@_model(Collocator._collocate_matches, always=True)
def _collocate_matches_switch(interp, self, **kwargs):
    """the ghost stream (theorems above) or the REAL generator on top of align() (theorem below)"""
    if interp.ctx.ghost.get("c05_real_matches"):
        interp.inlined_functions[id(Collocator._collocate_matches.__code__)] = Collocator._collocate_matches
        return interp.run_function(Collocator._collocate_matches, [self], kwargs)
    return _orig_cm_model(interp, self, **kwargs)


_model(Collocator.collocate, always=True)(_ghost_collocate)


@theorem(P, "unreadable-file-only-removes-its-own-collocations")
def thm_skip():
    structures = [[[0, 1], [1, 2], [2], [3, 4]], [[0], [0], [0, 1]]]
    for si, structure in enumerate(structures):
        n_p = len(structure)
        n_s = 1 + max(j for row in structure for j in row)
        cases = [((), ())] + [((i,), ()) for i in range(n_p)] + [((), (j,)) for j in range(n_s)]
        for failing_p, failing_s in cases:
            for bundle in (None, "primary"):
                puts, errs, fp, fs = _real_stream_case(structure, failing_p, failing_s, bundle)
                want = [("/p/f%d.nc" % i, "/s/g%d.nc" % j) for i, row in enumerate(structure) for j in row
                        if i not in failing_p and j not in failing_s]
                tag = " [structure %d, unreadable primaries %s secondaries %s, bundle=%s]" % (si, list(failing_p), list(failing_s), bundle)
                ensures(errs == [], id="the worker does not crash" + tag)
                ensures([t.tag for t in _flatten(puts)] == want,
                        id="exactly the collocations of the file pairs whose two files were readable reach the queue, each once" + tag)


# these client programs only make sense on the ghost executors / queues: no concrete replay
for _t in REG.theorems:
    if _t.prop == P:
        _t.no_concrete_replay = True


# ------------------------------------------------------------------ bounded: a bundle is named by the time span of what it holds
@bounded(P, "bundle-named-by-its-span", "the REAL _save_and_return / concat_collocations on real compact collocation datasets (1..4 per bundle, "
         "primary times of the members NOT in chronological order, members overlapping in time): the (start, end) handed to the output "
         "fileset's get_filename, and the start_time / end_time attributes of the merged dataset, must be the earliest / latest primary "
         "time the bundle holds; 40 (quick) / 300 (thorough) bundles")
def bounded_bundle_names(rng, tier):
    import warnings
    warnings.filterwarnings("ignore", message="Discarding nonzero nanoseconds")
    import numpy as np
    import pandas as pd
    from contracts.C13 import _compact
    rounds = 40 if tier == "quick" else 300
    evals, failures, samples, distinct = 0, [], [], set()

    class Recorder:
        def __init__(self):
            self.names, self.written = [], []

        def get_filename(self, times, fill=None):
            self.names.append(tuple(times))
            return "/out/%d.nc" % len(self.names)

        def write(self, data, filename):
            self.written.append((filename, data))
    real_sar = Collocator.__dict__["_save_and_return"]
    for r in range(rounds):
        nprng = np.random.RandomState(rng.randint(0, 2**31 - 1))
        k = rng.randint(1, 4)
        members = []
        for q in range(k):
            ds = _compact(nprng, rng, rng.randint(1, 6), rng.randint(1, 6), rng.randint(1, 12))
            shift = np.timedelta64(rng.randint(-3000, 3000), "s")             # members are NOT ordered in time
            ds["A/time"] = ds["A/time"] + shift
            ds["B/time"] = ds["B/time"] + shift
            ta = ds["A/time"].values
            ds.attrs = {"start_time": str(pd.Timestamp(ta.min())), "end_time": str(pd.Timestamp(ta.max()))}
            members.append(ds)
        evals += 1
        distinct.add((r, k))
        rec = Recorder()
        self = object.__new__(Collocator)
        self.name = "w"
        try:
            with warnings.catch_warnings():
                warnings.simplefilter("ignore")
                real_sar(self, [m.copy(deep=True) for m in members], {"primary.n": 1}, rec, None, None)
        except Exception as exc:
            failures.append({"round": r, "members": k, "problem": "exception %r" % (exc,)})
            continue
        all_t = np.concatenate([m["A/time"].values for m in members])
        want = (pd.Timestamp(all_t.min()).to_pydatetime(), pd.Timestamp(all_t.max()).to_pydatetime())
        merged = rec.written[0][1] if rec.written else None
        problems = []
        if len(rec.names) != 1 or tuple(pd.Timestamp(t).to_pydatetime() for t in rec.names[0]) != want:
            problems.append("file named for %s but the bundle spans %s" % ([str(t) for t in (rec.names[0] if rec.names else ())], [str(t) for t in want]))
        if merged is not None and (pd.Timestamp(merged.attrs["start_time"]).to_pydatetime(), pd.Timestamp(merged.attrs["end_time"]).to_pydatetime()) != want:
            problems.append("start_time / end_time attributes %s %s differ from the span of the merged primary times"
                            % (merged.attrs["start_time"], merged.attrs["end_time"]))
        if merged is not None and merged["Collocations/pairs"].shape[1] != sum(m["Collocations/pairs"].shape[1] for m in members):
            problems.append("the written bundle does not hold all pairs of its members")
        if problems:
            failures.append({"round": r, "members": k, "problem": "; ".join(problems)})
        elif len(samples) < 3:
            samples.append({"round": r, "members": k, "span": [str(t) for t in want]})
    return {"evaluations": evals, "distinct_nontrivial": len(distinct), "failures": failures[:5], "samples": samples}


# ------------------------------------------------------------------ bounded: collocate_filesets / Collocations.search end to end
# (real worker processes, real queues, real files: what per-function contracts cannot decide, as a bounded stand-in)
def _read_pickle(file_info, **kwargs):
    import pickle
    with open(file_info.path, "rb") as fh:
        return pickle.load(fh)


@bounded(P, "collocate-filesets-end-to-end", "two filesets of pickled xarray files in a temporary directory (primary hourly, secondary "
         "half-hourly or 20-minute files over 3 hours crossing midnight, 1..6 points per file at 4 well separated sites, every point in "
         "the file whose name covers its time), period cutting through the first and last file; processes 1..3, bundle None / 'primary' / "
         "'daily', output to memory and to a Collocations fileset (files named by the span of what they hold, read back per sub-period): "
         "the multiset of (primary id, secondary id) pairs must equal a brute-force search over all points; 3 (quick) / 36 (thorough) "
         "configurations with a max_interval of 10 minutes plus 1 / 3 with a max_interval of more than a day")
def bounded_filesets(rng, tier):
    import itertools
    import logging
    import os as _os2
    import pickle
    import shutil
    import tempfile
    import warnings
    from collections import Counter
    import numpy as np
    import xarray as xr
    from typhon.collocations import Collocations
    from typhon.files import FileSet as _FS
    from typhon.files.handlers.common import FileHandler
    evals, failures, samples, distinct = 0, [], [], set()
    day = datetime(2020, 1, 1, 22, 0)
    max_interval, max_km = timedelta(minutes=10), 50.0

    def make(root, name, minutes, id_name, first_id):
        d = _os2.path.join(root, name)
        _os2.makedirs(d)
        points, k = [], first_id
        for f in range(180 // minutes):
            s = day + timedelta(minutes=minutes * f)
            e = s + timedelta(minutes=minutes) - timedelta(seconds=1)
            rows = []
            for _ in range(rng.randint(1, 6)):
                tm = s + timedelta(seconds=rng.randint(0, minutes * 60 - 1))
                rows.append((k, tm, rng.randrange(4)))
                k += 1
            rows.sort(key=lambda r_: r_[1])
            ds = xr.Dataset({"time": ("time", np.array([r_[1] for r_ in rows], dtype="M8[ns]")),
                             "lat": ("time", np.zeros(len(rows))), "lon": ("time", np.array([10.0 * r_[2] for r_ in rows])),
                             id_name: ("time", np.array([r_[0] for r_ in rows], dtype=int))})
            with open(_os2.path.join(d, "%s-%s.pkl" % (s.strftime("%Y%m%d_%H%M%S"), e.strftime("%Y%m%d_%H%M%S"))), "wb") as fh:
                pickle.dump(ds, fh)
            points += rows
        fs = _FS(path=_os2.path.join(d, "{year}{month}{day}_{hour}{minute}{second}-{end_year}{end_month}{end_day}_{end_hour}{end_minute}{end_second}.pkl"),
                 handler=FileHandler(reader=_read_pickle), name=name)
        return fs, points
    configs = [(1, None, False), (2, "primary", False), (2, "daily", True)] if tier == "quick" else \
        list(itertools.product([1, 2, 3], [None, "primary", "daily"], [False, True])) * 2
    # the last configuration(s) run with a max_interval of more than a day (every file of one side is a partner of every file of the other)
    long_from = len(configs)
    configs = configs + ([(1, None, False)] if tier == "quick" else [(1, None, False), (2, "primary", False), (3, "daily", True)])
    # one more kind of configuration: a file overwritten with garbage, skip_file_errors=True (memory output)
    corrupt_runs = [(1, None), (2, "primary")] if tier == "quick" else [(p_, b_) for p_ in (1, 2, 3) for b_ in (None, "primary", "daily")]
    logging.disable(logging.CRITICAL)
    root = tempfile.mkdtemp(prefix="c05_")
    try:
        data_sets = {}
        for ci, (processes, bundle, to_files) in enumerate(configs):
            di = 0 if tier == "quick" else min(ci // 18, 1)
            max_interval = timedelta(days=1, minutes=10) if ci >= long_from else timedelta(minutes=10)
            if di not in data_sets:
                r2 = _os2.path.join(root, "data%d" % di)
                P_, pp = make(r2, "P", 60, "pid", 0)
                S_, sp = make(r2, "S", rng.choice([30, 20]), "sid", 1000)
                data_sets[di] = (P_, pp, S_, sp)
            P_, pp, S_, sp = data_sets[di]
            start, end = day + timedelta(minutes=17), day + timedelta(minutes=163)
            truth = Counter((p[0], s[0]) for p in pp for s in sp
                            if p[2] == s[2] and abs(p[1] - s[1]) < max_interval and start <= p[1] <= end and start <= s[1] <= end)
            evals += 1
            distinct.add((di, processes, bundle, to_files, ci >= long_from))
            case = {"dataset": di, "processes": processes, "bundle": bundle, "max_interval": str(max_interval), "output": "fileset" if to_files else "memory", "true_pairs": sum(truth.values())}
            kwargs = dict(start=start, end=end, max_interval=max_interval, max_distance=max_km, processes=processes, bundle=bundle)

            def pairs_of(ds):
                pr = ds["Collocations/pairs"].values.astype(int)
                return list(zip(ds["P/pid"].values[pr[0]].astype(int).tolist(), ds["S/sid"].values[pr[1]].astype(int).tolist(),
                                ds["P/time"].values[pr[0]].astype("M8[us]").tolist()))
            problems = []
            try:
                with warnings.catch_warnings():
                    warnings.simplefilter("ignore")
                    found = Counter()
                    if not to_files:
                        for ds, _attrs in Collocator().collocate_filesets([P_, S_], **kwargs):
                            found.update((a, b) for a, b, _t in pairs_of(ds))
                    else:
                        out_dir = _os2.path.join(root, "out%d" % ci)
                        out = Collocations(path=_os2.path.join(out_dir, "{year}{month}{day}_{hour}{minute}{second}-{end_year}{end_month}{end_day}_{end_hour}{end_minute}{end_second}.nc"),
                                           read_mode="compact", name="out")
                        out.search([P_, S_], **kwargs)
                        for fn in sorted(_os2.listdir(out_dir)) if _os2.path.isdir(out_dir) else []:
                            info = out.get_info(_os2.path.join(out_dir, fn))
                            content = pairs_of(out.read(info))
                            found.update((a, b) for a, b, _t in content)
                            tms = [t_ for _a, _b, t_ in content]
                            span = [min(tms).replace(microsecond=0), max(tms).replace(microsecond=0)]
                            if list(info.times) != span:
                                problems.append("file %s is named %s - %s but holds collocations from %s to %s" % (fn, info.times[0], info.times[1], span[0], span[1]))
                    if found != truth:
                        problems.append("pairs differ from the brute-force search: missing %s, surplus %s"
                                        % (sorted((truth - found).elements())[:4], sorted((found - truth).elements())[:4]))
            except Exception as exc:
                problems.append("exception %r" % (exc,))
            if problems:
                failures.append(dict(case, problem="; ".join(problems)[:700]))
            elif len(samples) < 3:
                samples.append(case)
        # unreadable file: only the collocations that involve its points may disappear
        max_interval = timedelta(minutes=10)
        r3 = _os2.path.join(root, "bad")
        P_, pp = make(r3, "P", 60, "pid", 0)
        S_, sp = make(r3, "S", 20, "sid", 1000)
        start, end = day, day + timedelta(minutes=179)
        for which, (processes, bundle) in enumerate(corrupt_runs):
            side, pts = (("S", sp) if which % 2 == 0 else ("P", pp))
            d_ = _os2.path.join(r3, side)
            victim = sorted(_os2.listdir(d_))[rng.randrange(len(_os2.listdir(d_)))]
            keep = _os2.path.join(r3, "saved.pkl")
            shutil.copy(_os2.path.join(d_, victim), keep)
            with open(_os2.path.join(d_, victim), "wb") as fh:
                fh.write(b"this is not a pickle")
            v_s = datetime.strptime(victim[:15], "%Y%m%d_%H%M%S")
            v_e = datetime.strptime(victim[16:31], "%Y%m%d_%H%M%S")
            lost = {p_[0] for p_ in pts if v_s <= p_[1] <= v_e}
            truth = Counter((p[0], s[0]) for p in pp for s in sp
                            if p[2] == s[2] and abs(p[1] - s[1]) < max_interval and p[0] not in lost and s[0] not in lost)
            evals += 1
            distinct.add(("corrupt", side, processes, bundle))
            case = {"unreadable": side + "/" + victim, "processes": processes, "bundle": bundle, "true_pairs": sum(truth.values())}
            try:
                with warnings.catch_warnings():
                    warnings.simplefilter("ignore")
                    found = Counter()
                    for ds, _attrs in Collocator().collocate_filesets([P_, S_], start=start, end=end, max_interval=max_interval, max_distance=max_km,
                                                                      processes=processes, bundle=bundle, skip_file_errors=True):
                        pr = ds["Collocations/pairs"].values.astype(int)
                        found.update(zip(ds["P/pid"].values[pr[0]].astype(int).tolist(), ds["S/sid"].values[pr[1]].astype(int).tolist()))
                if found != truth:
                    failures.append(dict(case, problem="with skip_file_errors more than the collocations of the unreadable file changed: missing %s, surplus %s"
                                         % (sorted((truth - found).elements())[:4], sorted((found - truth).elements())[:4])))
                elif len(samples) < 4:
                    samples.append(case)
            except Exception as exc:
                failures.append(dict(case, problem="exception %r" % (exc,)))
            finally:
                shutil.copy(keep, _os2.path.join(d_, victim))
    finally:
        logging.disable(logging.NOTSET)
        shutil.rmtree(root, ignore_errors=True)
    return {"evaluations": evals, "distinct_nontrivial": len(distinct), "failures": failures[:5], "samples": samples}
