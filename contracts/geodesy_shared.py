"""Contracts of typhon.geodesy functions that several properties rely on (owned by C07)."""
from pyvc.dsl import *
from typhon import geodesy as G

GM = "typhon.geodesy:"
RADS = "PI / 180"

c_sind = contract(GM + "sind", prop="C07", params=dict(x="real"), elementwise=True, ensures=["result == sin(x * %s)" % RADS])
c_cosd = contract(GM + "cosd", prop="C07", params=dict(x="real"), elementwise=True, ensures=["result == cos(x * %s)" % RADS])
c_sind.domain = c_cosd.domain = {"x": (-360.0, 360.0)}

c_g2c = contract(GM + "geocentric2cart", prop="C07", params=dict(r="real", lat="real", lon="real"), elementwise=True,
                 raises=[("r == 0", Exception)], result=("tuple", 3),
                 ensures=["result[0] == r * cos(lat * %s) * cos(lon * %s)" % (RADS, RADS),
                          "result[1] == r * cos(lat * %s) * sin(lon * %s)" % (RADS, RADS),
                          "result[2] == r * sin(lat * %s)" % RADS])
c_g2c.domain = {"r": (1.0, 7e6), "lat": (-90.0, 90.0), "lon": (-180.0, 180.0)}
