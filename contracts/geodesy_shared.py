"""Contracts of typhon.geodesy functions that several properties rely on (owned by C07)."""
from pyvc.dsl import *
from typhon import geodesy as G

GM = "typhon.geodesy:"
RADS = "PI / 180"

c_sind = contract(GM + "sind", prop="C07", params=dict(x="real"), elementwise=True, ensures=["result == sin(x * %s)" % RADS])
c_cosd = contract(GM + "cosd", prop="C07", params=dict(x="real"), elementwise=True, ensures=["result == cos(x * %s)" % RADS])
c_sind.domain = c_cosd.domain = {"x": (-360.0, 360.0)}

c_g2c = contract(GM + "geocentric2cart", prop="C07", params=dict(r="real", lat="real", lon="real"), elementwise=True,
                 raises=[("r == 0", Exception)], result=("tuple", 3),
                 ensures=["result[0] == r * cos(lat * %s) * cos(lon * %s)" % (RADS, RADS),
                          "result[1] == r * cos(lat * %s) * sin(lon * %s)" % (RADS, RADS),
                          "result[2] == r * sin(lat * %s)" % RADS])
c_g2c.domain = {"r": (1.0, 7e6), "lat": (-90.0, 90.0), "lon": (-180.0, 180.0)}


# ---- named trusted analytic axioms (A6) that need explicit instances
import z3 as _z3
from pyvc.sym import UF as _UF, PI as _PI


@lemma_axiom("sin_injective_principal")
def _sin_inj(u, v):
    """sin is injective on [-pi/2, pi/2]"""
    s = _UF["sin"]
    return _z3.Implies(_z3.And(u >= -_PI / 2, u <= _PI / 2, v >= -_PI / 2, v <= _PI / 2, s(u) == s(v)), u == v)


@lemma_axiom("angle_unique")
def _angle_unique(u, v):
    """an angle in (-pi, pi] is determined by its sine and cosine"""
    s, c = _UF["sin"], _UF["cos"]
    return _z3.Implies(_z3.And(u > -_PI, u <= _PI, v > -_PI, v <= _PI, s(u) == s(v), c(u) == c(v)), u == v)


@lemma_axiom("cos_add")
def _cos_add(u, v):
    s, c = _UF["sin"], _UF["cos"]
    return _z3.And(c(u + v) == c(u) * c(v) - s(u) * s(v), c(u - v) == c(u) * c(v) + s(u) * s(v))


@lemma_axiom("half_angle")
def _half_angle(u):
    """sin^2(u/2) == (1 - cos u)/2"""
    s, c = _UF["sin"], _UF["cos"]
    return s(u / 2) * s(u / 2) == (1 - c(u)) / 2
