"""C10 -- parallel map / imap / collect process each file once and keep file order (typhon/files/fileset.py).

The worker pools are ASSUMED contracts of concurrent.futures (GhostPool below): Executor.map yields the results in
submission order; submit returns a future whose result() is that task's value or re-raises its exception.  The
verified code never observes completion order (no as_completed, no done callbacks), so everything it returns is a
function of the per-task values alone -- this is what discharges the quantifier over schedules.  The ghost pool also
counts submitted-but-unconsumed futures.
"""
import concurrent.futures as _cf
import warnings as _warnings
from datetime import datetime, timedelta
from pyvc.dsl import *
from pyvc import sym as _sym
from pyvc.models import model as _model
from pyvc.interp import PyRaise as _PyRaise
from contracts import C02 as _c02
from typhon.files.fileset import FileSet
from typhon.files.handlers.common import FileInfo

P = "C10"
M = "typhon.files.fileset:"
NOT_DECIDED = ["the executors themselves (thread / process scheduling, pickling for process pools): assumed contracts",
               "align(): the secondary cache invariant is not under contract",
               "more than 6 files per run (the loops are unrolled on concrete file lists; task values and failures are arbitrary)"]
ASSUMPTIONS = [
    "concurrent.futures: Executor.map returns results in submission order; Future.result() returns the task's value or re-raises its exception",
    "tasks do not interfere with each other (each reads its own file)",
    "warnings.warn records a warning and returns",
]
for _n in ("FileSet.map", "FileSet.imap", "FileSet._configure_pool_and_worker_args", "FileSet._call_map_function", "FileSet.collect",
           "FileSet.icollect", "FileSet._pseudo_passer", "FileSet.read", "FileSet.copy", "FileSet.align"):
    REG.inline_ok.add(M + _n)
for _n in ("FileInfo.__init__", "FileInfo.copy", "FileInfo.path", "FileInfo.times"):
    REG.inline_ok.add("typhon.files.handlers.common:" + _n)


class GhostFuture:
    def __init__(self, pool, fn, arg):
        self.pool, self.fn, self.arg = pool, fn, arg
        self.consumed = False

    def result(self, timeout=None):
        if not self.consumed:
            self.consumed = True
            self.pool.in_flight -= 1
        if not hasattr(self, "_outcome"):
            try:
                self._outcome = ("ok", self.pool.interp.call_value(self.fn, [self.arg], {}))
            except _PyRaise as pr:
                self._outcome = ("raise", pr)
        if self._outcome[0] == "raise":
            raise self._outcome[1]
        return self._outcome[1]

    def done(self):
        """whether a task has finished is up to the scheduler.  The code under contract never asks (so its results hold for
        every schedule); if an edit makes it ask, FOUR canonical schedules are explored per theorem run (a bounded set):
        0 every task finishes at once, 1 no task finishes before its result is taken, 2 the oldest unconsumed task of the pool
        is slow and all others finish at once, 3 the newest task is slow."""
        if self.consumed:
            return True
        ctx = self.pool.interp.ctx
        if "c10_schedule" not in ctx.ghost:
            ctx.ghost["c10_schedule"] = ctx.choose(4, "schedule")
        s = ctx.ghost["c10_schedule"]
        pending = [f for f in self.pool.futures if not f.consumed]
        if s == 0:
            return True
        if s == 1:
            return False
        if s == 2:
            return not (pending and pending[0] is self)
        return not (pending and pending[-1] is self)


class GhostPool:
    __pyvc_symbolic__ = True

    def __init__(self, interp, max_workers=None, kind="thread"):
        self.interp, self.max_workers, self.kind = interp, max_workers, kind
        self.in_flight = 0
        self.max_in_flight = 0
        self.submitted = []
        self.futures = []
        interp.ctx.ghost.setdefault("pools", []).append(self)

    def __pyvc_enter__(self, interp):
        return self

    def __pyvc_exit__(self, interp, exc):
        return False

    def map(self, fn, iterable):
        args = list(self.interp.models.concrete_iter(self.interp, iterable))
        self.submitted += args
        return [self.interp.call_value(fn, [self._ship(a)], {}) for a in args]      # results in submission order (contract)

    def _ship(self, arg):
        """what the task sees: the very objects under a thread pool; under a process pool a pickled copy, so that lists and
        dicts inside the argument tuple are private to the task (builtin containers are copied, everything else is shared
        with the ghost -- identity of FileInfo / handler objects is not observable through the contract)"""
        if self.kind != "process":
            return arg

        def cp(v):
            if type(v) is list:
                return [cp(x) for x in v]
            if type(v) is tuple:
                return tuple(cp(x) for x in v)
            if type(v) is dict:
                return {k: cp(x) for k, x in v.items()}
            return v
        return cp(arg)

    def submit(self, fn, arg):
        arg = self._ship(arg)
        self.submitted.append(arg)
        self.in_flight += 1
        self.max_in_flight = max(self.max_in_flight, self.in_flight)
        fut = GhostFuture(self, fn, arg)
        self.futures.append(fut)
        return fut


@_model(_cf.ThreadPoolExecutor, always=True)
def _tpe(interp, max_workers=None, **k):
    return GhostPool(interp, max_workers, "thread")


@_model(_cf.ProcessPoolExecutor, always=True)
def _ppe(interp, max_workers=None, **k):
    return GhostPool(interp, max_workers, "process")


@_model(_warnings.warn, always=True)
def _warn(interp, msg, *a, **k):
    interp.ctx.ghost.setdefault("warned", []).append(str(msg)[:40])


import typhon.files as _TF
import typhon.files.utils as _TFU


class _Pass:
    def __init__(self, p):
        self.p = p

    def __pyvc_enter__(self, interp):
        return self.p

    def __pyvc_exit__(self, interp, exc):
        return False


@_model(_TF.decompress, _TFU.decompress, always=True)
def _decompress(interp, filename, tmpdir=None, **kw):
    return _Pass(filename)


class ReadError(Exception):
    pass


class FuncError(Exception):
    pass


class Handler:
    """a reader that fails on a given set of files and otherwise returns a value determined by the file"""

    def __init__(self, failing):
        self.failing = set(failing)
        self.reads = []

    def read(self, file_info, **read_args):
        self.reads.append(file_info.path)
        if file_info.path in self.failing:
            raise ReadError(file_info.path)
        return ("content", file_info.path, tuple(sorted(read_args.items())))


Handler.read.__pyvc_thm__ = True


def _files(k):
    return [FileInfo("/d/f%d.nc" % i, [datetime(2020, 1, 1) + timedelta(hours=i), datetime(2020, 1, 1) + timedelta(hours=i + 1)], {"n": i})
            for i in range(k)]


def _fileset(failing=()):
    fs = FileSet(path="/d/{year}{month}{day}{hour}.nc", name="verif", worker_type="thread")
    fs.handler = Handler(failing)
    return fs


def _pools():
    return _sym.ctx().ghost.get("pools", [])


import os as _os
_THOROUGH = _os.environ.get("VERIF_TIER_EFFECTIVE", "quick") == "thorough"


@theorem(P, "map-order-and-once")
def thm_map():
    for k in range(0, 9 if _THOROUGH else 6):
        for workers, wtype in ((None, None), (1, "thread"), (3, "process")):
            files = _files(k)
            fs = _fileset()
            res = fs.map(lambda info: ("r", info.path), files=files, max_workers=workers, worker_type=wtype)
            ensures(res == [("r", f.path) for f in files], id="map: one result per file, in file order [%d files, %s workers]" % (k, workers))
            res2 = fs.map(lambda c, info: (c[1], info.attr["n"]), files=files, on_content=True, pass_info=True, return_info=True,
                          read_args={"fields": ("a",)}, max_workers=workers, worker_type=wtype)
            ensures([r[0] for r in res2] == files and [r[1] for r in res2] == [(f.path, f.attr["n"]) for f in files],
                    id="map(return_info): results paired with their FileInfo [%d files, %s workers]" % (k, workers))
            ensures(fs.handler.reads == [f.path for f in files], id="every file is read exactly once [%d files, %s workers]" % (k, workers))
            # extra positional / keyword arguments, given as a list the caller keeps using (docstring: 'a list/tuple')
            shared, shared_kw = ["A", 7], {"b": 1}
            res3 = fs.map(lambda *a, **kw: (tuple(x.path if isinstance(x, FileInfo) else x for x in a), tuple(sorted(kw.items()))),
                          files=files, args=shared, kwargs=shared_kw, max_workers=workers, worker_type=wtype)
            ensures(res3 == [(("A", 7, f.path), (("b", 1),)) for f in files],
                    id="map(args=list, kwargs=dict): every task gets exactly the given extra arguments and its own file [%d files, %s workers]" % (k, workers))
            res4 = list(fs.imap(lambda *a, **kw: (tuple(x.path if isinstance(x, FileInfo) else x[1] if isinstance(x, tuple) else x for x in a), tuple(sorted(kw.items()))),
                                files=files, args=shared, kwargs=shared_kw, on_content=True, pass_info=True, max_workers=workers, worker_type=wtype))
            ensures(res4 == [(("A", 7, f.path, f.path), (("b", 1),)) for f in files],
                    id="imap(args=list, on_content, pass_info): extra arguments, then the content, then the file info [%d files, %s workers]" % (k, workers))


@theorem(P, "imap-lazy-bounded")
def thm_imap():
    for k in range(0, 10 if _THOROUGH else 7):
        for workers in ((None, 1, 2, 3, 4, 7) if _THOROUGH else (None, 1, 2, 3)):
            files = _files(k)
            fs = _fileset()
            n0 = len(_pools())
            out = list(fs.imap(lambda info: ("r", info.path), files=files, max_workers=workers, worker_type="thread"))
            ensures(out == [("r", f.path) for f in files], id="imap yields the same sequence as map [%d files, %s workers]" % (k, workers))
            pool = _pools()[n0]
            eff = 3 if workers is None else workers       # max_threads default of the fileset
            ensures(pool.max_in_flight <= eff, id="never more than max_workers submitted-but-unconsumed tasks [%d files, %s workers]" % (k, workers))
            ensures(pool.in_flight == 0 and len(pool.submitted) == k, id="every task is submitted once and consumed [%d files, %s workers]" % (k, workers))


@theorem(P, "errors-and-warnings")
def thm_errors():
    files = _files(4)
    bad = {files[1].path, files[3].path}
    ctx = _sym.ctx()
    # read errors under error_to_warning: a warning and None for that file, the others undisturbed
    fs = _fileset(bad)
    ctx.ghost["warned"] = []
    res = fs.map(lambda c: c[1], files=files, on_content=True, error_to_warning=True, max_workers=2, worker_type="thread")
    ensures(res == [files[0].path, None, files[2].path, None], id="failed reads give None, the other files keep their results and order")
    ensures(len(ctx.ghost["warned"]) == 2, id="one warning per unreadable file")
    # without error_to_warning the read error reaches the caller
    fs2 = _fileset(bad)
    ensures(expect_raises(ReadError, fs2.map, lambda c: c, files=files, on_content=True, worker_type="thread"), id="a read error propagates without error_to_warning")

    # an exception of the mapped function itself is never turned into a warning
    def boom(c):
        if c[1] == files[2].path:
            raise FuncError()
        return c[1]
    fs3 = _fileset()
    ctx.ghost["warned"] = []
    ensures(expect_raises(FuncError, fs3.map, boom, files=files, on_content=True, error_to_warning=True, worker_type="thread"),
            id="an exception in the task reaches the caller even with error_to_warning")
    ensures(ctx.ghost["warned"] == [], id="... and produces no warning")
    fs4 = _fileset()
    ensures(expect_raises(FuncError, lambda: list(fs4.imap(boom, files=files, on_content=True, error_to_warning=True, worker_type="thread"))),
            id="imap: likewise")
    # argument checking
    fs5 = _fileset()
    ensures(expect_raises(ValueError, fs5.map, lambda i: i, files=files, start="2020-01-01"), id="files together with start -> ValueError")
    ensures(expect_raises(ValueError, fs5.map, None, files=files), id="func=None -> ValueError")
    ensures(expect_raises(ValueError, fs5.map, lambda i: i, files=files, worker_type="fiber"), id="unknown worker type -> ValueError")


# ------------------------------------------------------------------ bundled file lists and the output-writing branch of the wrapper
class Out:
    """ghost output fileset: a name is ('out', times, fill); writes are recorded in order"""

    def __init__(self):
        self.written = []

    def get_filename(self, times, fill=None):
        return ("out", tuple(times), tuple(sorted((fill or {}).items())))

    def write(self, data, filename, in_background=False, **kw):
        self.written.append((filename, data))


Out.get_filename.__pyvc_thm__ = True
Out.write.__pyvc_thm__ = True


@theorem(P, "bundles-and-output")
def thm_bundles():
    for k in range(0, 8 if _THOROUGH else 6):
        files = _files(k)
        for b in (1, 2, 3):
            bundles = [files[i:i + b] for i in range(0, k, b)]
            fs = _fileset()
            res = fs.map(lambda contents, infos: ([c[1] for c in contents], [i.path for i in infos]), files=bundles, on_content=True,
                         pass_info=True, worker_type="thread", max_workers=2)
            ensures(res == [([f.path for f in bb], [f.path for f in bb]) for bb in bundles],
                    id="map over bundles: one result per bundle, in order, each with the contents and infos of its files [%d files, bundles of %d]" % (k, b))
            ensures(fs.handler.reads == [f.path for f in files], id="every file of every bundle is read exactly once [%d files, bundles of %d]" % (k, b))
            out2 = list(fs.imap(lambda infos: [i.path for i in infos], files=bundles, worker_type="thread", max_workers=2))
            ensures(out2 == [[f.path for f in bb] for bb in bundles], id="imap over bundles yields the same sequence [%d files, bundles of %d]" % (k, b))
    for k in range(0, 5):
        files = _files(k)
        fs, out = _fileset(), Out()
        res = fs.map(lambda c, info: None if info.attr["n"] == 1 else ("new", c[1]), files=files, on_content=True, pass_info=True,
                     output=out, return_info=True, worker_type="thread")
        ensures([r[0] for r in res] == files and [r[1] for r in res] == [f.attr["n"] != 1 for f in files],
                id="map(output=...): True for a written file, False when the function returned None [%d files]" % k)
        ensures(out.written == [(("out", tuple(f.times), (("n", f.attr["n"]),)), ("new", f.path)) for f in files if f.attr["n"] != 1],
                id="each result is written once, under the name of its own file's times and attributes, in file order [%d files]" % k)
        bundles = [files[i:i + 2] for i in range(0, k, 2)]
        fs2, out2 = _fileset(), Out()
        res2 = fs2.map(lambda infos: tuple(i.path for i in infos), files=bundles, output=out2, worker_type="thread")
        ensures(res2 == [True for _ in bundles], id="map(output=...) over bundles: one flag per bundle [%d files]" % k)
        ensures(out2.written == [(("out", (bb[0].times[0], bb[-1].times[1]), (("n", bb[0].attr["n"]),)), tuple(f.path for f in bb)) for bb in bundles],
                id="a bundle's result is written under the span from its earliest start to its latest end [%d files]" % k)


@theorem(P, "collect")
def thm_collect():
    for k in range(0, 5):
        files = _files(k)
        fs = _fileset()
        data = fs.collect(files=files) if k else None
        if k:
            ensures(data == [("content", f.path, ()) for f in files], id="collect returns the contents in file order [%d files]" % k)
            fl, dl = fs.collect(files=files, return_info=True)
            ensures(fl == files and dl == data, id="collect(return_info) pairs them with the FileInfo objects [%d files]" % k)
            ensures(list(fs.icollect(files=files)) == data, id="icollect yields the same sequence [%d files]" % k)
    # all reads fail under error_to_warning: an empty result, not an exception
    files = _files(3)
    fs = _fileset({f.path for f in files})
    _sym.ctx().ghost["warned"] = []
    got = fs.collect(files=files, error_to_warning=True)
    ensures(got == [], id="collect with every file unreadable (error_to_warning) returns []")
    fs2 = _fileset({files[0].path})
    ensures(fs2.collect(files=files, error_to_warning=True) == [("content", f.path, ()) for f in files[1:]], id="None contents are dropped, order kept")
    # with return_info the file list and the data list stay paired: an unreadable file is dropped from BOTH
    files4 = _files(4)
    for bad in ({files4[1].path}, {files4[0].path, files4[3].path}, {f.path for f in files4}):
        fs3 = _fileset(bad)
        fl3, dl3 = fs3.collect(files=files4, return_info=True, error_to_warning=True)
        keep = [f for f in files4 if f.path not in bad]
        ensures(fl3 == keep and dl3 == [("content", f.path, ()) for f in keep],
                id="collect(return_info, error_to_warning): infos and contents stay paired, unreadable files are in neither [%d unreadable]" % len(bad))
    ensures(expect_raises(ValueError, _fileset().collect, "2020-01-01", "2020-01-02", files), id="files together with start/end -> ValueError")


# ------------------------------------------------------------------ align

def _align_case(failing_p, failing_s, return_info, structure):
    prim = _files(len(structure))
    sec = [FileInfo("/e/s%d.nc" % i, [datetime(2020, 1, 1) + timedelta(minutes=30 * i), datetime(2020, 1, 1) + timedelta(minutes=30 * i + 45)], {"n": i})
           for i in range(1 + max([j for row in structure for j in row] + [0]))]
    matches = [(prim[i], [sec[j] for j in row]) for i, row in enumerate(structure)]
    fp = _fileset({prim[i].path for i in failing_p})
    fsec = FileSet(path="/e/{year}{month}{day}{hour}{minute}.nc", name="verif2", worker_type="thread")
    fsec.handler = Handler({sec[j].path for j in failing_s})
    return prim, sec, matches, fp, fsec


STRUCTURES = [
    [[0, 1], [1, 2], [2], [3, 4]],          # shared secondaries between neighbours
    [[0], [0], [0, 1]],                     # one secondary needed by three primaries
    [[0, 1, 2]],                            # a single primary
    [[0], [1], [2], [3]],                   # one to one
    [[1, 2], [0, 1]],                       # (as match() never orders them, but `matches=` is the caller's)
]


@theorem(P, "align")
def thm_align():
    ctx = _sym.ctx()
    for si, structure in enumerate(STRUCTURES):
        if si == 4 and not _THOROUGH:
            continue
        n_p = len(structure)
        n_s = 1 + max(j for row in structure for j in row)
        cases = [((), ())] + [((i,), ()) for i in range(n_p)] + [((), (j,)) for j in range(n_s)] + [((0,), (n_s - 1,))]
        if _THOROUGH:
            import itertools as _it
            files_ = [("p", i) for i in range(n_p)] + [("s", j) for j in range(n_s)]
            cases = [((), ())] + [(tuple(i for k_, i in sub if k_ == "p"), tuple(j for k_, j in sub if k_ == "s"))
                                  for r_ in (1, 2, 3) for sub in _it.combinations(files_, r_)]      # every set of up to 3 unreadable files
        for failing_p, failing_s in cases:
            for return_info in (True, False):
                prim, sec, matches, fp, fsec = _align_case(failing_p, failing_s, return_info, structure)
                ctx.ghost["warned"] = []
                out = list(fp.align(fsec, matches=matches, return_info=return_info, skip_errors=True))
                want = [(i, j) for i, row in enumerate(structure) for j in row if i not in failing_p and j not in failing_s]
                tag = "[structure %d, unreadable primaries %s secondaries %s, return_info=%s]" % (si, list(failing_p), list(failing_s), return_info)
                if return_info:
                    ensures([(o[0][0], o[1][0]) for o in out] == [(prim[i], sec[j]) for i, j in want],
                            id="align yields exactly the matched pairs whose two files were readable, in match order " + tag)
                    ensures([(o[0][1], o[1][1]) for o in out] == [(("content", prim[i].path, ()), ("content", sec[j].path, ())) for i, j in want],
                            id="... each with the content of its own files " + tag)
                else:
                    ensures([tuple(o) for o in out] == [(("content", prim[i].path, ()), ("content", sec[j].path, ())) for i, j in want],
                            id="align yields exactly the contents of the matched readable pairs, in match order " + tag)
                uniq = []
                for row in structure:
                    for j in row:
                        if j not in uniq:
                            uniq.append(j)
                ensures(fp.handler.reads == [p.path for p in prim] and fsec.handler.reads == [sec[j].path for j in uniq],
                        id="every primary and every needed secondary is read exactly once " + tag)
                ensures(len(ctx.ghost["warned"]) == len(failing_p) + len(failing_s), id="one warning per unreadable file " + tag)
    # without skip_errors a read error reaches the caller
    prim, sec, matches, fp, fsec = _align_case((1,), (), True, STRUCTURES[0])
    ensures(expect_raises(ReadError, lambda: list(fp.align(fsec, matches=matches))), id="align: a read error propagates without skip_errors")
    # collocate_filesets hands the matches over as a numpy OBJECT ARRAY (np.array_split): same result as for the list
    import numpy as _np
    for structure in (STRUCTURES[0], STRUCTURES[3]):
        prim, sec, matches, fp, fsec = _align_case((), (), True, structure)
        arr = _np.empty(len(matches), dtype=object)
        for q, m_ in enumerate(matches):
            arr[q] = m_
        out = list(fp.align(fsec, matches=arr, return_info=True, skip_errors=True))
        ensures([(o[0][0], o[1][0]) for o in out] == [(prim[i], sec[j]) for i, row in enumerate(structure) for j in row],
                id="align accepts an array of matches (as collocate_filesets passes them) [%d matches]" % len(matches))
    prim, sec, matches, fp, fsec = _align_case((), (), True, STRUCTURES[2])
    ensures(list(fp.align(fsec, matches=_np.empty(0, dtype=object))) == [], id="align with an empty ARRAY of matches yields nothing")
    # nothing matched: nothing is yielded
    prim, sec, matches, fp, fsec = _align_case((), (), True, STRUCTURES[2])
    ensures(list(fp.align(fsec, matches=[])) == [], id="align with an empty match list yields nothing")


# these client programs only make sense on the ghost executors / queues: no concrete replay
for _t in REG.theorems:
    if _t.prop == P:
        _t.no_concrete_replay = True


# ------------------------------------------------------------------ the worker argument stream from find() instead of files=
class _ListedFileSet(FileSet):
    """find() is a given (C01): it returns the listed files and records how it was asked"""

    def find(self, *args, **kwargs):
        self.find_calls.append((args, tuple(sorted(kwargs.items()))))
        return iter(self.listed)


_ListedFileSet.find.__pyvc_thm__ = True


@theorem(P, "map-via-find")
def thm_map_find():
    for k in (0, 1, 4):
        files = _files(k)
        fs = _ListedFileSet(path="/d/{year}{month}{day}{hour}.nc", name="verif", worker_type="thread")
        fs.handler = Handler(())
        fs.listed, fs.find_calls = files, []
        s, e = datetime(2020, 1, 1), datetime(2020, 1, 2)
        res = fs.map(lambda info: ("r", info.path), start=s, end=e, max_workers=2, worker_type="thread")
        ensures(res == [("r", f.path) for f in files], id="map(start, end): one result per file that find() yields, in find() order [%d files]" % k)
        ensures(len(fs.find_calls) == 1, id="find() is asked once [%d files]" % k)
        lazy = list(fs.imap(lambda info: ("r", info.path), start=s, end=e, max_workers=2, worker_type="thread"))
        ensures(lazy == res, id="imap(start, end) yields the same sequence [%d files]" % k)
        got = fs.collect(s, e) if k else None
        if k:
            ensures(got == [("content", f.path, ()) for f in files], id="collect(start, end) returns the contents in find() order [%d files]" % k)


for _t in REG.theorems:
    if _t.prop == P:
        _t.no_concrete_replay = True
