"""C17 -- optimal-estimation matrices (typhon/retrieval/oem/common.py, error.py).

Matrices are an uninterpreted sort with ring, transpose and inverse axioms
(pyvc/matrix.py); the identities of the property are proved in that equational theory
from the contracts of the real functions (each = its matrix expression).
"""
import numpy as _np
import z3 as _z3
from pyvc.dsl import *
from pyvc import matrix as MX
from typhon.retrieval.oem import common as O
from typhon.retrieval.oem import error as ERR

P = "C17"
M = "typhon.retrieval.oem.common:"
ME = "typhon.retrieval.oem.error:"

NOT_DECIDED = [
    "S is symmetric positive definite and S <= S_a (Loewner order): an order statement outside the equational matrix theory",
    "eigenvalues of the averaging kernel lie in [0, 1)",
    "A -> I for vanishing measurement noise, A -> 0 for vanishing prior variance (limits)",
]
ASSUMPTIONS = [
    "matrix ring axioms, transpose and inverse axioms of pyvc/matrix.py (dimension-untyped equational theory)",
    "scipy.linalg.inv(A) is the two-sided inverse of an invertible A; S_a, S_y, K^T S_y^-1 K + S_a^-1 and K S_a K^T + S_y are invertible (SPD inputs)",
    "numpy @ and .T are matrix product and transpose",
]

MAT = Kind("mat")


def _mat_sampler(rng):
    n, m = rng.randint(1, 4), rng.randint(1, 5)
    r = _np.random.RandomState(rng.randint(0, 10**6))

    def spd(k):
        a = r.randn(k, k)
        s = a @ a.T + k * _np.eye(k)
        # covariances of very different physical scales (e.g. volume mixing ratios ~1e-6, radiances ~1e-12)
        return s * rng.choice([1.0, 1.0, 1e-12, 1e-24, 1e6])
    return dict(K=r.randn(m, n), S_a=spd(n), S_y=spd(m))


def _inv(e):
    return MX.SMat(MX.minv(e.e))


def _inv_ok(a):
    from pyvc.sym import Sym
    if isinstance(a, MX.SMat):
        return Sym(MX.invertible(a.e))
    return bool(_np.linalg.matrix_rank(_np.atleast_2d(a)) == _np.atleast_2d(a).shape[0])


_inv_ok.__pyvc_native__ = True
ENV = {"inv_ok": _inv_ok}
COV = "inv(K.T @ inv(S_y) @ K + inv(S_a))"
# domain of the property: SPD covariances => the four matrices below are invertible, covariances symmetric
DOMAIN = ["inv_ok(S_a)", "inv_ok(S_y)", "inv_ok(K.T @ inv(S_y) @ K + inv(S_a))", "inv_ok(K @ S_a @ K.T + S_y)",
          "S_a.T == S_a", "S_y.T == S_y"]
c1 = contract(M + "error_covariance_matrix", prop=P, params=dict(K=MAT, S_a=MAT, S_y=MAT), pure=False, result=MAT,
              requires=DOMAIN, env=ENV, ensures=["result == " + COV], canaries=["result == S_a"])
c2 = contract(M + "retrieval_gain_matrix", prop=P, params=dict(K=MAT, S_a=MAT, S_y=MAT), pure=False, result=MAT,
              requires=DOMAIN, env=ENV, ensures=["result == %s @ K.T @ inv(S_y)" % COV])
c3 = contract(M + "averaging_kernel_matrix", prop=P, params=dict(K=MAT, S_a=MAT, S_y=MAT), pure=False, result=MAT,
              requires=DOMAIN, env=ENV, ensures=["result == (%s @ K.T @ inv(S_y)) @ K" % COV])
for _c in (c1, c2, c3):
    _c.sampler = _mat_sampler


def _err_sampler(rng):
    d = _mat_sampler(rng)
    n = d["S_a"].shape[0]
    r = _np.random.RandomState(rng.randint(0, 10**6))
    return dict(x=r.randn(n), x_a=r.randn(n), A=r.randn(n, n))


c4 = contract(ME + "smoothing_error", prop=P, params=dict(x=MAT, x_a=MAT, A=MAT), pure=False, result=MAT,
              ensures=["result == A @ (x - x_a)"])
c4.sampler = _err_sampler


def _noise_sampler(rng):
    d = _mat_sampler(rng)
    r = _np.random.RandomState(rng.randint(0, 10**6))
    d["e_y"] = r.randn(d["S_y"].shape[0])
    return d


c5 = contract(ME + "retrieval_noise", prop=P, params=dict(K=MAT, S_a=MAT, S_y=MAT, e_y=MAT), pure=False, result=MAT,
              env=dict(ENV, inv=O.inv), requires=DOMAIN,
              ensures=["result == (%s @ K.T @ inv(S_y)) @ e_y" % COV])
c5.sampler = _noise_sampler

inv = O.inv


def invertible(a):
    from pyvc.sym import Sym
    return Sym(MX.invertible(a.e))


invertible.__pyvc_native__ = True


@theorem(P, "oem-identities", K=MAT, S_a=MAT, S_y=MAT, x=MAT, x_a=MAT, e_y=MAT)
def thm_oem(K, S_a, S_y, x, x_a, e_y):
    N = K.T @ inv(S_y) @ K + inv(S_a)          # n-form normal matrix
    Mm = K @ S_a @ K.T + S_y                   # m-form matrix
    requires(invertible(S_a), invertible(S_y), invertible(N), invertible(Mm))
    requires(S_a.T == S_a, S_y.T == S_y)       # covariances are symmetric
    S = O.error_covariance_matrix(K, S_a, S_y)
    G = O.retrieval_gain_matrix(K, S_a, S_y)
    A = O.averaging_kernel_matrix(K, S_a, S_y)
    ensures(S == inv(N), id="S == (K^T S_y^-1 K + S_a^-1)^-1")
    ensures(G == S @ K.T @ inv(S_y), id="G == S K^T S_y^-1")
    # lemma: N S_a K^T == K^T S_y^-1 M   (both sides expand to K^T + K^T S_y^-1 K S_a K^T)
    ensures(N @ S_a @ K.T == K.T @ inv(S_y) @ Mm, id="lemma N S_a K^T == K^T S_y^-1 M")
    L = N @ S_a @ K.T
    Rr = K.T @ inv(S_y) @ Mm
    ensures(inv(N) @ L == S_a @ K.T, id="step: N^-1 (N S_a K^T) == S_a K^T")
    ensures(Rr @ inv(Mm) == K.T @ inv(S_y), id="step: (K^T S_y^-1 M) M^-1 == K^T S_y^-1")
    ensures((inv(N) @ L) @ inv(Mm) == inv(N) @ (Rr @ inv(Mm)), id="step: multiply the lemma by N^-1 and M^-1")
    ensures(G == S_a @ K.T @ inv(Mm), id="G == S_a K^T (K S_a K^T + S_y)^-1  (measurement-space form)")
    ensures(A == G @ K, id="A == G K")
    X = K.T @ inv(S_y) @ K
    ensures(S @ N == MX.SMat(MX.ID), id="step: S N == I")
    ensures(S @ X + S @ inv(S_a) == MX.SMat(MX.ID), id="step: S X + S S_a^-1 == I")
    ensures(A == S @ X, id="step: A == S (K^T S_y^-1 K)")
    ensures(A == MX.SMat(MX.ID) - S @ inv(S_a), id="A == I - S S_a^-1")
    ensures(S.T == S, id="S is symmetric")
    ensures(ERR.smoothing_error(x, x_a, A) == A @ (x - x_a), id="smoothing_error == A (x - x_a)")
    ensures(ERR.retrieval_noise(K, S_a, S_y, e_y) == G @ e_y, id="retrieval_noise == G e_y")
