"""C18 -- BMCI estimates are the importance-weighted statistics of its database (typhon/retrieval/bmci/bmci.py).

The database size n is SYMBOLIC (any n >= 1), the number of channels m is concrete (1, 2; 3 in the thorough tier): the
matrix expressions of the real code (dy * dot(dy, S^-1), the projections on the eigenvector) become explicit polynomials
in the symbolic matrix entries.  Sums over the database are the SUM specification function of pyvc.sumtheory.
LAPACK (inv, eig), argsort, searchsorted, where, cumsum, interp are ASSUMED contracts (pyvc/npmodels.py).
"""
import numpy as _np
import z3 as _z3
from pyvc.dsl import *
from pyvc import sym as _sym
from pyvc.sym import Sym as _Sym, SArr as _SArr, lift as _lift
from pyvc.contracts import fresh_array as _fa
from pyvc import npmodels as _npm
from typhon.retrieval.bmci.bmci import BMCI

P = "C18"
M = "typhon.retrieval.bmci.bmci:"
NOT_DECIDED = [
    "floating point: exp() underflowing to 0 for entries far away (the weights are positive reals here, so 'no entry has non-zero weight' "
    "happens exactly for an empty chi-square window); float128 agreement is looked at in the bounded tier only",
    "more than 3 channels symbolically (the quadratic forms are expanded for a concrete number of channels); __init__ itself with 1 and 2 channels only",
    "crps() and pdf() (not part of the property)",
    "several observations per call beyond the rows being handled independently (checked with 1 and 2 rows)",
]
ASSUMPTIONS = [
    "np.linalg.inv: S X = X S = I, X symmetric if S is, X positive semi-definite if S is positive definite (singular input not detected)",
    "np.linalg.eig for symmetric S: S v_k = w_k v_k, |v_k| = 1, real; w_k > 0 if S is positive definite",
    "np.argsort returns a sorting permutation; np.searchsorted the partition index of a sorted array; np.where(mask) all positions in increasing order",
    "np.cumsum(a)[k] == SUM(a, k+1); np.sum == SUM; np.interp within [fp[0], fp[-1]] and monotone for non-decreasing xp, fp",
    "sum_perm: a finite sum does not depend on the order of its terms (trusted axiom A4)",
    "NaN is a distinguished value; only stores of NaN are followed",
]
for _n in ("BMCI.predict", "BMCI.cdf", "BMCI.predict_quantiles"):
    REG.inline_ok.add(M + _n)


from pyvc import models as _models
_models._ALWAYS.add(_np.zeros)          # result vectors receive symbolic stores: np.zeros(k) is a symbolic array here
is_pd, is_psd, psd_instance, is_nan, is_array = _npm.is_pd, _npm.is_psd, _npm.psd_instance, _npm.is_nan, _npm.is_array


# ------------------------------------------------------------------ specification functions
def chi2(self, yobs, j):
    """(y_obs - y_j)^T S^-1 (y_obs - y_j) for database row j (in the object's own order)"""
    t = 0
    for k in range(self.m):
        for l in range(self.m):
            t = t + (self.y[j, k] - yobs[k]) * self.s_o_inv[k, l] * (self.y[j, l] - yobs[l])
    return t


def w(self, yobs, j):
    return exp(-chi2(self, yobs, j) / 2)


def proj(self, vec):
    """projection of (vec - y_mean) on the principal axis"""
    t = 0
    for k in range(self.m):
        t = t + self.pc1[k] * (vec[k] - self.y_mean[k])
    return t


def row(self, j):
    return [self.y[j, k] for k in range(self.m)]


def wf_sym(self):
    ok = self.n >= 1 and self.pc1_e > 0
    for k in range(self.m):
        for l in range(k):
            ok = ok and self.s_o_inv[k, l] == self.s_o_inv[l, k]
    return ok


def wf_eig(self, k):
    """row k of  S^-1 pc1 = pc1_e pc1"""
    sv = 0
    for l in range(self.m):
        sv = sv + self.s_o_inv[k, l] * self.pc1[l]
    return sv == self.pc1_e * self.pc1[k]


def wf_eig_all(self):
    ok = True
    for k in range(self.m):
        ok = ok and wf_eig(self, k)
    return ok


def wf_unit(self):
    unit = 0
    for k in range(self.m):
        unit = unit + self.pc1[k] * self.pc1[k]
    return unit == 1


def wf_sorted(self):
    n = self.n
    return forall(0, n, lambda i: forall(0, n, lambda j: implies(i < j, self.pc1_proj[i] <= self.pc1_proj[j])))


def wf_search(self):
    """what the window search needs of the invariant"""
    return self.n >= 1 and self.pc1_e > 0 and wf_sorted(self)


def wf_proj(self):
    n = self.n
    return forall(0, n, lambda i: self.pc1_proj[i] == proj(self, row(self, i))) and wf_sorted(self)


def wf_xsorted(self):
    n = self.n
    xs, inv = self.x_sorted_inds, self.x_sorted_inds.ghost_inverse
    return (forall(0, n, lambda i: 0 <= xs[i] and xs[i] < n and inv[xs[i]] == i)
            and forall(0, n, lambda j: 0 <= inv[j] and inv[j] < n and xs[inv[j]] == j)
            and forall(0, n, lambda i: forall(0, n, lambda j: implies(i < j, self.x[xs[i]] <= self.x[xs[j]]))))


def wf(self):
    """representation invariant of a BMCI object (what weights/predict/cdf/predict_quantiles rely on)"""
    return wf_sym(self) and wf_unit(self) and is_psd(self.s_o_inv) and wf_proj(self) and wf_xsorted(self) and wf_eig_all(self)


for _f in (chi2, w, proj, row, wf, wf_sym, wf_eig, wf_eig_all, wf_unit, wf_sorted, wf_search, wf_proj, wf_xsorted):
    _f.__pyvc_thm__ = True
ENV = dict(chi2=chi2, w=w, proj=proj, row=row, wf=wf, wf_sym=wf_sym, wf_sorted=wf_sorted, wf_search=wf_search, wf_eig=wf_eig, wf_eig_all=wf_eig_all, wf_unit=wf_unit, wf_proj=wf_proj, wf_xsorted=wf_xsorted, is_pd=_npm.is_pd, is_psd=_npm.is_psd, psd_instance=_npm.psd_instance,
           is_nan=_npm.is_nan, is_array=_npm.is_array)


def symmetric(S, m):
    ok = True
    for k in range(m):
        for l in range(k):
            ok = ok and S[k, l] == S[l, k]
    return ok


symmetric.__pyvc_thm__ = True
ENV["symmetric"] = symmetric


# ------------------------------------------------------------------ BMCI.__init__
def _setup_init(ctx, cfg):
    n = ctx.fresh("n", "int")
    ctx.assume(n >= 1)
    m = cfg["m"]
    self = object.__new__(BMCI)
    return dict(self=self, y=_fa(ctx, "Y", (n, m)), x=_fa(ctx, "X", (n,)), s_o=_fa(ctx, "S", (m, m)))


def same_database(self, y, x, pi):
    """the object holds the given database re-ordered by a bijection pi (ghost: the permutation returned by argsort)"""
    n = self.n
    inv = pi.ghost_inverse
    return (forall(0, n, lambda i: 0 <= pi[i] and pi[i] < n and inv[pi[i]] == i)
            and forall(0, n, lambda j: 0 <= inv[j] and inv[j] < n and pi[inv[j]] == j)
            and forall(0, n, lambda i: self.x[i] == x[pi[i]])
            and forall(0, n, lambda i: forall(0, self.m, lambda k: self.y[i, k] == y[pi[i], k])))


same_database.__pyvc_thm__ = True
ENV["same_database"] = same_database
import os as _os
_TIER = _os.environ.get("VERIF_TIER_EFFECTIVE", "quick")
_MS = [1, 2] if _TIER == "quick" else [1, 2, 3]
# (3 channels for __init__ is left out even in the thorough tier: the eigen relation S^-1 pc1 = pc1_e pc1 needs an ideal-membership
# proof over ~30 indeterminates that does not finish in the per-obligation budget; the other contracts assume wf(self) and run with 3)
c_init = contract(M + "BMCI.__init__", prop=P, setup=_setup_init, pure=False, env=ENV, result="real",
                  configs=[{"m": m} for m in (1, 2)],
                  requires=["symmetric(s_o, len(s_o))", "is_pd(s_o)"],
                  ensures=["self.n == len(x) and self.m == len(s_o)",
                           "wf_sym(self)", "wf_unit(self)", "is_psd(self.s_o_inv)",
                           "wf_eig_all(self)",
                           "wf_proj(self)", "wf_xsorted(self)",
                           "same_database(self, y, x, _locals['indices'])"])


# ------------------------------------------------------------------ a well-formed object for the method contracts
def _mk_self(ctx, m):
    n = ctx.fresh("n", "int")
    ctx.assume(n >= 1)
    self = object.__new__(BMCI)
    self.n, self.m = n, m
    self.x, self.y = _fa(ctx, "x", (n,)), _fa(ctx, "y", (n, m))
    self.s_o_inv, self.pc1, self.y_mean = _fa(ctx, "Sinv", (m, m)), _fa(ctx, "pc1", (m,)), _fa(ctx, "ymean", (m,))
    self.pc1_e = ctx.fresh("pc1_e", "real")
    self.pc1_proj = _fa(ctx, "proj", (n,))
    self.x_sorted_inds = _fa(ctx, "xsi", (n,), "int")
    self.x_sorted_inds.ghost_inverse = _fa(ctx, "xsi_inv", (n,), "int")
    self.ghost_k = ctx.fresh("k_any", "int")          # an arbitrary position (for pointwise statements about results)
    return self


def _obs(ctx, m, flat):
    return _fa(ctx, "yobs", (m,) if flat else (1, m))


def vec(y_obs):
    """the observation as a list of its m components (it is handed around as (m,) or (1, m))"""
    if y_obs.ndim == 1:
        return [y_obs[k] for k in range(len(y_obs))]
    return [y_obs[0, k] for k in range(y_obs.shape[1])]


vec.__pyvc_thm__ = True
ENV["vec"] = vec


# ------------------------------------------------------------------ __gauss_prob
def _setup_gp(ctx, cfg):
    self = _mk_self(ctx, cfg["m"])
    K = ctx.fresh("K", "int")
    ctx.assume(K >= 0)
    return dict(self=self, y_obs=_obs(ctx, cfg["m"], cfg["flat"]), y_database=_fa(ctx, "ydb", (K, cfg["m"])))


def chi2_rows(self, yobs, ydb, k):
    t = 0
    for a in range(self.m):
        for b in range(self.m):
            t = t + (ydb[k, a] - yobs[a]) * self.s_o_inv[a, b] * (ydb[k, b] - yobs[b])
    return t


chi2_rows.__pyvc_thm__ = True
ENV["chi2_rows"] = chi2_rows
_CFG_MF = [{"m": m, "flat": f} for m in _MS for f in (True, False)]
c_gp = contract(M + "BMCI._BMCI__gauss_prob", prop=P, setup=_setup_gp, pure=False, env=ENV, configs=_CFG_MF,
                result=lambda ctx, env: _fa(ctx, "ws", (env["y_database"].shape[0], 1)),
                ensures=["result.ndim == 2 and len(result) == len(y_database)",
                         "forall(0, len(y_database), lambda k: result[k, 0] == exp(-chi2_rows(self, vec(y_obs), y_database, k) / 2))"],
                canaries=["forall(0, len(y_database), lambda k: result[k, 0] == 1)"])


# ------------------------------------------------------------------ __find_hits
def _setup_fh(ctx, cfg):
    self = _mk_self(ctx, cfg["m"])
    x2 = ctx.fresh("x2_max", "real")
    return dict(self=self, y_obs=_obs(ctx, cfg["m"], cfg["flat"]), x2_max=x2)


def radius(self, x2_max):
    return sqrt(2 * x2_max / self.pc1_e)


def window_at(self, lo, hi, i_l, i_u):
    n = self.n
    return (0 <= i_l and i_l <= i_u and i_u <= n
            and forall(0, n, lambda j: implies(j < i_l, self.pc1_proj[j] < lo))
            and forall(0, n, lambda j: implies(j >= i_u, self.pc1_proj[j] > hi))
            and forall(0, n, lambda j: implies(i_l <= j and j < i_u, lo <= self.pc1_proj[j] and self.pc1_proj[j] <= hi)))


def window(self, yobs, x2_max, i_l, i_u):
    """[i_l, i_u) is exactly the set of entries whose projection lies within the radius around the observation's"""
    c, r = proj(self, yobs), radius(self, x2_max)
    return window_at(self, c - r, c + r, i_l, i_u)


window_at.__pyvc_thm__ = True
ENV["window_at"] = window_at
radius.__pyvc_thm__ = True
window.__pyvc_thm__ = True
ENV.update(radius=radius, window=window)
c_fh = contract(M + "BMCI._BMCI__find_hits", prop=P, setup=_setup_fh, pure=False, env=ENV, configs=_CFG_MF,
                result=lambda ctx, env: (ctx.fresh("i_l", "int"), ctx.fresh("i_u", "int"), ctx.fresh("n_hits", "int")),
                requires=["self.n >= 1 and self.pc1_e > 0", "wf_sorted(self)", "x2_max >= 0"],      # (all it needs of wf(self))
                ensures=["_locals['y_proj'] == proj(self, vec(y_obs))",                         # steps: the projection ...
                         "radius(self, x2_max) >= 0",
                         "_locals['s_l'] == proj(self, vec(y_obs)) - radius(self, x2_max)",     # ... and the interval ends
                         "_locals['s_u'] == proj(self, vec(y_obs)) + radius(self, x2_max)",
                         "window_at(self, _locals['s_l'], _locals['s_u'], result[0], result[1])",
                         "window(self, vec(y_obs), x2_max, result[0], result[1])",
                         "result[2] == result[1] - result[0]"],
                canaries=["result[0] == result[1]"])


# ------------------------------------------------------------------ weights
def _setup_w(ctx, cfg):
    self = _mk_self(ctx, cfg["m"])
    x2 = ctx.fresh("x2_max", "real")
    if cfg["mode"] == "all":
        ctx.assume(x2 < 0)
    else:
        ctx.assume(x2 >= 0)
    return dict(self=self, y_obs=_obs(ctx, cfg["m"], cfg["flat"]), x2_max=x2)


def weights_post(self, yobs, x2_max, i_l, i_u, ws):
    return (ws.ndim == 2 and len(ws) == i_u - i_l
            and forall(0, i_u - i_l, lambda k: ws[k, 0] == w(self, yobs, i_l + k))
            and implies(x2_max < 0, i_l == 0 and i_u == self.n)
            and implies(x2_max >= 0, window(self, yobs, x2_max, i_l, i_u)))


weights_post.__pyvc_thm__ = True
ENV["weights_post"] = weights_post


def _w_result(ctx, env):
    i_l, i_u = ctx.fresh("i_l", "int"), ctx.fresh("i_u", "int")
    ctx.assume(_z3.And(i_l.e >= 0, i_l.e <= i_u.e))
    return (i_l, i_u, _fa(ctx, "ws", (i_u - i_l, 1)))


c_w = contract(M + "BMCI.weights", prop=P, setup=_setup_w, pure=False, env=ENV,
               configs=[dict(c, mode=md) for c in _CFG_MF for md in ("all", "window")],
               result=_w_result,
               requires=["wf_search(self)"],
               ensures=["weights_post(self, vec(y_obs), x2_max, result[0], result[1], result[2])"],
               canaries=["result[0] == result[1]"])


# ------------------------------------------------------------------ predict (one observation row; the loop body carries no state
# between rows other than the stores xs[i], sigmas[i])
def _setup_obs2d(ctx, cfg):
    self = _mk_self(ctx, cfg["m"])
    x2 = ctx.fresh("x2_max", "real")
    if cfg["mode"] == "all":
        ctx.assume(x2 < 0)
    else:
        ctx.assume(x2 >= 0)
    return dict(self=self, y_obs=_fa(ctx, "yobs", (1, cfg["m"])), x2_max=x2)


def wsum(self, yv, i_l, i_u):
    return ssum(i_u - i_l, lambda k: w(self, yv, i_l + k))


def wmean(self, yv, i_l, i_u):
    c = wsum(self, yv, i_l, i_u)
    return ssum(i_u - i_l, lambda k: self.x[i_l + k] * w(self, yv, i_l + k) / c)


def wvar(self, yv, i_l, i_u, mean):
    c = wsum(self, yv, i_l, i_u)
    return ssum(i_u - i_l, lambda k: (self.x[i_l + k] - mean) ** 2 * w(self, yv, i_l + k) / c)


def predict_post(self, yv, x2_max, i_l, i_u, xs0, sig0):
    c = wsum(self, yv, i_l, i_u)
    return (implies(x2_max < 0, i_l == 0 and i_u == self.n)
            and implies(x2_max >= 0, window(self, yv, x2_max, i_l, i_u))
            and implies(c > 0, xs0 == wmean(self, yv, i_l, i_u) and sig0 == sqrt(wvar(self, yv, i_l, i_u, xs0)))
            and implies(not (c > 0), is_nan(xs0) and is_nan(sig0)))


for _f in (wsum, wmean, wvar, predict_post):
    _f.__pyvc_thm__ = True
    ENV[_f.__name__] = _f
_CFG_MM = [{"m": m, "mode": md} for m in _MS for md in ("all", "window")]
c_predict = contract(M + "BMCI.predict", prop=P, setup=_setup_obs2d, pure=False, env=ENV, configs=_CFG_MM,
                     result=lambda ctx, env: (_fa(ctx, "xs", (1,)), _fa(ctx, "sigmas", (1,))),
                     requires=["wf_search(self)"],
                     ensures=["len(result[0]) == 1 and len(result[1]) == 1",
                              "predict_post(self, vec(y_obs), x2_max, _locals['i_l'], _locals['i_u'], result[0][0], result[1][0])"],
                     canaries=["is_nan(result[0][0])"])


# ------------------------------------------------------------------ cdf
def _setup_cdf(ctx, cfg):
    self = _mk_self(ctx, cfg["m"])
    x2 = ctx.fresh("x2_max", "real")
    if cfg["mode"] == "all":
        ctx.assume(x2 < 0)
    else:
        ctx.assume(x2 >= 0)
    return dict(self=self, y_obs=_fa(ctx, "yobs", (cfg["m"],)), x2_max=x2)


def steps_up(a):
    """a[k] <= a[k+1] for every adjacent pair"""
    return forall(0, len(a) - 1, lambda k: a[k] <= a[k + 1])


def nondecreasing(a):
    n = len(a)
    return forall(0, n, lambda k: forall(0, n, lambda l: implies(k < l, a[k] <= a[l])))


def only_window(self, i_l, i_u, xs, inds):
    """every reported value is the x of a window entry (ghost: inds[k] = its offset in the window)"""
    return len(inds) == len(xs) and forall(0, len(xs), lambda k: 0 <= inds[k] and inds[k] < i_u - i_l and xs[k] == self.x[i_l + inds[k]])


def all_window(self, i_l, i_u, xs):
    # stated over the positions p of the x-sorted order (x_sorted_inds is a bijection of the entries, wf_xsorted)
    xsi = self.x_sorted_inds
    return forall(0, self.n, lambda p: implies(i_l <= xsi[p] and xsi[p] < i_u, exists(0, len(xs), lambda k: xs[k] == self.x[xsi[p]])))


def has_weight(total, xs):
    return len(xs) >= 1 and total > 0


def positive_weights(ws):
    return forall(0, len(ws), lambda k: ws[k, 0] > 0)


def cdf_nan(total, xs, F):
    """NaN (not an array, not an exception) exactly when no entry has non-zero weight"""
    return has_weight(total, xs) if is_array(F) else (not has_weight(total, xs)) and is_nan(F)


def cdf_ends_at_one(total, xs, F):
    return (len(F) == len(xs) and F[len(xs) - 1] == 1) if is_array(F) else True


def cdf_starts_nonneg(total, xs, F):
    return F[0] >= 0 if is_array(F) else True


def cdf_steps_up(total, xs, F, k):
    """F[k] <= F[k+1] for an ARBITRARY position k (a fresh constant of the setup: universally quantified)"""
    return implies(0 <= k and k < len(F) - 1, F[k] <= F[k + 1]) if is_array(F) else True


for _f in (only_window, all_window, positive_weights, has_weight, cdf_nan, cdf_ends_at_one, cdf_starts_nonneg, cdf_steps_up):
    _f.__pyvc_thm__ = True
    ENV[_f.__name__] = _f
ENV.update(nondecreasing=nondecreasing, steps_up=steps_up)
steps_up.__pyvc_thm__ = True
nondecreasing.__pyvc_thm__ = True
c_cdf = contract(M + "BMCI.cdf", prop=P, setup=_setup_cdf, pure=False, env=ENV, configs=_CFG_MM,
                 result=lambda ctx, env: (_fa(ctx, "xs", (ctx.fresh("cnt", "int"),)), _fa(ctx, "F", (ctx.fresh("cnt2", "int"),))),
                 requires=["wf_search(self)", "wf_xsorted(self)"],
                 ensures=["nondecreasing(result[0])",                                   # the x values of the window, ascending
                          "only_window(self, _locals['i_l'], _locals['i_u'], result[0], _locals['inds'])",
                          "all_window(self, _locals['i_l'], _locals['i_u'], result[0])",
                          "positive_weights(_locals['ws'])",                                  # step: exp(.) > 0
                          "cdf_nan(ssum(len(_locals['ws']), lambda k: _locals['ws'][k, 0]), result[0], result[1])",
                          "cdf_ends_at_one(0, result[0], result[1])",
                          "cdf_starts_nonneg(0, result[0], result[1])",
                          "cdf_steps_up(0, result[0], result[1], self.ghost_k)"],
                 canaries=["is_array(result[1])", "not is_array(result[1])", "len(result[0]) == 1"])


# ------------------------------------------------------------------ predict_quantiles (one observation row, three quantiles)
def _setup_q(ctx, cfg):
    d = _setup_obs2d(ctx, cfg)
    d["quantiles"] = _fa(ctx, "tau", (3,))
    return d


def quantiles_post(self, i_l, i_u, has, taus, q):
    """q: the row of estimated quantiles"""
    k = len(taus)
    if_has = (forall(0, k, lambda t: forall(0, k, lambda u: implies(taus[t] <= taus[u], q[t] <= q[u])))       # non-decreasing in tau
              and forall(0, k, lambda t: exists(i_l, i_u, lambda j: self.x[j] <= q[t])                        # within [min, max] of the
                         and exists(i_l, i_u, lambda j: q[t] <= self.x[j])))                                  # window's x values
    return implies(has, if_has) and implies(not has, forall(0, k, lambda t: is_nan(q[t])))


quantiles_post.__pyvc_thm__ = True
ENV["quantiles_post"] = quantiles_post
c_q = contract(M + "BMCI.predict_quantiles", prop=P, setup=_setup_q, pure=False, env=ENV, configs=_CFG_MM,
               result=lambda ctx, env: _fa(ctx, "qs", (1, 3)),
               requires=["wf_search(self)", "wf_xsorted(self)"],
               raises=[("exists(0, 3, lambda t: quantiles[t] < 0 or quantiles[t] > 1)", ValueError)],
               ensures=["positive_weights(_locals['ws'])",
                        "only_window(self, _locals['i_l'], _locals['i_u'], _locals['xs'], _locals['inds'])",
                        "quantiles_post(self, _locals['i_l'], _locals['i_u'], "
                        "has_weight(ssum(len(_locals['ws']), lambda k: _locals['ws'][k, 0]), _locals['xs']), quantiles, "
                        "[result[0, t] for t in range(3)])"],
               canaries=["is_nan(result[0, 0])", "result[0, 0] == result[0, 2]", "not is_nan(result[0, 1])"])


# ------------------------------------------------------------------ bounded: the real code in floating point against direct sums
@bounded(P, "float-oracle", "random databases (1..300 entries, 1..5 channels, duplicates, constant x, x with a spread of 1e-8 of its magnitude), random SPD covariances (diagonal and "
         "correlated, condition numbers up to 1e6), observations inside / at the edge / far outside, x2_max in {-1, 0, 0.1, 2, 50}, one random "
         "permutation of each database; oracle: direct weighted sums in numpy.longdouble; 60 (quick) / 600 (thorough) databases")
def bounded_float_oracle(rng, tier):
    import warnings
    rounds = 60 if tier == "quick" else 600
    evals, failures, samples, distinct = 0, [], [], set()
    LD = _np.longdouble

    def direct(y, x, S, yo, keep=None):
        Sinv = _np.linalg.inv(S).astype(LD)
        d = (y.astype(LD) - yo.astype(LD))
        chi = _np.einsum("ik,kl,il->i", d, Sinv, d)
        wts = _np.exp(-chi / 2)
        if keep is not None:
            wts = wts * keep
        c = wts.sum()
        if not c > 0:
            return chi, wts, None, None
        mean = (wts * x).sum() / c
        return chi, wts, mean, _np.sqrt((wts * (x - mean) ** 2).sum() / c)

    def close(a, b, tol=1e-7):
        return abs(float(a) - float(b)) <= tol * (1 + abs(float(b)))
    for r in range(rounds):
        n = rng.choice([1, 2, 3, 5, 17, 60, 300])
        m = rng.randint(1, 5)
        nprng = _np.random.RandomState(rng.randint(0, 2**31 - 1))
        y = nprng.normal(size=(n, m)) * rng.choice([0.1, 1.0, 10.0])
        if n > 3 and rng.random() < 0.3:
            y[1] = y[0]                                         # duplicate entries
        xkind = rng.choice(["normal"] * 6 + ["const", "offset", "const-offset"])
        x = {"normal": nprng.normal(size=n), "const": _np.full(n, 2.5), "offset": 101325.0 + 1e-3 * nprng.normal(size=n),
             "const-offset": _np.full(n, 273.15)}[xkind]               # spread tiny against the magnitude: cancellation shows
        if rng.random() < 0.4:
            S = _np.diag(10.0 ** nprng.uniform(-3, 3, size=m))
        else:
            A = nprng.normal(size=(m, m))
            S = A @ A.T + _np.eye(m) * 10.0 ** rng.uniform(-3, 0)
        with warnings.catch_warnings():
            warnings.simplefilter("ignore")
            b = BMCI(y.copy(), x.copy(), S.copy())
            perm = nprng.permutation(n)
            b2 = BMCI(y[perm].copy(), x[perm].copy(), S.copy())
            obs = [y[rng.randrange(n)].copy(), y.mean(axis=0) + nprng.normal(size=m) * 0.3, y[rng.randrange(n)] + 1e3]
            for oi, yo in enumerate(obs):
                for x2 in (-1.0, 0.0, 0.1, 2.0, 50.0):
                    if x2 == 0.0 and oi == 0:
                        continue            # exact ties at a zero-width window: the separate check float-x2max0-identical-entry
                    evals += 1
                    distinct.add((n, m, oi, x2))
                    case = {"n": n, "m": m, "round": r, "obs": oi, "x2_max": x2}
                    try:
                        xs, sg = b.predict(yo.reshape(1, -1), x2)
                        xs2, sg2 = b2.predict(yo.reshape(1, -1), x2)
                        i_l, i_u, _ws = b.weights(yo, x2)
                        cx, cF = b.cdf(yo, x2)
                        q = b.predict_quantiles(yo.reshape(1, -1), [0.1, 0.5, 0.9], x2)[0]
                    except Exception as exc:
                        failures.append(dict(case, problem="exception %r" % (exc,)))
                        continue
                    keep = _np.zeros(n)
                    keep[i_l:i_u] = 1
                    chi, wts, mean_w, sd_w = direct(b.y, b.x, S, yo, keep)
                    _, wall, mean_f, sd_f = direct(b.y, b.x, S, yo)
                    w64 = _np.exp(-chi.astype(float) / 2) * keep           # the weights as float64 sees them (underflow to 0)
                    if not w64.sum() > 0:
                        mean_w = None                                       # 'no entry has non-zero weight': NaN expected
                    elif w64.sum() < 1e-280:
                        continue                                            # denormal range: no accuracy statement
                    problems = []
                    if x2 >= 0 and _np.any(chi[keep == 0] <= x2 * (1 - 1e-9) - 1e-12):       # (exact ties: see float-x2max0 below)
                        problems.append("an entry with chi-square <= x2_max was left out")
                    if mean_w is None:
                        if not (_np.isnan(xs[0]) and _np.isnan(sg[0]) and _np.all(_np.isnan(q)) and not isinstance(cF, _np.ndarray)):
                            problems.append("no entry with non-zero weight but the result is not NaN")
                    else:
                        sd_tol = 1e-5 * float(sd_w) + 1e-10 * (1 + float(_np.abs(b.x).max()))
                        if not (close(xs[0], mean_w) and abs(float(sg[0]) - float(sd_w)) <= sd_tol):
                            problems.append("mean/std differ from the direct weighted sums: %r %r vs %r %r" % (xs[0], sg[0], float(mean_w), float(sd_w)))
                        if mean_f is not None and wall.sum() > 0:
                            share = float(1 - wts.sum() / wall.sum())
                            if abs(float(mean_w - mean_f)) > share * float(b.x.max() - b.x.min()) + 1e-9 * (1 + abs(float(mean_f))):
                                problems.append("pruned estimate moved by more than the excluded weight share")
                        if not (close(xs[0], xs2[0], 1e-6) and abs(float(sg[0]) - float(sg2[0])) <= 2 * sd_tol):
                            problems.append("result depends on the order of the database")
                        if isinstance(cF, _np.ndarray) and cF.size:
                            if _np.any(_np.diff(cF) < -1e-12) or not close(cF[-1], 1.0) or _np.any(_np.diff(cx) < 0) \
                                    or sorted(cx) != sorted(b.x[i_l:i_u]):
                                problems.append("cdf is not the non-decreasing cumulative weight over the window ending at 1")
                        if _np.any(_np.diff(q) < -1e-12) or q.min() < b.x.min() - 1e-12 or q.max() > b.x.max() + 1e-12:
                            problems.append("quantiles not monotone or outside [min x, max x]: %r" % (q,))
                    if problems:
                        failures.append(dict(case, problem="; ".join(problems)))
                    elif len(samples) < 3:
                        samples.append(dict(case, mean=float(xs[0]), window=[int(i_l), int(i_u)]))
    return {"evaluations": evals, "distinct_nontrivial": len(distinct), "failures": failures[:5], "samples": samples}


@bounded(P, "float-x2max0-identical-entry", "x2_max = 0 with an observation bit-identical to a database entry (chi-square exactly 0): the entry "
         "must be kept; 40 random databases")
def bounded_x2max0(rng, tier):
    import warnings
    evals, failures, samples, distinct = 0, [], [], set()
    for r in range(40):
        n, m = rng.choice([2, 5, 60, 300]), rng.randint(1, 5)
        nprng = _np.random.RandomState(rng.randint(0, 2**31 - 1))
        y, x = nprng.normal(size=(n, m)), nprng.normal(size=n)
        A = nprng.normal(size=(m, m))
        S = A @ A.T + _np.eye(m) * 0.1
        with warnings.catch_warnings():
            warnings.simplefilter("ignore")
            b = BMCI(y.copy(), x.copy(), S)
            j = rng.randrange(n)
            i_l, i_u, _ws = b.weights(b.y[j].copy(), 0.0)
        evals += 1
        distinct.add((n, m, r))
        if not (i_l <= j < i_u):
            failures.append({"n": n, "m": m, "round": r, "entry": j, "window": [int(i_l), int(i_u)],
                             "problem": "the entry identical to the observation (chi-square 0) is outside the window for x2_max=0"})
        elif len(samples) < 3:
            samples.append({"n": n, "m": m, "entry": j, "window": [int(i_l), int(i_u)]})
    return {"evaluations": evals, "distinct_nontrivial": len(distinct), "failures": failures[:5], "samples": samples}


# ------------------------------------------------------------------ the chi-square window leaves out only entries beyond x2_max
def _pruning(m):
    @theorem(P, "pruning-is-sound[m=%d]" % m)
    def thm():
        ctx = _sym.ctx()
        self = _mk_self(ctx, m)
        yv = vec(_obs(ctx, m, True))
        x2, i_l, i_u, j = ctx.fresh("x2_max", "real"), ctx.fresh("i_l", "int"), ctx.fresh("i_u", "int"), ctx.fresh("j", "int")
        requires(wf(self), x2 >= 0, window(self, yv, x2, i_l, i_u))
        requires(0 <= j, j < self.n)
        below = j < i_l
        requires(below or j >= i_u)                              # an ARBITRARY entry outside the window (two cases)
        d = [self.y[j, k] - yv[k] for k in range(m)]
        a = self.pc1_proj[j] - proj(self, yv)
        R = radius(self, x2)
        along = 0
        for k in range(m):
            along = along + self.pc1[k] * d[k]
        ensures(a == along, id="step: the difference of the projections is the projection of the difference")
        ensures(R >= 0 and R * R == 2 * x2 / self.pc1_e, id="step: the radius is the square root")
        ensures(self.pc1_e * (R * R) == 2 * x2, id="step: pc1_e R^2 = 2 x2_max")
        ensures((a < -R) if below else (a > R), id="step: the entry lies beyond the radius along the principal axis")
        ensures(a * a > R * R, id="step: squared")
        ensures(self.pc1_e * (a * a) > self.pc1_e * (R * R), id="step: scaled by the positive eigenvalue")
        # positive semi-definiteness of S^-1 (part of wf) instantiated BY HAND at r = d - a pc1 (universal instantiation)
        r = [d[k] - a * self.pc1[k] for k in range(m)]
        assume(psd_instance(self.s_o_inv, r))
        q = 0
        for k in range(m):
            for l in range(m):
                q = q + r[k] * self.s_o_inv[k, l] * r[l]
        ensures(chi2(self, yv, j) - self.pc1_e * (a * a) == q,
                id="step: chi-square = pc1_e a^2 + (d - a pc1)^T S^-1 (d - a pc1)   (pc1 is a unit eigenvector of the symmetric S^-1)")
        ensures(chi2(self, yv, j) > 2 * x2, id="an entry outside the window has chi-square > 2 x2_max")
        ensures(chi2(self, yv, j) > x2, id="... hence beyond x2_max: only entries whose chi-square exceeds x2_max are left out")
        ensures(w(self, yv, j) < exp(-x2 / 2), id="... and its weight is below exp(-x2_max / 2)")
    return thm


for _m in _MS:
    _pruning(_m)


# ------------------------------------------------------------------ independence of the order of the database
from contracts.C19 import _sum_perm as _sum_perm_axiom      # noqa: E402,F401  (registers the trusted axiom `sum_perm`)


def _order(m):
    @theorem(P, "order-independent[m=%d]" % m)
    def thm():
        ctx = _sym.ctx()
        self = _mk_self(ctx, m)
        yv = vec(_obs(ctx, m, True))
        n = self.n
        Y, X = _fa(ctx, "Y", (n, m)), _fa(ctx, "X", (n,))
        pi = _fa(ctx, "pi", (n,), "int")
        pi.ghost_inverse = _fa(ctx, "pi_inv", (n,), "int")
        requires(same_database(self, Y, X, pi))           # what BMCI.__init__ guarantees for the caller's database (Y, X)
        W0 = array_of(n, lambda j: exp(-chi2_rows(self, yv, Y, j) / 2))          # weights / weighted values over the CALLER's order
        XW0 = array_of(n, lambda j: X[j] * exp(-chi2_rows(self, yv, Y, j) / 2))
        Wi = array_of(n, lambda k: w(self, yv, k))                                 # ... over the object's internal order
        XWi = array_of(n, lambda k: self.x[k] * w(self, yv, k))
        pointwise(n, lambda k: Wi[k] == W0[pi[k]], id="step: the weight of internal entry k is the weight of the caller's entry pi(k)")
        pointwise(n, lambda k: XWi[k] == XW0[pi[k]], id="step: likewise for x * weight")
        use_axiom("sum_perm", W0, Wi, lambda t: pi.z3func(t), n)
        use_axiom("sum_perm", XW0, XWi, lambda t: pi.z3func(t), n)
        ensures(ssum(n, lambda k: Wi[k]) == ssum(n, lambda j: W0[j]), id="total weight: the same sum over the caller's database")
        ensures(ssum(n, lambda k: XWi[k]) == ssum(n, lambda j: XW0[j]), id="weighted sum of x: the same sum over the caller's database")
        c = wsum(self, yv, 0, n)
        requires(c > 0)
        scaled = array_of(n, lambda k: self.x[k] * w(self, yv, k) / c)
        pointwise(n, lambda k: scaled[k] == (1 / c) * XWi[k], id="step: each term is scaled by 1 / total weight")
        use_lemma("sum_scale", XWi, scaled, 1 / c, n)
        ensures(ssum(n, lambda k: scaled[k]) == (1 / c) * ssum(n, lambda k: XWi[k]), id="step: the sum of the scaled terms (lemma sum_scale)")
        ensures(c == ssum(n, lambda k: Wi[k]), id="step: the normalisation is the total weight")
        # (the last step in small pieces: each of them is a one-line fact for the solver, whatever else is in the context)
        S_xw, S_w, S_sc = ssum(n, lambda k: XWi[k]), ssum(n, lambda k: Wi[k]), ssum(n, lambda k: scaled[k])
        ensures(wmean(self, yv, 0, n) == S_sc, id="step: the mean is the sum of the scaled terms (definition)")
        ensures(S_sc == (1 / c) * S_xw and c == S_w and c > 0, id="step: the two facts about that sum, side by side")
        ensures((1 / c) * S_xw == S_xw / c, id="step: multiplying by 1 / c is dividing by c")
        ensures(wmean(self, yv, 0, n) == S_xw / c, id="step: mean == sum(w x) / c")
        ensures(wmean(self, yv, 0, n) == ssum(n, lambda k: XWi[k]) / ssum(n, lambda k: Wi[k]), id="step: mean == sum(w x) / sum(w) in the internal order")
        ensures(wmean(self, yv, 0, n) == ssum(n, lambda j: XW0[j]) / ssum(n, lambda j: W0[j]),
                id="predict's mean == sum(w_i x_i) / sum(w_i) over the caller's database, whatever its order")
    return thm


for _m in _MS:
    _order(_m)


@theorem(P, "order-independent-CANARY", canary=True)
def thm_order_canary():
    ctx = _sym.ctx()
    self = _mk_self(ctx, 1)
    yv = vec(_obs(ctx, 1, True))
    requires(wsum(self, yv, 0, self.n) > 0)
    ensures(wmean(self, yv, 0, self.n) == 0, id="CANARY: the mean is always 0 (must fail)")


# ------------------------------------------------------------------ how far the pruned estimate can be from the full one
@theorem(P, "excluded-share-bound")
def thm_share(A: "real", B: "real", C: "real", D: "real", lo: "real", hi: "real"):
    """A, C: sum of w x and of w over the window; B, D: the same over the left-out entries; lo <= x_i <= hi.
    Pure real algebra: the link to the sums over the database (weighted means of x lie in [lo, hi]) is the sum_le lemma and is
    exercised in the bounded tier (float-oracle) only."""
    requires(C > 0, D >= 0, lo <= hi)
    requires(lo * C <= A, A <= hi * C, lo * D <= B, B <= hi * D)
    full, pruned, share = (A + B) / (C + D), A / C, D / (C + D)
    ensures((full - pruned) * (C + D) * C == B * C - A * D, id="step: difference of the two means over a common denominator")
    ensures(B * C - A * D <= (hi - lo) * D * C and A * D - B * C <= (hi - lo) * D * C, id="step: bounded by the spread of x")
    ensures(full - pruned <= share * (hi - lo) and pruned - full <= share * (hi - lo),
            id="|mean over all entries - mean over the window| <= (left-out share of the total weight) * (max x - min x)")


# ------------------------------------------------------------------ samplers: real BMCI objects for concrete replays and the
# bounded pass 'contract-on-samples' (the clauses about _locals and about all reals are skipped there)
def _real_case(rng):
    nprng = _np.random.RandomState(rng.randint(0, 2**31 - 1))
    n, m = rng.choice([1, 2, 3, 7, 20]), rng.choice([1, 2, 3])
    y = nprng.normal(size=(n, m))
    x = nprng.normal(size=n) if rng.random() < 0.8 else _np.full(n, 1.5)
    A = nprng.normal(size=(m, m))
    S = A @ A.T + _np.eye(m) * 0.2
    yo = (y[rng.randrange(n)] + nprng.normal(size=m) * rng.choice([0.0, 0.1, 1.0, 30.0]))
    return y, x, S, yo, n, m


def _real_bmci(rng):
    import warnings
    y, x, S, yo, n, m = _real_case(rng)
    with warnings.catch_warnings():
        warnings.simplefilter("ignore")
        b = BMCI(y.copy(), x.copy(), S.copy())
    b.x_sorted_inds = b.x_sorted_inds.view(_GhostInv)
    b.x_sorted_inds.ghost_inverse = _np.argsort(b.x_sorted_inds)
    b.ghost_k = rng.randrange(max(1, n))
    return b, yo, n, m


class _GhostInv(_np.ndarray):
    """ndarray that can carry the ghost inverse permutation (an attribute) in replays"""


def _x2(rng):
    # (x2_max = 0 with an observation identical to an entry is the float64 corner of the known finding
    # bounded/float-x2max0-identical-entry: it has its own check and is kept out of these samples)
    return rng.choice([-1.0, 1e-6, 0.05, 1.0, 20.0])


c_init.sampler = lambda rng: (lambda y, x, S, yo, n, m: dict(self=object.__new__(BMCI), y=y, x=x, s_o=S))(*_real_case(rng))
c_gp.sampler = lambda rng: (lambda b, yo, n, m: dict(self=b, y_obs=yo if rng.random() < 0.5 else yo.reshape(1, -1), y_database=b.y[:rng.randint(0, n)]))(*_real_bmci(rng))
c_fh.sampler = lambda rng: (lambda b, yo, n, m: dict(self=b, y_obs=yo if rng.random() < 0.5 else yo.reshape(1, -1), x2_max=abs(_x2(rng))))(*_real_bmci(rng))
c_w.sampler = lambda rng: (lambda b, yo, n, m: dict(self=b, y_obs=yo if rng.random() < 0.5 else yo.reshape(1, -1), x2_max=_x2(rng)))(*_real_bmci(rng))
c_predict.sampler = lambda rng: (lambda b, yo, n, m: dict(self=b, y_obs=yo.reshape(1, -1), x2_max=_x2(rng)))(*_real_bmci(rng))
