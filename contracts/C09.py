"""C09 -- humidity measures and saturation pressures (typhon/physics/atmosphere.py)."""
from pyvc.dsl import *
from typhon.physics import atmosphere as A
from typhon import constants

P = "C09"
M = "typhon.physics.atmosphere:"

# ---------------------------------------------------------------- converters
# Each contract states the converter as the documented closed form; the
# requires-clauses are the domain of the property (0 <= x, q < 1; w >= 0).
contract(M + "vmr2mixing_ratio", prop=P, params=dict(x="real"), elementwise=True,
         requires=["0 <= x", "x < 1"],
         ensures=["result == x / (1 - x) * constants.molar_mass_water / constants.molar_mass_dry_air",
                  "result >= 0"],
         canaries=["result == x"])
contract(M + "mixing_ratio2vmr", prop=P, params=dict(w="real"), elementwise=True,
         requires=["w >= 0"],
         ensures=["result == w / (w + constants.molar_mass_water / constants.molar_mass_dry_air)",
                  "0 <= result", "result < 1"])
contract(M + "specific_humidity2mixing_ratio", prop=P, params=dict(q="real"), elementwise=True,
         requires=["0 <= q", "q < 1"],
         ensures=["result == q / (1 - q)", "result >= 0"])
contract(M + "mixing_ratio2specific_humidity", prop=P, params=dict(w="real"), elementwise=True,
         requires=["w >= 0"],
         ensures=["result == w / (1 + w)", "0 <= result", "result < 1"])
contract(M + "specific_humidity2vmr", prop=P, params=dict(q="real"), elementwise=True,
         requires=["0 <= q", "q < 1"],
         ensures=["result == q / ((1 - q) * constants.molar_mass_water / constants.molar_mass_dry_air + q)",
                  "0 <= result", "result < 1"])
contract(M + "vmr2specific_humidity", prop=P, params=dict(x="real"), elementwise=True,
         requires=["0 <= x", "x < 1"],
         ensures=["result == x / ((1 - x) * constants.molar_mass_dry_air / constants.molar_mass_water + x)",
                  "0 <= result", "result < 1"])


@theorem(P, "inverse-x-w")
def thm_inverse_x_w(x: "real"):
    requires(0 <= x, x < 1)
    w = A.vmr2mixing_ratio(x)
    ensures(A.mixing_ratio2vmr(w) == x, id="w2x(x2w(x))==x")


@theorem(P, "inverse-w-x")
def thm_inverse_w_x(w: "real"):
    requires(w >= 0)
    x = A.mixing_ratio2vmr(w)
    ensures(A.vmr2mixing_ratio(x) == w, id="x2w(w2x(w))==w")
