"""C09 -- humidity measures and saturation pressures (typhon/physics/atmosphere.py).

Contracts state each real function as its documented closed form over the reals;
theorem programs (clients of those contracts) state the clauses of the property.
"""
from pyvc.dsl import *
from typhon.physics import atmosphere as A
from typhon import constants

P = "C09"
M = "typhon.physics.atmosphere:"

NOT_DECIDED = [
    "strict monotonicity of e_eq_water_mk (tanh-blended formula): a numeric fact about a transcendental expression",
    "e_eq_ice_mk <= e_eq_water_mk below the triple point and 1e-6 relative agreement at T_t",
    "behaviour 'to within one ulp' of the branch temperatures (floats are read as reals, A2)",
]
ASSUMPTIONS = [
    "A6 analytic axiom schemas about exp/log/tanh instantiated on occurring terms (exp_pos, exp_mono, log_mono, log_concave_bound, ...)",
]

EPS = "constants.molar_mass_water / constants.molar_mass_dry_air"

# ---------------------------------------------------------------- converters
contract(M + "vmr2mixing_ratio", prop=P, params=dict(x="real"), elementwise=True,
         requires=["0 <= x", "x < 1"],
         ensures=["result == x / (1 - x) * constants.molar_mass_water / constants.molar_mass_dry_air",
                  "result >= 0"],
         canaries=["result == x"])
contract(M + "mixing_ratio2vmr", prop=P, params=dict(w="real"), elementwise=True,
         requires=["w >= 0"],
         ensures=["result == w / (w + constants.molar_mass_water / constants.molar_mass_dry_air)",
                  "0 <= result", "result < 1"])
contract(M + "specific_humidity2mixing_ratio", prop=P, params=dict(q="real"), elementwise=True,
         requires=["0 <= q", "q < 1"],
         ensures=["result == q / (1 - q)", "result >= 0"])
contract(M + "mixing_ratio2specific_humidity", prop=P, params=dict(w="real"), elementwise=True,
         requires=["w >= 0"],
         ensures=["result == w / (1 + w)", "0 <= result", "result < 1"])
contract(M + "specific_humidity2vmr", prop=P, params=dict(q="real"), elementwise=True,
         requires=["0 <= q", "q < 1"],
         ensures=["result == q / ((1 - q) * constants.molar_mass_water / constants.molar_mass_dry_air + q)",
                  "0 <= result", "result < 1"])
contract(M + "vmr2specific_humidity", prop=P, params=dict(x="real"), elementwise=True,
         requires=["0 <= x", "x < 1"],
         ensures=["result == x / ((1 - x) * constants.molar_mass_dry_air / constants.molar_mass_water + x)",
                  "0 <= result", "result < 1"])

for _c in ("vmr2mixing_ratio", "specific_humidity2mixing_ratio", "specific_humidity2vmr", "vmr2specific_humidity"):
    REG.by_label[M + _c].domain = {"x": (0.0, 0.999), "q": (0.0, 0.999)}
for _c in ("mixing_ratio2vmr", "mixing_ratio2specific_humidity"):
    REG.by_label[M + _c].domain = {"w": (0.0, 20.0)}


# the six inverse pairs ---------------------------------------------------------
@theorem(P, "inverse-x-w")
def thm_inverse_x_w(x: "real"):
    requires(0 <= x, x < 1)
    w = A.vmr2mixing_ratio(x)
    back = A.mixing_ratio2vmr(w)
    ensures(back == x, id="w2x(x2w(x))==x")


@theorem(P, "inverse-w-x")
def thm_inverse_w_x(w: "real"):
    requires(w >= 0)
    x = A.mixing_ratio2vmr(w)
    back = A.vmr2mixing_ratio(x)
    ensures(back == w, id="x2w(w2x(w))==w")


@theorem(P, "inverse-q-w")
def thm_inverse_q_w(q: "real"):
    requires(0 <= q, q < 1)
    w = A.specific_humidity2mixing_ratio(q)
    back = A.mixing_ratio2specific_humidity(w)
    ensures(back == q, id="w2q(q2w(q))==q")


@theorem(P, "inverse-w-q")
def thm_inverse_w_q(w: "real"):
    requires(w >= 0)
    q = A.mixing_ratio2specific_humidity(w)
    back = A.specific_humidity2mixing_ratio(q)
    ensures(back == w, id="q2w(w2q(w))==w")


@theorem(P, "inverse-x-q")
def thm_inverse_x_q(x: "real"):
    requires(0 <= x, x < 1)
    q = A.vmr2specific_humidity(x)
    back = A.specific_humidity2vmr(q)
    ensures(back == x, id="q2x(x2q(x))==x")


@theorem(P, "inverse-q-x")
def thm_inverse_q_x(q: "real"):
    requires(0 <= q, q < 1)
    x = A.specific_humidity2vmr(q)
    back = A.vmr2specific_humidity(x)
    ensures(back == q, id="x2q(q2x(q))==q")


# every two-step route equals the direct one ------------------------------------
@theorem(P, "route-x-w-q")
def thm_route_xwq(x: "real"):
    requires(0 <= x, x < 1)
    w = A.vmr2mixing_ratio(x)
    q2 = A.mixing_ratio2specific_humidity(w)
    q1 = A.vmr2specific_humidity(x)
    ensures(q2 == q1, id="x->w->q == x->q")


@theorem(P, "route-q-w-x")
def thm_route_qwx(q: "real"):
    requires(0 <= q, q < 1)
    w = A.specific_humidity2mixing_ratio(q)
    x2 = A.mixing_ratio2vmr(w)
    x1 = A.specific_humidity2vmr(q)
    ensures(x2 == x1, id="q->w->x == q->x")


@theorem(P, "route-x-q-w")
def thm_route_xqw(x: "real"):
    requires(0 <= x, x < 1)
    q = A.vmr2specific_humidity(x)
    w2 = A.specific_humidity2mixing_ratio(q)
    w1 = A.vmr2mixing_ratio(x)
    ensures(w2 == w1, id="x->q->w == x->w")


@theorem(P, "route-q-x-w")
def thm_route_qxw(q: "real"):
    requires(0 <= q, q < 1)
    x = A.specific_humidity2vmr(q)
    w2 = A.vmr2mixing_ratio(x)
    w1 = A.specific_humidity2mixing_ratio(q)
    ensures(w2 == w1, id="q->x->w == q->w")


@theorem(P, "route-w-x-q")
def thm_route_wxq(w: "real"):
    requires(w >= 0)
    x = A.mixing_ratio2vmr(w)
    q2 = A.vmr2specific_humidity(x)
    q1 = A.mixing_ratio2specific_humidity(w)
    ensures(q2 == q1, id="w->x->q == w->q")


@theorem(P, "route-w-q-x")
def thm_route_wqx(w: "real"):
    requires(w >= 0)
    q = A.mixing_ratio2specific_humidity(w)
    x2 = A.specific_humidity2vmr(q)
    x1 = A.mixing_ratio2vmr(w)
    ensures(x2 == x1, id="w->q->x == w->x")


# increasing, 0 -> 0 ------------------------------------------------------------
@theorem(P, "monotone-and-zero")
def thm_monotone(a: "real", b: "real"):
    requires(0 <= a, a < b, b < 1)
    ensures(A.vmr2mixing_ratio(a) < A.vmr2mixing_ratio(b), id="x2w increasing")
    ensures(A.vmr2specific_humidity(a) < A.vmr2specific_humidity(b), id="x2q increasing")
    ensures(A.specific_humidity2mixing_ratio(a) < A.specific_humidity2mixing_ratio(b), id="q2w increasing")
    ensures(A.specific_humidity2vmr(a) < A.specific_humidity2vmr(b), id="q2x increasing")
    ensures(A.mixing_ratio2vmr(a) < A.mixing_ratio2vmr(b), id="w2x increasing")
    ensures(A.mixing_ratio2specific_humidity(a) < A.mixing_ratio2specific_humidity(b), id="w2q increasing")
    ensures(A.vmr2mixing_ratio(0) == 0, A.vmr2specific_humidity(0) == 0, A.specific_humidity2mixing_ratio(0) == 0,
            A.specific_humidity2vmr(0) == 0, A.mixing_ratio2vmr(0) == 0, A.mixing_ratio2specific_humidity(0) == 0,
            id="0->0")


@theorem(P, "monotone-w-unbounded")
def thm_monotone_w(a: "real", b: "real"):
    requires(0 <= a, a < b)
    ensures(A.mixing_ratio2vmr(a) < A.mixing_ratio2vmr(b), id="w2x increasing on w>=0")
    ensures(A.mixing_ratio2specific_humidity(a) < A.mixing_ratio2specific_humidity(b), id="w2q increasing on w>=0")


# ---------------------------------------------------------------- saturation pressures
ICE = "exp(9.550426 - 5723.265 / T + 3.53068 * log(T) - 0.00728332 * T)"
LIQ = ("exp(54.842763 - 6763.22 / T - 4.21 * log(T) + 0.000367 * T + tanh(0.0415 * (T - 218.8))"
       " * (53.878 - 1331.22 / T - 9.44523 * log(T) + 0.014025 * T))")
c_ice = contract(M + "e_eq_ice_mk", prop=P, params=dict(T="real"), elementwise=True,
                 raises=[("T <= 0", ValueError)],
                 ensures=["result == " + ICE, "result > 0"], hidden=[0],
                 canaries=["result > 1"])
c_liq = contract(M + "e_eq_water_mk", prop=P, params=dict(T="real"), elementwise=True,
                 raises=[("T <= 0", ValueError)],
                 ensures=["result == " + LIQ, "result > 0"], hidden=[0])
c_ice.domain = c_liq.domain = {"T": (-50.0, 400.0)}

TT = "constants.triple_point_water"
c_mix = contract(M + "e_eq_mixed_mk", prop=P, params=dict(T="real"), elementwise=True,
                 raises=[("T <= 0", ValueError)],
                 ensures=["result == ite(T > %s, e_eq_water_mk(T), ite(T < %s - 23, e_eq_ice_mk(T), "
                          "e_eq_ice_mk(T) + (e_eq_water_mk(T) - e_eq_ice_mk(T)) * ((T - %s + 23) / 23)**2))" % (TT, TT, TT),
                          "result > 0"], hidden=[0])
c_mix.domain = {"T": (-50.0, 400.0)}


def _T_sampler(rng):
    """temperatures of the property's range 100..400 K (below, float64 underflows to 0 although the formulas are positive),
    the two branch temperatures of the mixed-phase formula and their neighbours one ulp away, non-positive ones (rejected);
    scalars, 0-d arrays, float arrays and arrays of integer dtype"""
    import numpy as _np
    Tt = constants.triple_point_water
    special = [100.0, 400.0, Tt, Tt - 23.0, _np.nextafter(Tt, 0), _np.nextafter(Tt, 1e3), _np.nextafter(Tt - 23.0, 0), _np.nextafter(Tt - 23.0, 1e3)]
    one = lambda: float(rng.choice(special)) if rng.random() < 0.4 else rng.uniform(100.0, 400.0)
    r = rng.random()
    if r < 0.1:
        return dict(T=rng.choice([0.0, -1.0, rng.uniform(-50.0, 0.0)]))
    if r < 0.5:
        return dict(T=one())
    if r < 0.6:
        return dict(T=_np.array(one()))                                       # 0-d array (in the property's quantifier)
    if r < 0.7:                                                               # whole-Kelvin grids of integer dtype, a plain int
        return dict(T=rng.choice([_np.arange(rng.randint(100, 250), rng.randint(251, 400), rng.randint(1, 40)), _np.array([250, 273, 300], dtype="int32"), rng.randint(100, 400)]))
    return dict(T=_np.array([one() for _ in range(rng.randint(1, 5))]))


c_ice.sampler = c_liq.sampler = c_mix.sampler = _T_sampler


@theorem(P, "mixed-phase")
def thm_mixed(T: "real"):
    reveal(A.e_eq_mixed_mk)
    requires(T > 0)
    Tt = constants.triple_point_water
    m = A.e_eq_mixed_mk(T)
    ice = A.e_eq_ice_mk(T)
    liq = A.e_eq_water_mk(T)
    ensures(implies(T < Tt - 23, m == ice), id="ice below Tt-23")
    ensures(implies(T > Tt, m == liq), id="liquid above Tt")
    ensures(implies(T == Tt - 23, m == ice), id="continuous at Tt-23 (blend factor 0)")
    ensures(implies(T == Tt, m == liq), id="continuous at Tt (blend factor 1)")
    ensures(implies(Tt - 23 <= T and T <= Tt, min(ice, liq) <= m and m <= max(ice, liq)), id="between ice and liquid")
    ensures(m > 0, id="positive")


thm_mixed.domain = {"T": (100.0, 400.0)}          # (concrete replays: the property's temperature range)


@theorem(P, "nonpositive-T-rejected")
def thm_reject(T: "real"):
    requires(T <= 0)
    ensures(expect_raises(ValueError, A.e_eq_ice_mk, T), id="ice raises ValueError")
    ensures(expect_raises(ValueError, A.e_eq_water_mk, T), id="water raises ValueError")
    ensures(expect_raises(ValueError, A.e_eq_mixed_mk, T), id="mixed raises ValueError")


@theorem(P, "ice-increasing")
def thm_ice_increasing(T1: "real", T2: "real"):
    reveal(A.e_eq_ice_mk)
    requires(100 <= T1, T1 < T2, T2 <= 400)
    ensures(A.e_eq_ice_mk(T1) < A.e_eq_ice_mk(T2), id="e_eq_ice_mk strictly increasing on [100,400] K")


# ---------------------------------------------------------------- RH <-> VMR
def EQ(f):
    """the saturation function in force: the one passed, or e_eq_water_mk when the argument is left to its default (None)"""
    return A.e_eq_water_mk if f is None else f


EQ.__pyvc_native__ = True
_E_CFG = [{}, {"e_eq": None}]          # a caller-supplied positive function / the default
c_rh2v = contract(M + "relative_humidity2vmr", prop=P, params=dict(RH="real", p="real", T="real", e_eq=Kind("posfunc")), configs=_E_CFG,
                  env={"EQ": EQ}, requires=["p > 0", "implies(e_eq is None, T > 0)"], ensures=["result == RH * EQ(e_eq)(T) / p"])
c_v2rh = contract(M + "vmr2relative_humidity", prop=P, params=dict(vmr="real", p="real", T="real", e_eq=Kind("posfunc")), configs=_E_CFG,
                  env={"EQ": EQ}, requires=["p > 0", "implies(e_eq is None, T > 0)"], ensures=["result == vmr * p / EQ(e_eq)(T)"])


@theorem(P, "rh-vmr-inverse", E=Kind("posfunc"))
def thm_rh(RH: "real", x: "real", p: "real", T: "real", E):
    requires(p > 0)
    v = A.relative_humidity2vmr(RH, p, T, e_eq=E)
    back = A.vmr2relative_humidity(v, p, T, e_eq=E)
    ensures(back == RH, id="vmr2rh(rh2vmr(RH))==RH for any positive saturation function")
    r = A.vmr2relative_humidity(x, p, T, e_eq=E)
    back2 = A.relative_humidity2vmr(r, p, T, e_eq=E)
    ensures(back2 == x, id="rh2vmr(vmr2rh(x))==x for any positive saturation function")


# ---------------------------------------------------------------- moist lapse rate
GD = "constants.earth_standard_gravity / constants.isobaric_mass_heat_capacity"
WS = "vmr2mixing_ratio(EQ(e_eq)(T) / p)"
c_mlr = contract(M + "moist_lapse_rate", prop=P, params=dict(p="real", T="real", e_eq=Kind("posfunc")), configs=_E_CFG, env={"EQ": EQ},
                 requires=["100 <= T", "T <= 400", "p > EQ(e_eq)(T)"],
                 ensures=["result > 0",
                          "result <= " + GD,
                          # quantitative form of 'approaches g/cp as the saturation mixing ratio vanishes' -- for the saturation
                          # function in force, i.e. the one the caller passed
                          "%s - result <= %s * constants.heat_of_vaporization**2 * %s"
                          " / (constants.isobaric_mass_heat_capacity * constants.gas_constant_water_vapor * T**2)" % (GD, GD, WS)])


# samplers for the concrete passes (contract-on-samples, replays): every saturation function of the module, the default, a Tetens-type
# formula and functions scaled towards 0 (the 'saturation mixing ratio vanishes' end)
def _tetens(T):
    import numpy as _np
    return 610.78 * _np.exp(17.27 * (T - 273.16) / (T - 35.86))


def _e_choices(rng):
    k = rng.choice([1e-3, 1e-9])
    return rng.choice([None, A.e_eq_water_mk, A.e_eq_ice_mk, A.e_eq_mixed_mk, _tetens, lambda T: k * A.e_eq_water_mk(T)])


def _pT(rng):
    return rng.choice([100.0, 5000.0, 50000.0, 101325.0, 110000.0, rng.uniform(100, 110000)]), rng.choice([100.0, 250.16, 273.16, 300.0, 400.0, rng.uniform(100, 400)])


def _mlr_sampler(rng):
    p, T = _pT(rng)
    return dict(p=p, T=T, e_eq=_e_choices(rng))


def _rh_sampler(name):
    def s(rng):
        p, T = _pT(rng)
        return {name: rng.choice([0.0, 1.0, 0.5, rng.uniform(0, 1.2)]), "p": p, "T": T, "e_eq": _e_choices(rng)}
    return s


c_mlr.sampler = _mlr_sampler
c_rh2v.sampler = _rh_sampler("RH")
c_v2rh.sampler = _rh_sampler("vmr")
