"""C20 -- SRTM30 elevation mosaics (typhon/topography.py).  Cell size is the exact rational 1/120 degree."""
import numpy as _np
from pyvc.dsl import *
from pyvc.contracts import fresh_array as _fa
from typhon import topography as T
from typhon.topography import SRTM30

P = "C20"
M = "typhon.topography:"
NOT_DECIDED = ["rounding of the float index arithmetic on exactly grid-aligned rectangles (A2); covered only by the bounded float check",
               "np.fromfile / the download (I/O); get_tile is checked for 'download iff absent' only"]
ASSUMPTIONS = ["np.arange(a, b) for integral a <= b has b - a elements a, a+1, ...; np.linspace(start, stop, n)[i] = start + i (stop - start)/(n - 1)"]

D = "SRTM30._dlat"

# ------------------------------------------------------------------ _do_overlap
c_ov = contract(M + "_do_overlap", prop=P,
                params=dict(rect_1=lambda ctx, n: tuple(ctx.fresh("a%d" % i, "real") for i in range(4)),
                            rect_2=lambda ctx, n: tuple(ctx.fresh("b%d" % i, "real") for i in range(4))),
                result="bool", pure=False,
                ensures=["result == (max(rect_1[0], rect_2[0]) < min(rect_1[2], rect_2[2]) and "
                         "max(rect_1[1], rect_2[1]) < min(rect_1[3], rect_2[3]))"])


# ------------------------------------------------------------------ get_native_grids
def _native_result(ctx, env):
    n, m = ctx.fresh("nlat", "int"), ctx.fresh("nlon", "int")
    return _fa(ctx, "lat_grid", (n,)), _fa(ctx, "lon_grid", (m,))


RECT = ["-60 <= lat_min", "lat_min < lat_max", "lat_max <= 90", "-180 <= lon_min", "lon_min < lon_max", "lon_max <= 180"]
c_ng = contract(
    M + "SRTM30.get_native_grids", prop=P,
    params=dict(lat_min="real", lon_min="real", lat_max="real", lon_max="real"), pure=False, result=_native_result,
    requires=RECT,
    ensures=[
        # non-empty block
        "len(result[0]) >= 1", "len(result[1]) >= 1",
        # consecutive cell centres: latitude descending, longitude ascending, spacing 1/120 (closed form)
        "forall(0, len(result[0]), lambda i: result[0][i] == result[0][0] - i * SRTM30._dlat)",
        "forall(0, len(result[1]), lambda j: result[1][j] == result[1][0] + j * SRTM30._dlon)",
        # they ARE cell centres of the global grid: 90 - (r + 1/2)/120 and -180 + (c + 1/2)/120 for integers r, c
        "exists_int(lambda r: result[0][0] == 90 - (r + 0.5) * SRTM30._dlat)",
        "exists_int(lambda c: result[1][0] == -180 + (c + 0.5) * SRTM30._dlon)",
        # the block covers the rectangle ...
        "result[0][0] + 0.5 * SRTM30._dlat >= lat_max",
        "result[0][len(result[0]) - 1] - 0.5 * SRTM30._dlat <= lat_min",
        "result[1][0] - 0.5 * SRTM30._dlon <= lon_min",
        "result[1][len(result[1]) - 1] + 0.5 * SRTM30._dlon >= lon_max",
        # ... and extends beyond it by less than one cell on each side
        "result[0][0] + 0.5 * SRTM30._dlat < lat_max + SRTM30._dlat",
        "result[0][len(result[0]) - 1] - 0.5 * SRTM30._dlat > lat_min - SRTM30._dlat",
        "result[1][0] - 0.5 * SRTM30._dlon > lon_min - SRTM30._dlon",
        "result[1][len(result[1]) - 1] + 0.5 * SRTM30._dlon < lon_max + SRTM30._dlon",
    ],
    canaries=["len(result[0]) == 1"])
c_ng.domain = {"lat_min": (-60.0, 89.0), "lat_max": (-59.0, 90.0), "lon_min": (-180.0, 179.0), "lon_max": (-179.0, 180.0)}


def exists_int(f):
    from pyvc import sym
    import z3
    c = sym.ctx()
    k = z3.Int(c.fresh_name("e"))
    c.bound_depth = getattr(c, "bound_depth", 0) + 1
    try:
        b = f(sym.Sym(k))
    finally:
        c.bound_depth -= 1
    if not isinstance(b, sym.Sym):
        return b
    return sym.Sym(z3.Exists([k], sym.truth(b)))


def _exists_int_concrete(f):
    return any(f(k) for k in range(0, 43200))


exists_int.__pyvc_native__ = True
c_ng.env["exists_int"] = exists_int

# exact value of the float class constants (50.0/6000 and 40.0/4800 read as real numbers, A2)
import fractions as _fr
REG.exact_attrs[(id(SRTM30), "_dlat")] = _fr.Fraction(1, 120)
REG.exact_attrs[(id(SRTM30), "_dlon")] = _fr.Fraction(1, 120)


# ------------------------------------------------------------------ get_tiles
def tiles_spec(result, lat_min, lon_min, lat_max, lon_max):
    """exactly the tiles whose (open) area intersects the (open) rectangle"""
    ok = True
    for name, la0, lo0, la1, lo1 in SRTM30._tiles:
        inter = max(lat_min, la0) < min(lat_max, la1) and max(lon_min, lo0) < min(lon_max, lo1)
        ok = ok and ((name in result) == inter)
    return ok


tiles_spec.__pyvc_thm__ = True
c_gt = contract(M + "SRTM30.get_tiles", prop=P,
                params=dict(lat_min="real", lon_min="real", lat_max="real", lon_max="real"), pure=False,
                requires=RECT, env={"tiles_spec": tiles_spec},
                result=lambda ctx, env: _tiles_result(ctx),
                ensures=["tiles_spec(result, lat_min, lon_min, lat_max, lon_max)"],
                canaries=["'w180n90' in result"])
c_gt.domain = c_ng.domain


def _tiles_result(ctx):
    from pyvc.models import SCondList
    r = SCondList()
    for t in SRTM30._tiles:
        r.append_cond(ctx.fresh("in_" + t[0], "bool"), t[0])
    return r


# ------------------------------------------------------------------ tile table, bounds, grids
from pyvc.models import model as _model
from pyvc.sym import SArr as _SArr


@_model(_np.linspace)
def _linspace(interp, start, stop, num=50, **kw):
    """np.linspace(start, stop, n)[i] == start + i (stop - start)/(n - 1)   (trusted NumPy model)"""
    return _SArr((num,), lambda i: start + i * (stop - start) / (num - 1), "real")


_TILES = list(SRTM30._tiles)
c_gb = contract(M + "SRTM30.get_bounds", prop=P, params=dict(name=lambda ctx, n: None), pure=False,
                configs=[{"name": t[0]} for t in _TILES],
                ensures=["result == [t for t in SRTM30._tiles if t[0] == name][0][1:]", "len(result) == 4"],
                inline=True)
c_gg = contract(M + "SRTM30.get_grids", prop=P, params=dict(name=lambda ctx, n: None), pure=False,
                configs=[{"name": t[0]} for t in (_TILES[0], _TILES[13], _TILES[26])],
                result=lambda ctx, env: (_fa(ctx, "tlat", (6000,)), _fa(ctx, "tlon", (4800,))),
                ensures=["len(result[0]) == 6000 and len(result[1]) == 4800",
                         "forall(0, 6000, lambda r: result[0][r] == SRTM30.get_bounds(name)[2] - (r + 0.5) * SRTM30._dlat)",
                         "forall(0, 4800, lambda c: result[1][c] == SRTM30.get_bounds(name)[1] + (c + 0.5) * SRTM30._dlon)"])


@theorem(P, "tile-table")
def thm_table(lat: "real", lon: "real"):
    requires(-60 <= lat, lat <= 90, -180 <= lon, lon <= 180)
    tiles = SRTM30._tiles
    ensures(len(tiles) == 27, id="27 tiles")
    # aligned to the cell grid: every bound is a whole number of cells (1/120 degree) from (90 N, 180 W)
    ensures(all(((90 - t[3]) * 120) % 1 == 0 and ((t[2] + 180) * 120) % 1 == 0 and
                (t[3] - t[1]) * 120 == SRTM30._tile_height and (t[4] - t[2]) * 120 == SRTM30._tile_width for t in tiles),
            id="tiles are aligned to the cell grid and have 6000 x 4800 cells")
    # pairwise disjoint interiors
    ensures(all(not (max(a[1], b[1]) < min(a[3], b[3]) and max(a[2], b[2]) < min(a[4], b[4]))
                for a in tiles for b in tiles if a is not b), id="tiles are pairwise disjoint")
    # together they cover 60 S .. 90 N, 180 W .. 180 E
    inside = False
    for t in tiles:
        inside = inside or (t[1] <= lat and lat <= t[3] and t[2] <= lon and lon <= t[4])
    ensures(inside, id="every point of the covered area lies in some tile")


def _thm_native_is_tile_grid(name):
    @theorem(P, "native-grid-of-tile-bounds[%s]" % name)
    def thm():
        la0, lo0, la1, lo1 = SRTM30.get_bounds(name)
        glat, glon = SRTM30.get_grids(name)
        nlat, nlon = SRTM30.get_native_grids(la0, lo0, la1, lo1)
        ensures(len(nlat) == 6000, len(nlon) == 4800, id="same shape as the tile")
        i = fresh("i", "int")
        j = fresh("j", "int")
        requires(0 <= i, i < 6000, 0 <= j, j < 4800)
        ensures(nlat[i] == glat[i], id="latitudes equal get_grids")
        ensures(nlon[j] == glon[j], id="longitudes equal get_grids")
    return thm


for _t in _TILES:
    _thm_native_is_tile_grid(_t[0])


# ------------------------------------------------------------------ get_tile: download only if the file is not cached
import os as _os


class _FS:
    """ghost view of the cache directory for one call of get_tile"""

    def __init__(self, ctx):
        self.present = ctx.fresh("file_in_cache", "bool")
        self.downloads = []


@_model(_os.path.exists, always=True)
def _exists(interp, path):
    fs = interp.ctx.ghost.get("c20_fs")
    if fs is None:
        return _os.path.exists(path)
    fs.checked = path
    return fs.present


@_model(_np.fromfile, always=True)
def _fromfile(interp, path, dtype=None, **kw):
    fs = interp.ctx.ghost.get("c20_fs")
    fs.read = path
    return _fa(interp.ctx, "dem_raw", (SRTM30._tile_height * SRTM30._tile_width,), "int")


@_model(T._get_data_path, always=True)
def _data_path(interp):
    return "/cache"


@_model(SRTM30.download_tile, always=True)
def _download(interp, name):
    interp.ctx.ghost["c20_fs"].downloads.append(name)
    return None


def _setup_get_tile(ctx, cfg):
    ctx.ghost["c20_fs"] = _FS(ctx)
    return dict(name=cfg["name"])


def downloaded(name):
    from pyvc import sym
    return list(sym.ctx().ghost["c20_fs"].downloads)


def cached():
    from pyvc import sym
    return sym.ctx().ghost["c20_fs"].present


def file_read():
    from pyvc import sym
    return sym.ctx().ghost["c20_fs"].read


for _f in (downloaded, cached, file_read):
    _f.__pyvc_native__ = True
c_tile = contract(M + "SRTM30.get_tile", prop=P, setup=_setup_get_tile, configs=[{"name": "w020n90"}, {"name": "e140s10"}],
                  pure=False, env=dict(downloaded=downloaded, cached=cached, file_read=file_read),
                  ensures=["implies(cached(), downloaded(name) == [])",
                           "implies(not cached(), downloaded(name) == [name])",
                           "file_read() == '/cache/' + (name + '.dem').upper()",
                           "result.shape == (6000, 4800)"])


# ------------------------------------------------------------------ bounded float checks (A2 caveat: floats are not reals)
def _float_edges(tier):
    d = SRTM30._dlat
    step = 1 if tier == "thorough" else 7
    for k in range(0, 17990, step):
        L = 90 - k / 120
        yield ("lat_max", k, (L - 1.5 / 120, 0.0, L, 1.0))
    for k in range(11, 18001, step):
        L = 90 - k / 120
        yield ("lat_min", k, (L, 0.0, L + 1.5 / 120, 1.0))
    for k in range(0, 43190, step):
        X = -180 + k / 120
        yield ("lon_min", k, (0.0, X, 1.0, X + 1.5 / 120))
    for k in range(11, 43201, step):
        X = -180 + k / 120
        yield ("lon_max", k, (0.0, X - 1.5 / 120, 1.0, X))


def _float_verdict(rect):
    """('ok' | 'overhang-one-cell' | 'bad', detail) for the float evaluation of get_native_grids"""
    d = SRTM30._dlat
    la0, lo0, la1, lo1 = rect
    lat, lon = SRTM30.get_native_grids(la0, lo0, la1, lo1)
    eps = 1e-9
    if lat.size == 0 or lon.size == 0:
        return "bad", "empty grid"
    if not (_np.allclose(_np.diff(lat), -d, atol=1e-9) and _np.allclose(_np.diff(lon), d, atol=1e-9)):
        return "bad", "not consecutive cell centres"
    n, s, w, e = lat[0] + d / 2, lat[-1] - d / 2, lon[0] - d / 2, lon[-1] + d / 2
    if not (n >= la1 - eps and s <= la0 + eps and w <= lo0 + eps and e >= lo1 - eps):
        return "bad", "rectangle not covered: block %r" % ((s, w, n, e),)
    over = max(n - la1, la0 - s, lo0 - w, e - lo1)
    if over < d - eps:
        return "ok", None
    if over <= d + eps:
        return "overhang-one-cell", "block %r" % ((s, w, n, e),)
    return "bad", "overhang of more than one cell: block %r" % ((s, w, n, e),)


@bounded(P, "float-grid-sanity", "float64 evaluation of get_native_grids on rectangles with one edge exactly on the 1/120 grid "
         "(quick: every 7th of the 18001 + 43201 grid lines, thorough: all) plus 2000 random unaligned rectangles: "
         "non-empty, consecutive centres, covers the rectangle, never more than one cell beyond it")
def bounded_float_sanity(rng, tier):
    evals, distinct, failures, samples = 0, set(), [], []
    for kind, k, rect in _float_edges(tier):
        v, detail = _float_verdict(rect)
        evals += 1
        distinct.add((kind, k))
        if v == "bad":
            failures.append({"edge": kind, "k": k, "rect": rect, "detail": detail})
    for _ in range(2000):
        la0 = rng.uniform(-60, 89.9)
        lo0 = rng.uniform(-180, 179.9)
        rect = (la0, lo0, min(90.0, la0 + rng.uniform(1e-4, 3)), min(180.0, lo0 + rng.uniform(1e-4, 3)))
        v, detail = _float_verdict(rect)
        evals += 1
        distinct.add(rect)
        if v != "ok":
            failures.append({"rect": rect, "verdict": v, "detail": detail})
        elif len(samples) < 3:
            samples.append({"rect": rect, "verdict": v})
    return {"evaluations": evals, "distinct_nontrivial": len(distinct), "failures": failures[:5], "samples": samples}


@bounded(P, "float-aligned-overhang", "same grid-aligned rectangles: the block must extend beyond the rectangle by LESS than one cell")
def bounded_float_overhang(rng, tier):
    evals, distinct, failures, samples = 0, set(), [], []
    for kind, k, rect in _float_edges(tier):
        v, detail = _float_verdict(rect)
        evals += 1
        distinct.add((kind, k))
        if v == "overhang-one-cell":
            failures.append({"edge": kind, "k": k, "rect": rect, "detail": detail})
        elif len(samples) < 3:
            samples.append({"edge": kind, "k": k, "rect": rect, "verdict": v})
    return {"evaluations": evals, "distinct_nontrivial": len(distinct), "failures": failures[:5], "n_failures": len(failures),
            "samples": samples}


# ------------------------------------------------------------------ bounded: the mosaic loop of elevation() on synthetic tiles
@bounded(P, "mosaic-synthetic-tiles", "elevation() with get_tile replaced by synthetic tiles whose value encodes (tile, row, column): every cell "
         "of the returned block must hold the value of the tile cell at its own coordinates; rectangles inside one tile, across 2 and 4 "
         "tiles, thinner than a cell, touching tile borders, near +-180 and the poles; 25 (quick) / 200 (thorough) rectangles")
def bounded_mosaic(rng, tier):
    import numpy as np
    rounds = 25 if tier == "quick" else 200
    evals, failures, samples, distinct = 0, [], [], set()
    H, W = SRTM30._tile_height, SRTM30._tile_width
    cache = {}

    def synth(name):
        if name not in cache:
            if len(cache) > 6:
                cache.clear()
            k = (sum(ord(ch) * (i + 1) for i, ch in enumerate(name)) % 97) * 1000003
            r = np.arange(H, dtype=np.int64).reshape(-1, 1)
            c = np.arange(W, dtype=np.int64).reshape(1, -1)
            cache[name] = ((k + r * 4801 + c) % 30011).astype(">i2")
        return cache[name]
    orig = SRTM30.get_tile
    SRTM30.get_tile = staticmethod(synth)
    try:
        corners = [(10.0, 20.0), (40.0, -20.0), (40.0, 20.0), (-10.0, 60.0), (40.0, 140.0), (-10.0, -100.0)]      # tile corners (lat, lon)
        for r in range(rounds):
            kind = rng.choice(["inside", "corner", "edge", "thin", "dateline", "north"])
            if kind == "inside":
                la0, lo0 = rng.uniform(-55, 85), rng.uniform(-175, 170)
                la1, lo1 = la0 + rng.uniform(0.01, 0.4), lo0 + rng.uniform(0.01, 0.4)
            elif kind == "corner":
                cla, clo = rng.choice(corners)
                la0, lo0, la1, lo1 = cla - rng.uniform(0.01, 0.2), clo - rng.uniform(0.01, 0.2), cla + rng.uniform(0.01, 0.2), clo + rng.uniform(0.01, 0.2)
            elif kind == "edge":
                cla, clo = rng.choice(corners)
                la0, lo0, la1, lo1 = cla - 0.1, clo + 0.3, cla + 0.1, clo + 0.5
                if rng.random() < 0.5:
                    la0 = cla                                       # touching the tile border exactly
            elif kind == "thin":
                la0, lo0 = rng.uniform(-50, 80), rng.uniform(-170, 170)
                la1, lo1 = la0 + rng.uniform(1e-4, 0.004), lo0 + rng.uniform(1e-4, 0.004)
            elif kind == "dateline":
                la0, la1 = 5.0, 5.2
                lo0, lo1 = rng.choice([(-180.0, -179.8), (179.7, 179.99), (-179.95, -179.7)])
            else:
                la0, lo0, la1, lo1 = 89.6, rng.uniform(-170, 170), 89.99, None
                lo1 = lo0 + 0.3
            evals += 1
            distinct.add((kind, round(la0, 3), round(lo0, 3)))
            case = {"kind": kind, "rect": [la0, lo0, la1, lo1]}
            try:
                lats, lons, elev = SRTM30.elevation(la0, lo0, la1, lo1)
            except Exception as exc:
                failures.append(dict(case, problem="exception %r" % (exc,)))
                continue
            if elev.shape != (lats.size, lons.size):
                failures.append(dict(case, problem="block shape %s for %d x %d grid points" % (elev.shape, lats.size, lons.size)))
                continue
            bad = None
            for a in list(range(min(lats.size, 3))) + list(range(max(0, lats.size - 3), lats.size)) + [rng.randrange(lats.size) for _ in range(4)]:
                for b in list(range(min(lons.size, 3))) + list(range(max(0, lons.size - 3), lons.size)) + [rng.randrange(lons.size) for _ in range(4)]:
                    la, lo = float(lats[a]), float(lons[b])
                    hit = [tt for tt in SRTM30._tiles if tt[1] <= la < tt[3] and tt[2] <= lo < tt[4]]      # the tile table itself
                    if len(hit) != 1:
                        continue
                    name, lat_min, lon_min, lat_max, lon_max = hit[0]
                    row = int(round((lat_max - la) / SRTM30._dlat - 0.5))
                    col = int(round((lo - lon_min) / SRTM30._dlon - 0.5))
                    want = int(synth(name)[row, col])
                    if int(elev[a, b]) != want:
                        bad = {"cell": [a, b], "lat": la, "lon": lo, "tile": name, "tile_cell": [row, col], "got": float(elev[a, b]), "want": want}
                        break
                if bad:
                    break
            if bad:
                failures.append(dict(case, problem="a cell does not hold the tile value at its coordinates", **bad))
            elif len(samples) < 3:
                samples.append(dict(case, shape=list(elev.shape)))
    finally:
        SRTM30.get_tile = orig
    return {"evaluations": evals, "distinct_nontrivial": len(distinct), "failures": failures[:5], "samples": samples}
