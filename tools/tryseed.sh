#!/bin/bash
trap "git -C /repo checkout -- . 2>/dev/null" EXIT INT TERM
# usage: tools/tryseed.sh <prop> [<dir with patch.diff, default /verif/seeded/<prop>>]  -- applies the seeded change to /repo, runs the check, reverts
prop=$1; d=${2:-/verif/seeded/$prop}
cd /repo && git apply "$d/patch.diff" || { echo "PATCH DOES NOT APPLY"; exit 2; }
git -C /repo diff --stat | tail -1
cd /verif && ./vcheck run $prop --no-evidence 2>&1 | grep -E "^(VIOLATION|SUMMARY|CHECKER|UNDECIDED|KNOWN)" | cut -c1-300
cd /repo && git checkout -- .
