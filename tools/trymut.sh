#!/bin/bash
trap "git -C /repo checkout -- . 2>/dev/null" EXIT INT TERM
# usage: tools/trymut.sh <prop> <file-in-repo> <sed-expression>   -- applies a mutation to /repo, runs the check, reverts
prop=$1; f=$2; expr=$3
cd /repo && cp "$f" /tmp/_mut_backup && sed -i "$expr" "$f"
if cmp -s "$f" /tmp/_mut_backup; then echo "MUTATION DID NOT APPLY"; fi
git -C /repo diff --stat | tail -1
cd /verif && ./vcheck run $prop --no-evidence 2>&1 | grep -E "^(VIOLATION|SUMMARY|CHECKER|UNDECIDED|KNOWN)" | cut -c1-260
cd /repo && git checkout -- "$f"
