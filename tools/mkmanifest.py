#!/usr/bin/env python3
"""Regenerates /verif/MANIFEST.json from tools/claims.json (one entry per claimed property)."""
import json, os
HERE = os.path.dirname(os.path.dirname(os.path.abspath(__file__)))
claims = json.load(open(os.path.join(HERE, "tools", "claims.json")))
props = [json.loads(l) for l in open(os.path.join(HERE, "properties.jsonl"))]
base = json.load(open("/root/.vp/BASELINE.json")) if os.path.exists("/root/.vp/BASELINE.json") else {}
checks, na = [], []
for p in props:
    pid = p["id"]
    c = claims.get(pid)
    if c and c.get("claimed"):
        checks.append({
            "property_id": pid,
            "quick_cmd": "./vcheck run %s --tier quick" % pid,
            "thorough_cmd": "./vcheck run %s --tier thorough" % pid,
            "evidence_file": "/verif/evidence/%s.json" % pid,
            "replay_cmd_template": "./vcheck replay {path}",
            "engine": "pyvc",
            "level_claimed": {"category": "proof", "text": c["text"], "design_ref": c.get("design_ref", "DESIGN.md section 0a.4 (as built) and section 5, " + pid)},
            "level_note": c["note"],
            "technique": c.get("technique", "contract-based deductive verification: sidecar contracts on the real functions, "
                                             "VCs generated from the Python AST of /repo's working tree, discharged by z3/cvc5"),
        })
    else:
        na.append({"property_id": pid, "reason": (c or {}).get("reason", "proof not built yet (contracts for this property are still to be written; see DESIGN.md section 8)")})
m = {
    "version": 1,
    "setup_cmd": "./vcheck setup",
    "hooks": {"guard": "TYPHON_VERIF", "enable": "none needed: contracts are sidecar files in /verif/contracts, /repo carries no hooks",
              "baseline_off_cmd": "cd /repo && /venv/bin/python -m pytest -ra -q -p no:cacheprovider --timeout=900 --continue-on-collection-errors",
              "source_commits": [], "add_only": True},
    "engines": [{"name": "pyvc", "path": "/verif/pyvc", "serves_properties": [c["property_id"] for c in checks],
                 "kind_free_text": "own VC generator: symbolic interpreter over the unmodified Python AST of the functions under contract + z3 5.1 (cvc5 1.0.3 fallback); modular (callee contracts), loop invariants, no unrolling in the proved tier"}],
    "checks": checks,
    "not_applicable": na,
    "notes": "Exit codes of every check: 0 held, 1 VIOLATION (replay file given), 2 undecided obligation (never reported as violation), 3 checker error / vacuity guard.",
}
json.dump(m, open(os.path.join(HERE, "MANIFEST.json"), "w"), indent=1)
print("claimed:", [c["property_id"] for c in checks])
