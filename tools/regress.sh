#!/bin/bash
# runs every claimed check (quick, no evidence) and prints one line each
cd /verif
for p in $(python3 -c "import json; print(' '.join(c['property_id'] for c in json.load(open('MANIFEST.json'))['checks']))") "$@"; do
  ./vcheck run $p --no-evidence 2>&1 | grep -E "^(SUMMARY|VIOLATION|CHECKER|UNDECIDED)" | cut -c1-170
done
