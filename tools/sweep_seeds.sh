#!/bin/bash
# all stored seeds against the current checks (quick tier); one line per seed
trap "git -C /repo checkout -- . 2>/dev/null" EXIT INT TERM
cd /verif
for d in seeded/*/; do
  n=$(basename $d); p=${n%%_*}
  cd /repo && git apply "/verif/$d/patch.diff" || { echo "$n PATCH DOES NOT APPLY"; continue; }
  cd /verif
  out=$(./vcheck run $p --no-evidence 2>&1 | grep -E "^(VIOLATION|SUMMARY|CHECKER|UNDECIDED|NOTE)")
  nv=$(echo "$out" | grep -c "^VIOLATION"); ex=$(echo "$out" | grep "^SUMMARY" | sed 's/.*exit=//')
  first=$(echo "$out" | grep "^VIOLATION" | head -1 | sed 's/.*obligation=//' | cut -c1-110)
  echo "$n violations=$nv exit=$ex first=$first"
  cd /repo && git checkout -- .
done
echo SWEEPDONE
