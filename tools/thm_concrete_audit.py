import random, sys, importlib, signal, time
sys.path.insert(0,"/verif")
prop=sys.argv[1]
importlib.import_module("contracts."+prop)
from pyvc.contracts import REG
from pyvc.run import theorem_check_concrete
from pyvc.report import _thm_sampler
class TO(Exception): pass
def h(*a): raise TO()
signal.signal(signal.SIGALRM,h)
rng=random.Random(1)
for t in REG.theorems:
    if t.prop!=prop: continue
    if getattr(t.fn,"no_concrete_replay",False) or getattr(t,"no_concrete_replay",False):
        print(prop,t.tid,"FLAGGED no_concrete_replay"); continue
    if getattr(t,"canary",False) or "CANARY" in t.tid: continue
    bad=0; n=0; info=None
    sampler=getattr(t,"sampler",None) or getattr(t.fn,"sampler",None)
    for i in range(4):
        s=sampler(rng) if sampler else _thm_sampler(t,rng)
        if s is None: info="no sampler"; break
        try:
            signal.alarm(20)
            res=theorem_check_concrete(t,s)
            signal.alarm(0)
        except TO:
            info="timeout"; break
        except Exception as e:
            signal.alarm(0); info="EXC %r"%(e,); info=info[:160]; bad+=1; continue
        if res=="skip": continue
        n+=1
        b=[r for r in res if not r[1]]
        if b: bad+=1; info=str(b[0])[:160]
    print(prop,t.tid[:60], "runs",n,"bad",bad, info, flush=True)
