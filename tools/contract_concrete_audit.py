import random, sys, importlib, signal
sys.path.insert(0,"/verif")
prop=sys.argv[1]
importlib.import_module("contracts."+prop)
from pyvc.contracts import REG
from pyvc.run import contract_check_concrete, default_sampler
class TO(Exception): pass
def h(*a): raise TO()
signal.signal(signal.SIGALRM,h)
rng=random.Random(1)
seen=set()
for c in REG.by_label.values():
    if c.property!=prop or id(c) in seen: continue
    seen.add(id(c))
    smp=getattr(c,"sampler",None)
    bad=n=0; info=None
    for i in range(200):
        s=smp(rng) if smp else default_sampler(c,rng)
        if s is None: info="no sampler"; break
        try:
            signal.alarm(10); v,d=contract_check_concrete(c,s); signal.alarm(0)
        except TO: info="timeout"; break
        except Exception as e: signal.alarm(0); continue
        if v=="skip": continue
        n+=1
        if v=="fail": bad+=1; info=str(d)[:200]
    if bad or info: print(prop,c.label.split(":")[1][:40],"sampler" if smp else "default","runs",n,"bad",bad,info,flush=True)
